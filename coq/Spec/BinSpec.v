(* BinSpec.v — an independent codec of the Roblox binary model format written from /repo/docs/binary.md ONLY
   (sections are quoted beside each definition, "doc:").  It shares with the model of the implementation
   nothing but the byte/integer layer (Base, Bytes: little/big-endian integers, the integer transformation,
   the float sign rotation, byte interleaving, referent accumulation, the byte-stream parser monad — each of
   them is ALSO described in the document's "Data Storage Notes" and the definitions used are the ones the
   quoted sentence describes) and the record types of Value.v (vec3, cframe, udim, physprops).  It does not
   import BinValues.v / BinFile.v / Rotation.v / Attr.v / Utf8.v.  LZ4 blocks are inflated by Spec/Lz4.v.

   Where the document is silent the choice made here is marked "silent:".  Where the document contradicts
   what the implementation is observed to write, the document is followed; the observed behaviour is
   available as an *amended reading* ([bs_reading]) so that the rest of a file can still be compared:
   every function below takes the reading as a parameter, the literal one is [bs_literal].

   All names carry the prefix bs_/K/I/O so that the flat OCaml extraction (one model.ml for all models)
   has no clashes with AttrSpec.spec_encode/spec_decode or the implementation models.
   The names of the task statement map as:  logical_file = bs_file, spec_decode = bspec_decode,
   spec_decode_chunks = bspec_decode_chunks, spec_to_dom = bspec_to_dom, spec_encode = bspec_encode,
   choices = bs_choices.   Definitions only; proofs in Proofs/BinSpecFacts.v.

   doc (Document Conventions): "Integers are assumed to be little endian and 2's complement unless otherwise
   specified. The presence of big endian integers and integers with interesting transformations are
   explicitly noted."  "The data contained in a chunk may be compressed. The term 'chunk data' refers to the
   decompressed contents." *)
From RbxVerif Require Import Base Bytes Value Lz4.
Open Scope N_scope.

Local Notation "x <~ p ;; k" := (pbind p (fun x => k)) (at level 61, p at next level, right associativity).

(* ================================================================ readings of the document *)
(* literal = false everywhere.
   rd_sstr_be : SharedString indices big-endian (doc, SharedString: "stored as an Interleaved Array of u32 values"
                — no byte order is noted, so the literal reading is little-endian by the Document Conventions;
                the implementation writes them big-endian like every other interleaved array)
   rd_uid_be  : the three UniqueId fields big-endian (doc gives `u32`,`u32`,`i64` with no byte order noted)
   rd_uid_rot : UniqueId.Random rotated left by one bit (doc: "stored in the order as written above with no
                modifications in the binary format"; the implementation rotates)
   rd_content_types_i32 : Content.SourceTypes stored as an Int32 array (transformed, interleaved) instead of the document's
                "Array(Enum)" (Enum: "an unsigned 32-bit integer ... stored as big endian"): source type 1 is written
                `00 00 00 02` by the implementation, `00 00 00 01` by the document *)
Record bs_reading := mkReading { rd_sstr_be : bool; rd_uid_be : bool; rd_uid_rot : bool; rd_content_types_i32 : bool }.
Definition bs_literal : bs_reading := mkReading false false false false.
Definition bs_amended : bs_reading := mkReading true true true true.

(* ================================================================ error classes *)
Definition BS_EOF : N := ERR_EOF.        (* 1: a field extends past the end of its chunk / of the file *)
Definition BS_HEADER : N := 70.          (* magic number, signature, version or reserved bytes of the file header *)
Definition BS_CHUNK_HEADER : N := 71.    (* reserved bytes of a chunk header are not zero *)
Definition BS_NO_INFLATER : N := 72.     (* a Zstandard chunk and no inflater was supplied *)
Definition BS_INFLATED_LEN : N := 73.    (* decompressed size differs from Uncompressed Length *)
Definition BS_TRAILING : N := 74.        (* bytes left in a chunk after its last field / in the file after END *)
Definition BS_BOOL : N := 75.
Definition BS_PHYS_FLAG : N := 76.
Definition BS_ROTATION_ID : N := 77.
Definition BS_OBJECT_FORMAT : N := 78.
Definition BS_OCF_MARKER : N := 79.      (* the inner type ids 0x10 / 0x02 of an OptionalCoordinateFrame column *)
Definition BS_CONTENT : N := 80.         (* SourceType not 0/1/2, or counts that do not match the source types *)
Definition BS_CHUNK_VERSION : N := 81.   (* SSTR / PRNT version *)
Definition BS_PROP_CLASS : N := 82.      (* PROP names a class id with no preceding INST *)
Definition BS_DUP_CHUNK : N := 83.       (* second META / SSTR / PRNT, or END before the last chunk *)
Definition BS_NO_PRNT : N := 84.
Definition BS_NO_END : N := 85.
Definition BS_END_MAGIC : N := 86.
Definition BS_END_COMPRESSED : N := 87.
Definition BS_HEADER_COUNTS : N := 88.   (* header Class Count / Instance Count differ from the body *)
Definition BS_DUP_CLASS_ID : N := 89.
Definition BS_DOM_SSTR_INDEX : N := 90.  (* to_dom: SharedString index outside the SSTR array *)
Definition BS_DOM_PRNT : N := 91.        (* to_dom: instance missing from / listed twice in PRNT, unknown child or parent *)
Definition BS_DOM_COLUMN : N := 92.      (* to_dom: column shorter than its class (excluded by decoding) *)

(* ================================================================ primitives *)
(* a u32 that counts following items of at least one byte each: refused early when the rest is shorter
   (also keeps the unary numbers of the extracted code small on hostile input) *)
Definition p_count : parser nat := fun b =>
  match read_le 4 b with
  | Ok (k, b') => if shorter_than b' k then Err BS_EOF else Ok (N.to_nat k, b')
  | Panic => Panic | Err c => Err c | OutOfFuel => OutOfFuel
  end.
Definition e_u32 (n : N) : bytes := le_bytes 4 n.
Definition e_len {A} (l : list A) : bytes := le_bytes 4 (N.of_nat (length l)).

(* doc (String): "stored as a length-prefixed sequence of bytes. The length is stored as an untransformed 32-bit
   integer."  | Length u32 | Data Array(Bytes) |   ("String values are UTF-8 encoded": the bytes are kept as they
   are; silent: what a reader does with bytes that are not UTF-8) *)
Definition e_string (s : bytes) : bytes := e_len s ++ s.
Definition p_string : parser bytes := k <~ p_count ;; read_exact k.

(* little-endian IEEE-754 single, as its bit pattern ("f32" of the Document Conventions) *)
Definition e_f32le (x : f32) : bytes := le_bytes 4 x.
Definition p_f32le : parser f32 := read_le 4.
Definition e_i16 (z : Z) : bytes := le_bytes 2 (wrap_u 16 z).
Definition p_i16 : parser Z := read_le_i 2 16.

Definition e_v3le (v : vec3) : bytes := e_f32le (vx v) ++ e_f32le (vy v) ++ e_f32le (vz v).
Definition p_v3le : parser vec3 := x <~ p_f32le ;; y <~ p_f32le ;; z <~ p_f32le ;; pret (mkV3 x y z).

(* the whole rest of a chunk must have been consumed *)
Definition p_end {A} (a : A) : parser A := fun b => match b with [] => Ok (a, []) | _ => Err BS_TRAILING end.

(* ---- arrays of Float32 structs: doc (Vector3): "stored as three arrays of components in the order X, Y, Z. Each
   array is separately byte interleaved."  Float32 arrays are Bytes.enc_f32_array / dec_f32_array: doc (Float32):
   "stored using the Roblox float format and is big-endian ... the bytes of the floats are subject to byte
   interleaving"; doc (Roblox Float Format): Standard `seeeeeee emmmmmmm mmmmmmmm mmmmmmmm`, Roblox `eeeeeeee mmmmmmmm
   mmmmmmmm mmmmmmms` = rotate left by one bit (Bytes.rotl32). *)
Definition e_v3s (l : list vec3) : bytes :=
  enc_f32_array (List.map vx l) ++ enc_f32_array (List.map vy l) ++ enc_f32_array (List.map vz l).
Definition p_v3s (n : nat) : parser (list vec3) :=
  xs <~ dec_f32_array n ;; ys <~ dec_f32_array n ;; zs <~ dec_f32_array n ;;
  pret (List.map (fun t => mkV3 (fst t) (fst (snd t)) (snd (snd t))) (combine xs (combine ys zs))).
Definition e_v2s (l : list vec2) : bytes := enc_f32_array (List.map v2x l) ++ enc_f32_array (List.map v2y l).
Definition p_v2s (n : nat) : parser (list vec2) :=
  xs <~ dec_f32_array n ;; ys <~ dec_f32_array n ;;
  pret (List.map (fun t => mkV2 (fst t) (snd t)) (combine xs ys)).

(* ================================================================ CFrame rotation ids *)
(* doc (CFrame): "If the ID is not 00, it will be a value from the following table. ... Rotations in this table are in
   degrees and are applied in the order Y -> X -> Z."  The table of the document, verbatim: *)
Definition bs_ra (id : N) (x y z : Z) : N * (Z * Z * Z) := (id, (x, y, z)).
Definition bs_rot_angles : list (N * (Z * Z * Z)) :=
  [ bs_ra 0x02 0 0 0;  bs_ra 0x14 0 180 0;
    bs_ra 0x03 90 0 0;  bs_ra 0x15 (-90) (-180) 0;
    bs_ra 0x05 0 180 180;  bs_ra 0x17 0 0 180;
    bs_ra 0x06 (-90) 0 0;  bs_ra 0x18 90 180 0;
    bs_ra 0x07 0 180 90;  bs_ra 0x19 0 0 (-90);
    bs_ra 0x09 0 90 90;  bs_ra 0x1b 0 (-90) (-90);
    bs_ra 0x0a 0 0 90;  bs_ra 0x1c 0 (-180) (-90);
    bs_ra 0x0c 0 (-90) 90;  bs_ra 0x1e 0 90 (-90);
    bs_ra 0x0d (-90) (-90) 0;  bs_ra 0x1f 90 90 0;
    bs_ra 0x0e 0 (-90) 0;  bs_ra 0x20 0 90 0;
    bs_ra 0x10 90 (-90) 0;  bs_ra 0x22 (-90) 90 0;
    bs_ra 0x11 0 90 180;  bs_ra 0x23 0 (-90) 180 ].

(* exact sine and cosine of a multiple of 90 degrees *)
Definition bs_cosd (a : Z) : Z := (match a mod 360 with 0 => 1 | 180 => -1 | _ => 0 end)%Z.
Definition bs_sind (a : Z) : Z := (match a mod 360 with 90 => 1 | 270 => -1 | _ => 0 end)%Z.
Definition bs_zmat := (Z * Z * Z * (Z * Z * Z) * (Z * Z * Z))%type.          (* rows *)
Definition bs_zmat_mul (a b : bs_zmat) : bs_zmat :=
  let '(a00, a01, a02, (a10, a11, a12), (a20, a21, a22)) := a in
  let '(b00, b01, b02, (b10, b11, b12), (b20, b21, b22)) := b in
  ((a00*b00 + a01*b10 + a02*b20, a00*b01 + a01*b11 + a02*b21, a00*b02 + a01*b12 + a02*b22,
    (a10*b00 + a11*b10 + a12*b20, a10*b01 + a11*b11 + a12*b21, a10*b02 + a11*b12 + a12*b22),
    (a20*b00 + a21*b10 + a22*b20, a20*b01 + a21*b11 + a22*b21, a20*b02 + a21*b12 + a22*b22)))%Z.
Definition bs_rot_x (a : Z) : bs_zmat := (1, 0, 0, (0, bs_cosd a, - bs_sind a), (0, bs_sind a, bs_cosd a))%Z.
Definition bs_rot_y (a : Z) : bs_zmat := (bs_cosd a, 0, bs_sind a, (0, 1, 0), (- bs_sind a, 0, bs_cosd a))%Z.
Definition bs_rot_z (a : Z) : bs_zmat := (bs_cosd a, - bs_sind a, 0, (bs_sind a, bs_cosd a, 0), (0, 0, 1))%Z.
(* "applied in the order Y -> X -> Z": the matrix Ry * Rx * Rz (CFrame.fromEulerAnglesYXZ) *)
Definition bs_zmat_of_angles (t : Z * Z * Z) : bs_zmat :=
  let '(x, y, z) := t in bs_zmat_mul (bs_zmat_mul (bs_rot_y y) (bs_rot_x x)) (bs_rot_z z).
(* entries are exactly 0, 1 or -1: as f32 bit patterns (+0.0, 1.0, -1.0) *)
Definition bs_f32_of_unit (z : Z) : f32 := (match z with 1%Z => F32_ONE | (-1)%Z => F32_NEG_ONE | _ => F32_ZERO end).
Definition bs_mat3_of_zmat (m : bs_zmat) : mat3 :=
  let '(a, b, c, (d, e, f), (g, h, i)) := m in
  mkM3 (mkV3 (bs_f32_of_unit a) (bs_f32_of_unit b) (bs_f32_of_unit c))
       (mkV3 (bs_f32_of_unit d) (bs_f32_of_unit e) (bs_f32_of_unit f))
       (mkV3 (bs_f32_of_unit g) (bs_f32_of_unit h) (bs_f32_of_unit i)).
Definition bs_rot_table : list (N * mat3) :=
  List.map (fun e => (fst e, bs_mat3_of_zmat (bs_zmat_of_angles (snd e)))) bs_rot_angles.

Definition bs_vec3_eqb (a b : vec3) : bool := N.eqb (vx a) (vx b) && N.eqb (vy a) (vy b) && N.eqb (vz a) (vz b).
Definition bs_mat3_eqb (a b : mat3) : bool := bs_vec3_eqb (mx a) (mx b) && bs_vec3_eqb (my a) (my b) && bs_vec3_eqb (mz a) (mz b).
Fixpoint rot_by_id (t : list (N * mat3)) (id : N) : option mat3 :=
  match t with [] => None | (i, m) :: r => if N.eqb i id then Some m else rot_by_id r id end.
Fixpoint id_by_rot (t : list (N * mat3)) (m : mat3) : option N :=
  match t with [] => None | (i, m') :: r => if bs_mat3_eqb m' m then Some i else id_by_rot r m end.

(* doc (CFrame): "If the byte is 00 ... | ID u8 Always 00 | Orientation Array of 9 f32 values: R00 R01 R02 R10 R11 R12
   R20 R21 R22, in that order | ... the Orientation field is stored as nine untransformed IEEE-754 standard 32-bit
   floats."  An encoder is free to use the special ids ("To save space, there are 24 special cases where only the
   CFrame's position is saved") or not: [use_ids]. *)
Definition e_rot (use_ids : bool) (m : mat3) : bytes :=
  match (if use_ids then id_by_rot bs_rot_table m else None) with
  | Some id => [id]
  | None => 0 :: e_v3le (mx m) ++ e_v3le (my m) ++ e_v3le (mz m)
  end.
Definition p_rot : parser mat3 :=
  id <~ read_u8 ;;
  if N.eqb id 0 then x <~ p_v3le ;; y <~ p_v3le ;; z <~ p_v3le ;; pret (mkM3 x y z)
  else match rot_by_id bs_rot_table id with Some m => pret m | None => pfail BS_ROTATION_ID end.

(* doc (CFrame): "When an array of CFrame values is present, for each value the ID is stored followed by the Rotation
   field if it's present. Then, an array of Vector3 values that represent the Position field of each CFrame." *)
Definition e_cframes (use_ids : bool) (l : list cframe) : bytes :=
  flat_map (fun c => e_rot use_ids (cf_rot c)) l ++ e_v3s (List.map cf_pos l).
Definition p_cframes (n : nat) : parser (list cframe) :=
  rs <~ prepeat n p_rot ;; ps <~ p_v3s n ;;
  pret (List.map (fun t => mkCF (fst t) (snd t)) (combine ps rs)).

(* doc (Bool): "stored as a single byte. If the byte is 0x00, the bool is false. If it is 0x01, it is true."
   silent: any other byte (refused here) *)
Definition e_bool (b : bool) : N := if b then 1 else 0.
Definition p_bool : parser bool :=
  x <~ read_u8 ;; if N.eqb x 0 then pret false else if N.eqb x 1 then pret true else pfail BS_BOOL.

(* ================================================================ columns: one PROP chunk's Values *)
Inductive bs_content := BCNone | BCUri (s : bytes) | BCObject (r : Z).

(* one constructor per "Data Types" section of the document; the list has one element per instance of the class.
   Bits the document declares meaningless or unused are kept (Faces/Axes high bits, ColorSequence envelope, the CFrame
   written for a valueless OptionalCoordinateFrame, Content's external referents): an encoder is free in them, and
   [bs_col_values] below drops them when the DOM is built. *)
Inductive bs_column :=
| KString (l : list bytes)                                   (* 0x01 *)
| KBool (l : list bool)                                      (* 0x02 *)
| KInt32 (l : list Z)                                        (* 0x03 *)
| KFloat32 (l : list f32)                                    (* 0x04 *)
| KFloat64 (l : list f64)                                    (* 0x05 *)
| KUDim (l : list udim)                                      (* 0x06 *)
| KUDim2 (l : list (udim * udim))                            (* 0x07: X, Y *)
| KRay (l : list (vec3 * vec3))                              (* 0x08: origin, direction *)
| KFaces (l : list N)                                        (* 0x09: the whole byte *)
| KAxes (l : list N)                                         (* 0x0a: the whole byte *)
| KBrickColor (l : list N)                                   (* 0x0b *)
| KColor3 (l : list vec3)                                    (* 0x0c: R, G, B in the x, y, z fields *)
| KVector2 (l : list vec2)                                   (* 0x0d *)
| KVector3 (l : list vec3)                                   (* 0x0e *)
| KCFrame (l : list cframe)                                  (* 0x10 *)
| KEnum (l : list N)                                         (* 0x12 *)
| KReferent (l : list Z)                                     (* 0x13 *)
| KVector3int16 (l : list (Z * Z * Z))                       (* 0x14 *)
| KNumberSequence (l : list (list (f32 * f32 * f32)))        (* 0x15: time, value, envelope *)
| KColorSequence (l : list (list (f32 * vec3 * f32)))        (* 0x16: time, colour, envelope (unused) *)
| KNumberRange (l : list (f32 * f32))                        (* 0x17 *)
| KRect (l : list (vec2 * vec2))                             (* 0x18: min, max *)
| KPhysicalProperties (l : list (option physprops))          (* 0x19 *)
| KColor3uint8 (l : list (N * N * N))                        (* 0x1a *)
| KInt64 (l : list Z)                                        (* 0x1b *)
| KSharedString (l : list N)                                 (* 0x1c: indices into SSTR *)
| KBytecode (l : list bytes)                                 (* 0x1d *)
| KOptionalCFrame (l : list (cframe * bool))                 (* 0x1e: the stored CFrame, has-value *)
| KUniqueId (l : list (N * N * Z))                           (* 0x1f: index, time, random *)
| KFont (l : list (bytes * N * N * bytes))                   (* 0x20: family, weight, style, cached face id *)
| KContent (l : list bs_content) (ext : list Z).             (* 0x22; ext = ExternalObjectRefs *)

Definition bs_col_type (c : bs_column) : N :=
  match c with
  | KString _ => 0x01 | KBool _ => 0x02 | KInt32 _ => 0x03 | KFloat32 _ => 0x04 | KFloat64 _ => 0x05
  | KUDim _ => 0x06 | KUDim2 _ => 0x07 | KRay _ => 0x08 | KFaces _ => 0x09 | KAxes _ => 0x0a
  | KBrickColor _ => 0x0b | KColor3 _ => 0x0c | KVector2 _ => 0x0d | KVector3 _ => 0x0e | KCFrame _ => 0x10
  | KEnum _ => 0x12 | KReferent _ => 0x13 | KVector3int16 _ => 0x14 | KNumberSequence _ => 0x15
  | KColorSequence _ => 0x16 | KNumberRange _ => 0x17 | KRect _ => 0x18 | KPhysicalProperties _ => 0x19
  | KColor3uint8 _ => 0x1a | KInt64 _ => 0x1b | KSharedString _ => 0x1c | KBytecode _ => 0x1d
  | KOptionalCFrame _ => 0x1e | KUniqueId _ => 0x1f | KFont _ => 0x20 | KContent _ _ => 0x22
  end.

Definition bs_col_len (c : bs_column) : nat :=
  match c with
  | KString l | KBytecode l => length l
  | KBool l => length l | KInt32 l | KInt64 l | KReferent l => length l
  | KFloat32 l | KFloat64 l | KFaces l | KAxes l | KBrickColor l | KEnum l | KSharedString l => length l
  | KUDim l => length l | KUDim2 l => length l | KRay l => length l
  | KColor3 l | KVector3 l => length l | KVector2 l => length l | KCFrame l => length l
  | KVector3int16 l => length l | KNumberSequence l => length l | KColorSequence l => length l
  | KNumberRange l => length l | KRect l => length l | KPhysicalProperties l => length l
  | KColor3uint8 l => length l | KOptionalCFrame l => length l | KUniqueId l => length l | KFont l => length l
  | KContent l _ => length l
  end.

(* the type ids the document defines *)
Definition bs_known_type (ty : N) : bool :=
  match ty with
  | 0x01 | 0x02 | 0x03 | 0x04 | 0x05 | 0x06 | 0x07 | 0x08 | 0x09 | 0x0a | 0x0b | 0x0c | 0x0d | 0x0e | 0x10
  | 0x12 | 0x13 | 0x14 | 0x15 | 0x16 | 0x17 | 0x18 | 0x19 | 0x1a | 0x1b | 0x1c | 0x1d | 0x1e | 0x1f | 0x20 | 0x22 => true
  | _ => false
  end.

(* ---- per-type element codecs for the types stored "in sequence" *)
(* doc (NumberSequence): | Keypoint count u32 | Keypoints Array(NumberSequenceKeypoint) |, keypoint = | Time f32 | Value f32
   | Envelope f32 |; "stored in sequence with no transformation or interleaving" *)
Definition e_nseq (k : list (f32 * f32 * f32)) : bytes :=
  e_len k ++ flat_map (fun t => e_f32le (fst (fst t)) ++ e_f32le (snd (fst t)) ++ e_f32le (snd t)) k.
Definition p_nseq : parser (list (f32 * f32 * f32)) :=
  n <~ p_count ;; prepeat n (t <~ p_f32le ;; v <~ p_f32le ;; e <~ p_f32le ;; pret (t, v, e)).
(* doc (ColorSequence): keypoint = | Time f32 | R f32 | G f32 | B f32 | Envelope (unused) f32 "serialized, but not used" | *)
Definition e_cseq (k : list (f32 * vec3 * f32)) : bytes :=
  e_len k ++ flat_map (fun t => e_f32le (fst (fst t)) ++ e_v3le (snd (fst t)) ++ e_f32le (snd t)) k.
Definition p_cseq : parser (list (f32 * vec3 * f32)) :=
  n <~ p_count ;; prepeat n (t <~ p_f32le ;; c <~ p_v3le ;; e <~ p_f32le ;; pret (t, c, e)).
(* doc (PhysicalProperties): "If there is no CustomPhysicalProperties value, a PhysicalProperties is stored as a single byte
   of value 0. Otherwise, it is stored as a byte of value 1 immediately followed by a CustomPhysicalProperties stored as
   little-endian floats (in the same order as the above table)": Density Friction Elasticity FrictionWeight ElasticityWeight.
   silent: any other flag byte (refused) *)
Definition e_phys (p : option physprops) : bytes :=
  match p with
  | None => [0]
  | Some q => 1 :: e_f32le (ph_density q) ++ e_f32le (ph_friction q) ++ e_f32le (ph_elasticity q)
                ++ e_f32le (ph_friction_weight q) ++ e_f32le (ph_elasticity_weight q)
  end.
Definition p_phys : parser (option physprops) :=
  f <~ read_u8 ;;
  if N.eqb f 0 then pret None
  else if N.eqb f 1 then
    d <~ p_f32le ;; fr <~ p_f32le ;; el <~ p_f32le ;; fw <~ p_f32le ;; ew <~ p_f32le ;; pret (Some (mkPhys d fr el fw ew))
  else pfail BS_PHYS_FLAG.
(* doc (Font): | Family String | Weight u16 | Style u8 | CachedFaceId String |  "The Weight and Style fields are stored as
   little-endian unsigned integers."  "The CachedFaceId field is always present, but is allowed to be an empty string".
   silent: the layout of an array of Font values (taken to be "in sequence", as for every other struct with Strings) *)
Definition e_font (t : bytes * N * N * bytes) : bytes :=
  let '(fam, w, s, c) := t in e_string fam ++ le_bytes 2 w ++ le_bytes 1 s ++ e_string c.
Definition p_font : parser (bytes * N * N * bytes) :=
  fam <~ p_string ;; w <~ read_le 2 ;; s <~ read_u8 ;; c <~ p_string ;; pret (fam, w, s, c).
(* doc (UniqueId): | Index u32 | Time u32 | Random i64 |  "This struct is stored in the order as written above with no
   modifications in the binary format."  "When an array of UniqueId values is present, the bytes are subject to byte
   interleaving."  Literal reading: little-endian fields (Document Conventions), 16 bytes per value. *)
Definition e_uid (rd : bs_reading) (t : N * N * Z) : bytes :=
  let '(i, tm, r) := t in
  let rb := if rd_uid_rot rd then rotl64 (wrap_u 64 r) else wrap_u 64 r in
  if rd_uid_be rd then be_bytes 4 i ++ be_bytes 4 tm ++ be_bytes 8 rb
  else le_bytes 4 i ++ le_bytes 4 tm ++ le_bytes 8 rb.
Definition d_uid (rd : bs_reading) (row : bytes) : N * N * Z :=
  let a := firstn 4 row in let b := firstn 4 (skipn 4 row) in let c := skipn 8 row in
  let rdn := fun x => if rd_uid_be rd then of_be x else of_le x in
  let rb := rdn c in
  (rdn a, rdn b, wrap_s 64 (if rd_uid_rot rd then rotr64 rb else rb)).

(* doc (Content): | SourceTypes Array(Enum) | UriCount u32 | Uris Array(String) | ObjectCount u32 | ObjectRefs Array(Ref) |
   ExternalObjectCount u32 | ExternalObjectRefs Array(Ref) |;  SourceType None 0, Uri 1, Object 2;  "Uris is an array UriCount
   elements long which contains a sequential list of every Uri included in SourceTypes";  "ObjectRefs is a referent array that
   is ObjectCount elements long".  The k-th item whose source type is Uri takes the k-th Uri, likewise Object.
   silent: how an Object item would be told to use ExternalObjectRefs (never: they are "not applicable to implementors"). *)
Definition content_type (c : bs_content) : N := match c with BCNone => 0 | BCUri _ => 1 | BCObject _ => 2 end.
Fixpoint content_uris (l : list bs_content) : list bytes :=
  match l with [] => [] | BCUri s :: r => s :: content_uris r | _ :: r => content_uris r end.
Fixpoint content_objs (l : list bs_content) : list Z :=
  match l with [] => [] | BCObject z :: r => z :: content_objs r | _ :: r => content_objs r end.
Definition e_ctypes (rd : bs_reading) (l : list N) : bytes :=
  if rd_content_types_i32 rd then enc_i32_array (List.map Z.of_N l) else enc_u32_array l.
Definition e_content (rd : bs_reading) (l : list bs_content) (ext : list Z) : bytes :=
  e_ctypes rd (List.map content_type l)
  ++ e_len (content_uris l) ++ flat_map e_string (content_uris l)
  ++ e_len (content_objs l) ++ enc_ref_array (content_objs l)
  ++ e_len ext ++ enc_ref_array ext.
Fixpoint content_zip (tys : list N) (uris : list bytes) (objs : list Z) : option (list bs_content) :=
  match tys with
  | [] => match uris, objs with [], [] => Some [] | _, _ => None end
  | t :: r =>
    if N.eqb t 0 then option_map (cons BCNone) (content_zip r uris objs)
    else if N.eqb t 1 then match uris with u :: us => option_map (cons (BCUri u)) (content_zip r us objs) | [] => None end
    else if N.eqb t 2 then match objs with o :: os => option_map (cons (BCObject o)) (content_zip r uris os) | [] => None end
    else None
  end.
(* a count of referents: 4 bytes each *)
Definition p_count4 : parser nat := fun b =>
  match read_le 4 b with
  | Ok (k, b') => if shorter_than b' (4 * k) then Err BS_EOF else Ok (N.to_nat k, b')
  | Panic => Panic | Err c => Err c | OutOfFuel => OutOfFuel
  end.
Definition p_ctypes (rd : bs_reading) (n : nat) : parser (list N) :=
  if rd_content_types_i32 rd then l <~ dec_i32_array n ;; pret (List.map (fun z => if Z.ltb z 0 then 255 else Z.to_N z) l)
  else dec_u32_array n.
Definition p_content (rd : bs_reading) (n : nat) : parser bs_column :=
  tys <~ p_ctypes rd n ;;
  nu <~ p_count ;; uris <~ prepeat nu p_string ;;
  no <~ p_count4 ;; objs <~ dec_ref_array no ;;
  ne <~ p_count4 ;; ext <~ dec_ref_array ne ;;
  match content_zip tys uris objs with Some l => pret (KContent l ext) | None => pfail BS_CONTENT end.

(* ---- SharedString indices: doc: "stored as an Interleaved Array of u32 values that represent indices in the SSTR string array" *)
Definition e_sstr_idx (rd : bs_reading) (l : list N) : bytes :=
  if rd_sstr_be rd then enc_u32_array l else interleave 4 (List.map (le_bytes 4) l).
Definition p_sstr_idx (rd : bs_reading) (n : nat) : parser (list N) :=
  if rd_sstr_be rd then dec_u32_array n
  else buf <~ read_exact (n * 4) ;; pret (List.map of_le (deinterleave 4 n buf)).

(* ================================================================ the Values field of a PROP chunk, by Type ID *)
Definition bs_enc_col (rd : bs_reading) (use_ids : bool) (c : bs_column) : bytes :=
  match c with
  (* doc (String): "When an array of String values is present, they are stored in sequence without any modification." *)
  | KString l => flat_map e_string l
  (* doc (Bytecode): "stored identically to String properties" *)
  | KBytecode l => flat_map e_string l
  (* doc (Bool): "When an array of Bool values is present, they are stored in sequence." *)
  | KBool l => List.map e_bool l
  (* doc (Int32): "stored as a big-endian transformed 32-bit integer ... the bytes of the integers are subject to byte
     interleaving"; doc (Integer Transformations): "if x greater than or equal to zero, transform it with 2 * x. Otherwise,
     use 2 * |x| - 1" = Bytes.transform_i32 (BytesFacts.transform_i32_spec) *)
  | KInt32 l => enc_i32_array l
  | KFloat32 l => enc_f32_array l
  (* doc (Float64): "stored using the IEEE-754 format and is little-endian ... in sequence with no transformations" *)
  | KFloat64 l => flat_map (le_bytes 8) l
  (* doc (UDim): "the bytes of each individual components are stored as arrays": Scale (Float32) array, Offset (Int32) array *)
  | KUDim l => enc_f32_array (List.map ud_scale l) ++ enc_i32_array (List.map ud_offset l)
  (* doc (UDim2): "stored as four arrays of component values in the order X.Scale, Y.Scale, X.Offset, Y.Offset" *)
  | KUDim2 l => enc_f32_array (List.map (fun t => ud_scale (fst t)) l) ++ enc_f32_array (List.map (fun t => ud_scale (snd t)) l)
                ++ enc_i32_array (List.map (fun t => ud_offset (fst t)) l) ++ enc_i32_array (List.map (fun t => ud_offset (snd t)) l)
  (* doc (Ray): "six little-endian f32 values ... Origin and then the Direction ... stored in order without any additional
     transformations" *)
  | KRay l => flat_map (fun t => e_v3le (fst t) ++ e_v3le (snd t)) l
  (* doc (Faces)/(Axes): "stored as an array of bytes with no transformations or interleaving" *)
  | KFaces l => l
  | KAxes l => l
  (* doc (BrickColor): "a single untransformed big-endian u32 ... the Numbers are byte interleaved" *)
  | KBrickColor l => enc_u32_array l
  (* doc (Color3): "stored as three arrays of components in the order R, G, B. Each array is separately byte interleaved." *)
  | KColor3 l => e_v3s l
  | KVector2 l => e_v2s l
  | KVector3 l => e_v3s l
  | KCFrame l => e_cframes use_ids l
  (* doc (Enum): "an unsigned 32-bit integer. It is stored as big endian and is subject to byte interleaving." *)
  | KEnum l => enc_u32_array l
  (* doc (Referent): "stored as an Int32 ... subject to byte interleaving. When reading an array of Referent values, they must
     be read accumulatively" = Bytes.enc_ref_array *)
  | KReferent l => enc_ref_array l
  (* doc (Vector3int16): "stored as three little-endian i16 values ... in sequence without any transformations or interleaving" *)
  | KVector3int16 l => flat_map (fun t => e_i16 (fst (fst t)) ++ e_i16 (snd (fst t)) ++ e_i16 (snd t)) l
  | KNumberSequence l => flat_map e_nseq l
  | KColorSequence l => flat_map e_cseq l
  (* doc (NumberRange): "two little-endian floats ... in sequence with no transformation or interleaving" *)
  | KNumberRange l => flat_map (fun t => e_f32le (fst t) ++ e_f32le (snd t)) l
  (* doc (Rect): "four arrays of Float32s in the order Min.X, Min.Y, Max.X, Max.Y. Each array is subject to byte interleaving." *)
  | KRect l => e_v2s (List.map fst l) ++ e_v2s (List.map snd l)
  | KPhysicalProperties l => flat_map e_phys l
  (* doc (Color3uint8): "stored as three consecutive arrays of components in the order R, G, B. It is not subject to any
     transformation or byte interleaving." *)
  | KColor3uint8 l => List.map (fun t => fst (fst t)) l ++ List.map (fun t => snd (fst t)) l ++ List.map snd l
  (* doc (Int64): "big-endian transformed 64-bit integer ... subject to byte interleaving" *)
  | KInt64 l => enc_i64_array l
  | KSharedString l => e_sstr_idx rd l
  (* doc (OptionalCoordinateFrame): "Immediately following the type ID for OptionalCoordinateFrame is the type ID for CFrame (10);
     At the end of the chunk there is an array of Bool values (preceded by the respective type ID, 02)" *)
  | KOptionalCFrame l => 0x10 :: e_cframes use_ids (List.map fst l) ++ 0x02 :: List.map (fun t => e_bool (snd t)) l
  | KUniqueId l => interleave 16 (List.map (e_uid rd) l)
  | KFont l => flat_map e_font l
  | KContent l ext => e_content rd l ext
  end.

Definition p_marker (m : N) : parser unit := x <~ read_u8 ;; if N.eqb x m then pret tt else pfail BS_OCF_MARKER.

Definition bs_dec_col (rd : bs_reading) (ty : N) (n : nat) : parser bs_column :=
  match ty with
  | 0x01 => l <~ prepeat n p_string ;; pret (KString l)
  | 0x02 => l <~ prepeat n p_bool ;; pret (KBool l)
  | 0x03 => l <~ dec_i32_array n ;; pret (KInt32 l)
  | 0x04 => l <~ dec_f32_array n ;; pret (KFloat32 l)
  | 0x05 => l <~ prepeat n (read_le 8) ;; pret (KFloat64 l)
  | 0x06 => s <~ dec_f32_array n ;; o <~ dec_i32_array n ;;
            pret (KUDim (List.map (fun t => mkUDim (fst t) (snd t)) (combine s o)))
  | 0x07 => xs <~ dec_f32_array n ;; ys <~ dec_f32_array n ;; xo <~ dec_i32_array n ;; yo <~ dec_i32_array n ;;
            pret (KUDim2 (List.map (fun t => (mkUDim (fst (fst t)) (fst (snd t)), mkUDim (snd (fst t)) (snd (snd t))))
                                   (combine (combine xs ys) (combine xo yo))))
  | 0x08 => l <~ prepeat n (o <~ p_v3le ;; d <~ p_v3le ;; pret (o, d)) ;; pret (KRay l)
  | 0x09 => l <~ read_exact n ;; pret (KFaces l)
  | 0x0a => l <~ read_exact n ;; pret (KAxes l)
  | 0x0b => l <~ dec_u32_array n ;; pret (KBrickColor l)
  | 0x0c => l <~ p_v3s n ;; pret (KColor3 l)
  | 0x0d => l <~ p_v2s n ;; pret (KVector2 l)
  | 0x0e => l <~ p_v3s n ;; pret (KVector3 l)
  | 0x10 => l <~ p_cframes n ;; pret (KCFrame l)
  | 0x12 => l <~ dec_u32_array n ;; pret (KEnum l)
  | 0x13 => l <~ dec_ref_array n ;; pret (KReferent l)
  | 0x14 => l <~ prepeat n (x <~ p_i16 ;; y <~ p_i16 ;; z <~ p_i16 ;; pret (x, y, z)) ;; pret (KVector3int16 l)
  | 0x15 => l <~ prepeat n p_nseq ;; pret (KNumberSequence l)
  | 0x16 => l <~ prepeat n p_cseq ;; pret (KColorSequence l)
  | 0x17 => l <~ prepeat n (a <~ p_f32le ;; b <~ p_f32le ;; pret (a, b)) ;; pret (KNumberRange l)
  | 0x18 => lo <~ p_v2s n ;; hi <~ p_v2s n ;; pret (KRect (combine lo hi))
  | 0x19 => l <~ prepeat n p_phys ;; pret (KPhysicalProperties l)
  | 0x1a => r <~ read_exact n ;; g <~ read_exact n ;; b <~ read_exact n ;;
            pret (KColor3uint8 (List.map (fun t => (fst t, fst (snd t), snd (snd t))) (combine r (combine g b))))
  | 0x1b => l <~ dec_i64_array n ;; pret (KInt64 l)
  | 0x1c => l <~ p_sstr_idx rd n ;; pret (KSharedString l)
  | 0x1d => l <~ prepeat n p_string ;; pret (KBytecode l)
  | 0x1e => _ <~ p_marker 0x10 ;; cs <~ p_cframes n ;; _ <~ p_marker 0x02 ;; bs <~ prepeat n p_bool ;;
            pret (KOptionalCFrame (combine cs bs))
  | 0x1f => buf <~ read_exact (n * 16) ;; pret (KUniqueId (List.map (d_uid rd) (deinterleave 16 n buf)))
  | 0x20 => l <~ prepeat n p_font ;; pret (KFont l)
  | 0x22 => p_content rd n
  | _ => pfail BS_EOF      (* not reached: callers test bs_known_type first *)
  end.

(* ================================================================ chunks *)
Definition NAME_META : bytes := [77; 69; 84; 65].
Definition NAME_SSTR : bytes := [83; 83; 84; 82].
Definition NAME_INST : bytes := [73; 78; 83; 84].
Definition NAME_PROP : bytes := [80; 82; 79; 80].
Definition NAME_PRNT : bytes := [80; 82; 78; 84].
(* doc (Chunks): "If Chunk Name is less than four bytes, the remainder is filled with zeros." *)
Definition NAME_END : bytes := [69; 78; 68; 0].
(* doc (END): | Magic Value 9 bytes Always `</roblox>` | *)
Definition END_MAGIC : bytes := [60; 47; 114; 111; 98; 108; 111; 120; 62].

(* doc (INST): | Class ID u32 | Class Name String | Object Format u8 | Instance Count u32 | Referents Array(Referent) |
   Service Markers Array(u8) "1 for each instance if the class is a service, otherwise not present" | *)
Record bs_class := mkClass { cls_id : N; cls_name : bytes; cls_service : bool; cls_refs : list Z; cls_markers : list N }.

Inductive bs_body :=
| BValues (c : bs_column)
| BTruncated                      (* the chunk ends right after Property Name (property C04; not in the document) *)
| BUnknown (ty : N) (raw : bytes). (* a Type ID the document does not define; raw = the rest of the chunk *)
(* doc (PROP): | Class ID u32 | Property Name String | Type ID u8 | Values Array(Value) | *)
Record bs_prop := mkProp { bp_class : N; bp_name : bytes; bp_body : bs_body }.

Inductive bs_item :=
| IMeta (l : list (bytes * bytes))
| ISstr (l : list (bytes * bytes))          (* MD5 Hash (16 bytes), Shared String *)
| IInst (c : bs_class)
| IProp (p : bs_prop)
| IPrnt (rows : list (Z * Z))               (* child, parent *)
| IEnd
| IUnknown (name data : bytes).

Definition e_pair (t : bytes * bytes) : bytes := e_string (fst t) ++ e_string (snd t).
Definition e_sstr_entry (t : bytes * bytes) : bytes := fst t ++ e_string (snd t).

Definition bs_enc_item (rd : bs_reading) (use_ids : bool) (it : bs_item) : bytes * bytes :=
  match it with
  (* doc (META): | Number of Metadata Entries u32 | Metadata Entries Array(Entries) |, entry = | Key String | Value String | *)
  | IMeta l => (NAME_META, e_len l ++ flat_map e_pair l)
  (* doc (SSTR): | Version u32 (always 0) | Shared String Count u32 | Strings |, entry = | MD5 Hash 16 bytes | Shared String String | *)
  | ISstr l => (NAME_SSTR, e_u32 0 ++ e_len l ++ flat_map e_sstr_entry l)
  | IInst c => (NAME_INST, e_u32 (cls_id c) ++ e_string (cls_name c) ++ [e_bool (cls_service c)] ++ e_len (cls_refs c)
                           ++ enc_ref_array (cls_refs c) ++ cls_markers c)
  | IProp p => (NAME_PROP, e_u32 (bp_class p) ++ e_string (bp_name p) ++
                           match bp_body p with
                           | BValues c => bs_col_type c :: bs_enc_col rd use_ids c
                           | BTruncated => []
                           | BUnknown ty raw => ty :: raw
                           end)
  (* doc (PRNT): | Version u8 Always 0 | Instance Count u32 | Child Referents Array(Referent) | Parent Referents Array(Referent) | *)
  | IPrnt rows => (NAME_PRNT, 0 :: e_len rows ++ enc_ref_array (List.map fst rows) ++ enc_ref_array (List.map snd rows))
  | IEnd => (NAME_END, END_MAGIC)
  | IUnknown name data => (name, data)
  end.

Fixpoint seen_count (seen : list (N * nat)) (id : N) : option nat :=
  match seen with [] => None | (i, n) :: r => if N.eqb i id then Some n else seen_count r id end.

Definition p_meta : parser bs_item :=
  n <~ p_count ;; l <~ prepeat n (k <~ p_string ;; v <~ p_string ;; pret (k, v)) ;; p_end (IMeta l).
Definition p_sstr : parser bs_item :=
  ver <~ read_le 4 ;;
  if negb (N.eqb ver 0) then pfail BS_CHUNK_VERSION else
  n <~ p_count ;; l <~ prepeat n (h <~ read_exact 16 ;; s <~ p_string ;; pret (h, s)) ;; p_end (ISstr l).
Definition p_inst : parser bs_item :=
  id <~ read_le 4 ;; name <~ p_string ;; fmt <~ read_u8 ;;
  if negb (N.eqb fmt 0 || N.eqb fmt 1) then pfail BS_OBJECT_FORMAT else
  n <~ p_count4 ;; refs <~ dec_ref_array n ;;
  (* doc: "If the Object Format is regular, the service markers section will not be present." *)
  marks <~ (if N.eqb fmt 1 then read_exact n else pret []) ;;
  p_end (IInst (mkClass id name (N.eqb fmt 1) refs marks)).
(* doc (PROP): "Class ID defines the class that this property applies to as defined in a preceding INST chunk."  "Values contains
   an array of values whose type is determined by Type ID and whose length is equal to the number of instances belonging to
   Class ID." *)
Definition p_prop (rd : bs_reading) (seen : list (N * nat)) : parser bs_item :=
  id <~ read_le 4 ;; name <~ p_string ;;
  fun rest =>
    match seen_count seen id with
    | None => Err BS_PROP_CLASS
    | Some n =>
      match rest with
      | [] => Ok (IProp (mkProp id name BTruncated), [])
      | ty :: vals =>
        if bs_known_type ty then
          (c <~ bs_dec_col rd ty n ;;
           (* "whose length is equal to the number of instances belonging to Class ID": every column decoder reads exactly n
              values; the check makes the clause hold by construction (BinSpecFacts.decode_chunks_prop_lengths) *)
           if Nat.eqb (bs_col_len c) n then p_end (IProp (mkProp id name (BValues c))) else pfail BS_DOM_COLUMN) vals
        else Ok (IProp (mkProp id name (BUnknown ty vals)), [])
      end
    end.
Definition p_prnt : parser bs_item :=
  ver <~ read_u8 ;;
  if negb (N.eqb ver 0) then pfail BS_CHUNK_VERSION else
  n <~ p_count4 ;; cs <~ dec_ref_array n ;; ps <~ dec_ref_array n ;; p_end (IPrnt (combine cs ps)).
Definition p_endchunk : parser bs_item := fun b => if bytes_eqb b END_MAGIC then Ok (IEnd, []) else Err BS_END_MAGIC.

(* doc (Chunks): "Chunks used by Roblox are documented below"; doc (Bytecode) mentions a further chunk `SIGN` that "is disregarded":
   a chunk with any other name is carried along and means nothing *)
Definition bs_parse_item (rd : bs_reading) (seen : list (N * nat)) (name data : bytes) : res bs_item :=
  let run := fun (p : parser bs_item) =>
    match p data with Ok (it, _) => Ok it | Panic => Panic | Err c => Err c | OutOfFuel => OutOfFuel end in
  if bytes_eqb name NAME_META then run p_meta
  else if bytes_eqb name NAME_SSTR then run p_sstr
  else if bytes_eqb name NAME_INST then run p_inst
  else if bytes_eqb name NAME_PROP then run (p_prop rd seen)
  else if bytes_eqb name NAME_PRNT then run p_prnt
  else if bytes_eqb name NAME_END then run p_endchunk
  else Ok (IUnknown name data).

Definition seen_add (seen : list (N * nat)) (it : bs_item) : list (N * nat) :=
  match it with IInst c => (cls_id c, length (cls_refs c)) :: seen | _ => seen end.

Fixpoint bs_parse_items (rd : bs_reading) (seen : list (N * nat)) (chunks : list (bytes * bytes)) : res (list bs_item) :=
  match chunks with
  | [] => Ok []
  | (name, data) :: r =>
    it <- bs_parse_item rd seen name data ;;
    rest <- bs_parse_items rd (seen_add seen it) r ;;
    Ok (it :: rest)
  end.

(* ================================================================ the logical file *)
(* doc (File Structure): "1. File Header 2. Chunks: Zero or one META chunks; Zero or one SSTR chunks; Zero or more INST chunk;
   Zero or more PROP chunks; One PRNT chunk; One END chunk" *)
Record bs_file := mkFile {
  bf_meta : option (list (bytes * bytes));
  bf_sstr : option (list (bytes * bytes));
  bf_classes : list bs_class;                 (* in the order of their INST chunks *)
  bf_props : list bs_prop;                    (* in the order of their PROP chunks *)
  bf_prnt : list (Z * Z);
  bf_unknown : list (bytes * bytes)           (* chunks with other names, in file order *)
}.

Definition bs_metas (items : list bs_item) := flat_map (fun it => match it with IMeta l => [l] | _ => [] end) items.
Definition bs_sstrs (items : list bs_item) := flat_map (fun it => match it with ISstr l => [l] | _ => [] end) items.
Definition bs_insts (items : list bs_item) := flat_map (fun it => match it with IInst c => [c] | _ => [] end) items.
Definition bs_props (items : list bs_item) := flat_map (fun it => match it with IProp p => [p] | _ => [] end) items.
Definition bs_prnts (items : list bs_item) := flat_map (fun it => match it with IPrnt r => [r] | _ => [] end) items.
Definition bs_unknowns (items : list bs_item) := flat_map (fun it => match it with IUnknown n d => [(n, d)] | _ => [] end) items.
Definition is_end (it : bs_item) : bool := match it with IEnd => true | _ => false end.

Fixpoint nodup_N (l : list N) : bool := match l with [] => true | x :: r => negb (mem x r) && nodup_N r end.
Definition inst_total (cs : list bs_class) : nat := fold_right (fun c a => (length (cls_refs c) + a)%nat) O cs.

(* ---- structural clauses (C03), as boolean functions of the header counts and the decoded chunk list *)
(* doc (File Header): "Class Count: Number of distinct classes in the file (i.e. the number of INST chunks)", "Instance Count:
   Number of instances in the file" *)
Definition cl_header_counts (hdr : Z * Z) (items : list bs_item) : bool :=
  Z.eqb (fst hdr) (Z.of_nat (length (bs_insts items))) && Z.eqb (snd hdr) (Z.of_nat (inst_total (bs_insts items))).
(* doc (INST): "Class ID must be unique ... among all INST chunks" / "There should be one INST chunk for each type of instance" *)
Definition cl_unique_class_ids (items : list bs_item) : bool := nodup_N (List.map cls_id (bs_insts items)).
Fixpoint nodup_bytes (l : list bytes) : bool :=
  match l with [] => true | x :: r => negb (existsb (bytes_eqb x) r) && nodup_bytes r end.
Definition cl_unique_class_names (items : list bs_item) : bool := nodup_bytes (List.map cls_name (bs_insts items)).
(* doc (PROP): Values' "length is equal to the number of instances belonging to Class ID" *)
Definition class_count (cs : list bs_class) (id : N) : option nat :=
  seen_count (List.map (fun c => (cls_id c, length (cls_refs c))) cs) id.
Definition cl_prop_lengths (items : list bs_item) : bool :=
  forallb (fun p => match bp_body p with
                    | BValues c => match class_count (bs_insts items) (bp_class p) with
                                   | Some n => Nat.eqb (bs_col_len c) n | None => false end
                    | _ => true end) (bs_props items).
(* every written instance appears exactly once (as a child) in PRNT, and children are listed before their parents:
   the parent of every row is the null referent or the child of a LATER row *)
Fixpoint count_Z (x : Z) (l : list Z) : nat :=
  match l with [] => O | y :: r => ((if Z.eqb x y then 1 else 0) + count_Z x r)%nat end.
Definition memZ (x : Z) (l : list Z) : bool := existsb (Z.eqb x) l.
Fixpoint children_first (rows : list (Z * Z)) : bool :=
  match rows with
  | [] => true
  | (c, p) :: r => (Z.eqb p (-1) || memZ p (List.map fst r)) && children_first r
  end.
Definition all_refs (cs : list bs_class) : list Z := flat_map cls_refs cs.
Definition cl_prnt_once (items : list bs_item) : bool :=
  match bs_prnts items with
  | [rows] =>
    let kids := List.map fst rows in
    forallb (fun r => Nat.eqb (count_Z r kids) 1) (all_refs (bs_insts items))
    && Nat.eqb (length rows) (length (all_refs (bs_insts items)))
  | _ => false
  end.
Definition cl_prnt_children_first (items : list bs_item) : bool :=
  match bs_prnts items with [rows] => children_first rows | _ => false end.
(* each distinct SharedString is stored once *)
Definition cl_sstr_distinct (items : list bs_item) : bool :=
  forallb (fun l => nodup_bytes (List.map snd l)) (bs_sstrs items).
(* the last chunk, and only the last, is END *)
Fixpoint end_last (items : list bs_item) : bool :=
  match items with
  | [] => false
  | [it] => is_end it
  | it :: r => negb (is_end it) && end_last r
  end.

(* ---- assembling the logical file *)
Definition opt_single {A} (code : N) (l : list A) : res (option A) :=
  match l with [] => Ok None | [a] => Ok (Some a) | _ => Err code end.

Definition bs_assemble (hdr : Z * Z) (items : list bs_item) : res bs_file :=
  if negb (end_last items) then Err (if existsb is_end items then BS_DUP_CHUNK else BS_NO_END) else
  m <- opt_single BS_DUP_CHUNK (bs_metas items) ;;
  s <- opt_single BS_DUP_CHUNK (bs_sstrs items) ;;
  p <- opt_single BS_DUP_CHUNK (bs_prnts items) ;;
  match p with
  | None => Err BS_NO_PRNT
  | Some rows =>
    if negb (cl_unique_class_ids items) then Err BS_DUP_CLASS_ID else
    if negb (cl_header_counts hdr items) then Err BS_HEADER_COUNTS else
    Ok (mkFile m s (bs_insts items) (bs_props items) rows (bs_unknowns items))
  end.

(* chunk-level entry: header counts + (name, decompressed data) of every chunk, END included *)
Definition bspec_decode_chunks (rd : bs_reading) (hdr : Z * Z) (chunks : list (bytes * bytes)) : res bs_file :=
  items <- bs_parse_items rd [] chunks ;; bs_assemble hdr items.

(* ================================================================ file header and chunk framing *)
(* doc (File Header): | Magic Number 8 bytes `<roblox!` | Signature 6 bytes `89 ff 0d 0a 1a 0a` | Version u16 Always 0 |
   Class Count i32 | Instance Count i32 | Reserved 8 bytes Always 0 | *)
Definition BS_FILE_MAGIC : bytes := [60; 114; 111; 98; 108; 111; 120; 33].
Definition BS_FILE_SIGNATURE : bytes := [137; 255; 13; 10; 26; 10].
Definition e_i32le (z : Z) : bytes := le_bytes 4 (wrap_u 32 z).
Definition bs_enc_header (hdr : Z * Z) : bytes :=
  BS_FILE_MAGIC ++ BS_FILE_SIGNATURE ++ le_bytes 2 0 ++ e_i32le (fst hdr) ++ e_i32le (snd hdr) ++ le_bytes 8 0.
Definition p_header : parser (Z * Z) :=
  m <~ read_exact 8 ;; s <~ read_exact 6 ;; v <~ read_le 2 ;;
  cc <~ read_le_i 4 32 ;; ic <~ read_le_i 4 32 ;; r <~ read_le 8 ;;
  if bytes_eqb m BS_FILE_MAGIC && bytes_eqb s BS_FILE_SIGNATURE && N.eqb v 0 && N.eqb r 0 then pret (cc, ic)
  else pfail BS_HEADER.

(* doc (Chunks): | Chunk Name 4 bytes | Compressed Length u32 | Uncompressed Length u32 | Reserved 4 bytes Always 0 | Chunk Data |
   "If Compressed Length is zero, Chunk Data contains Uncompressed Length bytes of data for the chunk.  If Compressed Length is
   nonzero ... This compressed body is Compressed Length bytes long and will expand to Uncompressed Length bytes when decompressed." *)
Record bs_raw := mkRaw { rw_name : bytes; rw_clen : N; rw_ulen : N; rw_data : bytes }.
Definition read_exact_N (n : N) : parser bytes := fun b =>
  if shorter_than b n then Err BS_EOF else read_exact (N.to_nat n) b.
Definition p_raw : parser bs_raw :=
  name <~ read_exact 4 ;; cl <~ read_le 4 ;; ul <~ read_le 4 ;; rs <~ read_le 4 ;;
  if negb (N.eqb rs 0) then pfail BS_CHUNK_HEADER else
  data <~ read_exact_N (if N.eqb cl 0 then ul else cl) ;;
  pret (mkRaw name cl ul data).

(* the chunks up to and including END; doc (END): "The ending chunk (END) signifies the end of the file."
   silent: bytes after the END chunk (refused).  Every chunk takes at least its 16 header bytes: fuel = length + 1. *)
Fixpoint bs_deframe_loop (fuel : nat) (b : bytes) : res (list bs_raw) :=
  match fuel with
  | O => OutOfFuel
  | S f =>
    match b with
    | [] => Err BS_NO_END
    | _ =>
      match p_raw b with
      | Ok (c, rest) =>
        if bytes_eqb (rw_name c) NAME_END then
          match rest with [] => Ok [c] | _ => Err BS_TRAILING end
        else (r <- bs_deframe_loop f rest ;; Ok (c :: r))
      | Panic => Panic | Err e => Err e | OutOfFuel => OutOfFuel
      end
    end
  end.
Definition bs_deframe (b : bytes) : res (list bs_raw) := bs_deframe_loop (S (length b)) b.

(* doc (Chunks): "If the first 4 bytes of the block are the literal sequence 28 b5 2f fd, the block is compressed using the ZSTD
   algorithm. Otherwise, the block is compressed using the LZ4 algorithm."  Zstandard frames are inflated by the function
   [zstd] supplied by the caller (the harness uses the `zstd` crate: declared non-independent); LZ4 blocks by Spec/Lz4.v. *)
Definition ZSTD_MAGIC : bytes := [40; 181; 47; 253].
Definition bs_inflate (zstd : bytes -> option bytes) (c : bs_raw) : res bytes :=
  if N.eqb (rw_clen c) 0 then Ok (rw_data c)
  else if bytes_eqb (firstn 4 (rw_data c)) ZSTD_MAGIC then
    match zstd (rw_data c) with
    | Some r => if N.eqb (N.of_nat (length r)) (rw_ulen c) then Ok r else Err BS_INFLATED_LEN
    | None => Err BS_NO_INFLATER
    end
  else lz4_inflate (rw_data c) (rw_ulen c).

Fixpoint bs_inflate_all (zstd : bytes -> option bytes) (cs : list bs_raw) : res (list (bytes * bytes)) :=
  match cs with
  | [] => Ok []
  | c :: r => d <- bs_inflate zstd c ;; rest <- bs_inflate_all zstd r ;; Ok ((rw_name c, d) :: rest)
  end.

(* chunk length fields match the (de)compressed payloads *)
Definition cl_chunk_lengths (zstd : bytes -> option bytes) (raws : list bs_raw) : bool :=
  forallb (fun c =>
    if N.eqb (rw_clen c) 0 then N.eqb (N.of_nat (length (rw_data c))) (rw_ulen c)
    else N.eqb (N.of_nat (length (rw_data c))) (rw_clen c) &&
         match bs_inflate zstd c with Ok d => N.eqb (N.of_nat (length d)) (rw_ulen c) | _ => false end) raws.
(* doc (END): "The END chunk must not be compressed."  the file ends with the uncompressed END chunk holding `</roblox>` *)
Definition cl_ends_with_end (raws : list bs_raw) : bool :=
  match rev raws with
  | c :: _ => bytes_eqb (rw_name c) NAME_END && N.eqb (rw_clen c) 0 && bytes_eqb (rw_data c) END_MAGIC
  | [] => false
  end.

Definition bspec_decode_gen (rd : bs_reading) (zstd : bytes -> option bytes) (b : bytes) : res bs_file :=
  match p_header b with
  | Ok (hdr, rest) =>
    raws <- bs_deframe rest ;;
    if negb (forallb (fun c => negb (bytes_eqb (rw_name c) NAME_END) || N.eqb (rw_clen c) 0) raws) then Err BS_END_COMPRESSED else
    chunks <- bs_inflate_all zstd raws ;;
    bspec_decode_chunks rd hdr chunks
  | Panic => Panic | Err e => Err e | OutOfFuel => OutOfFuel
  end.
(* the file decoder for uncompressed and LZ4 chunk framing (no Zstandard inflater) *)
Definition bspec_decode (rd : bs_reading) (b : bytes) : res bs_file := bspec_decode_gen rd (fun _ => None) b.

(* ================================================================ the DOM a logical file describes *)
Record bs_node := mkNode { bn_label : N; bn_parent : N; bn_class : bytes; bn_name : bytes; bn_props : list (bytes * value) }.

Fixpoint index_Z (x : Z) (l : list Z) (k : N) : option N :=
  match l with [] => None | y :: r => if Z.eqb x y then Some k else index_Z x r (k + 1) end.

(* values of a column as DOM values.  [label_of r] = label of the instance with referent r (0 if there is none: doc (Referent):
   "a value of -1 represents the so-called 'null referent' ... a property with no set value"; silent: referents that name no
   instance of the file, treated alike).  Dropped here: Faces/Axes bits without meaning (doc: "The remaining two bits have no
   meaning" / "The remaining five bits have no meaning"), the unused ColorSequence envelope, the CFrame of a valueless
   OptionalCoordinateFrame, external Content referents.  Font: an empty CachedFaceId is the absent one (doc: "allowed to be an
   empty string ... When represented in XML, this property will be omitted if it is an empty string").
   Bytecode has no DOM type of its own: BinaryString. *)
Definition bs_col_values (sstr : list (bytes * bytes)) (label_of : Z -> N) (c : bs_column) : res (list value) :=
  match c with
  | KString l => Ok (List.map VString l)
  | KBytecode l => Ok (List.map VBinaryString l)
  | KBool l => Ok (List.map VBool l)
  | KInt32 l => Ok (List.map VInt32 l)
  | KFloat32 l => Ok (List.map VFloat32 l)
  | KFloat64 l => Ok (List.map VFloat64 l)
  | KUDim l => Ok (List.map VUDim l)
  | KUDim2 l => Ok (List.map (fun t => VUDim2 (fst t) (snd t)) l)
  | KRay l => Ok (List.map (fun t => VRay (fst t) (snd t)) l)
  | KFaces l => Ok (List.map (fun n => VFaces (n mod 64)) l)
  | KAxes l => Ok (List.map (fun n => VAxes (n mod 8)) l)
  | KBrickColor l => Ok (List.map VBrickColor l)
  | KColor3 l => Ok (List.map (fun v => VColor3 (vx v) (vy v) (vz v)) l)
  | KVector2 l => Ok (List.map VVector2 l)
  | KVector3 l => Ok (List.map VVector3 l)
  | KCFrame l => Ok (List.map VCFrame l)
  | KEnum l => Ok (List.map VEnum l)
  | KReferent l => Ok (List.map (fun r => VRef (label_of r)) l)
  | KVector3int16 l => Ok (List.map (fun t => VVector3int16 (fst (fst t)) (snd (fst t)) (snd t)) l)
  | KNumberSequence l => Ok (List.map VNumberSequence l)
  | KColorSequence l =>
    Ok (List.map (fun k => VColorSequence (List.map (fun t => (fst (fst t), (vx (snd (fst t)), vy (snd (fst t)), vz (snd (fst t))))) k)) l)
  | KNumberRange l => Ok (List.map (fun t => VNumberRange (fst t) (snd t)) l)
  | KRect l => Ok (List.map (fun t => VRect (fst t) (snd t)) l)
  | KPhysicalProperties l => Ok (List.map VPhysicalProperties l)
  | KColor3uint8 l => Ok (List.map (fun t => VColor3uint8 (fst (fst t)) (snd (fst t)) (snd t)) l)
  | KInt64 l => Ok (List.map VInt64 l)
  | KSharedString l =>
    (fix go (l : list N) : res (list value) :=
       match l with
       | [] => Ok []
       | i :: r => match (if N.ltb i (N.of_nat (length sstr)) then nth_error sstr (N.to_nat i) else None) with
                   | Some e => (rest <- go r ;; Ok (VSharedString (snd e) :: rest))
                   | None => Err BS_DOM_SSTR_INDEX
                   end
       end) l
  | KOptionalCFrame l => Ok (List.map (fun t : cframe * bool => VOptionalCFrame (if snd t then Some (fst t) else None)) l)
  | KUniqueId l => Ok (List.map (fun t => VUniqueId (fst (fst t)) (snd (fst t)) (snd t)) l)
  | KFont l =>
    Ok (List.map (fun t => let '(fam, w, s, c) := t in
                           VFont (mkFont fam w s (match c with [] => None | _ => Some c end))) l)
  | KContent l _ =>
    Ok (List.map (fun c => VContent (match c with
                                     | BCNone => CNone | BCUri s => CUri s
                                     | BCObject r => CObject (label_of r) end)) l)
  end.

Definition NAME_PROP_NAME : bytes := [78; 97; 109; 101].      (* "Name" *)

(* the (property name, values) of every PROP of class [id] that carries values *)
Fixpoint class_cols (sstr : list (bytes * bytes)) (label_of : Z -> N) (id : N) (ps : list bs_prop)
  : res (list (bytes * list value)) :=
  match ps with
  | [] => Ok []
  | p :: r =>
    rest <- class_cols sstr label_of id r ;;
    if N.eqb (bp_class p) id then
      match bp_body p with
      | BValues c => (vs <- bs_col_values sstr label_of c ;; Ok ((bp_name p, vs) :: rest))
      | _ => Ok rest          (* truncated after the name / unknown type id: no value, nothing else affected *)
      end
    else Ok rest
  end.

Fixpoint row_props (k : nat) (cols : list (bytes * list value)) : res (list (bytes * value)) :=
  match cols with
  | [] => Ok []
  | (name, vs) :: r =>
    match nth_error vs k with
    | Some v => (rest <- row_props k r ;; Ok ((name, v) :: rest))
    | None => Err BS_DOM_COLUMN
    end
  end.

(* silent: which property is an instance's name.  The String property called `Name` is taken (and removed from the
   property list, the forest format has a name field); an instance without one is named after its class. *)
Fixpoint take_name (ps : list (bytes * value)) : option bytes * list (bytes * value) :=
  match ps with
  | [] => (None, [])
  | (k, v) :: r =>
    let '(nm, rest) := take_name r in
    if bytes_eqb k NAME_PROP_NAME then
      match v with VString s => (Some s, rest) | _ => (nm, (k, v) :: rest) end
    else (nm, (k, v) :: rest)
  end.

(* (referent, class name, properties) of every instance *)
Fixpoint class_instances (cname : bytes) (refs : list Z) (k : nat) (cols : list (bytes * list value))
  : res (list (Z * (bytes * list (bytes * value)))) :=
  match refs with
  | [] => Ok []
  | r :: rs =>
    ps <- row_props k cols ;;
    rest <- class_instances cname rs (S k) cols ;;
    Ok ((r, (cname, ps)) :: rest)
  end.
Fixpoint all_instances (sstr : list (bytes * bytes)) (label_of : Z -> N) (ps : list bs_prop) (cs : list bs_class)
  : res (list (Z * (bytes * list (bytes * value)))) :=
  match cs with
  | [] => Ok []
  | c :: r =>
    cols <- class_cols sstr label_of (cls_id c) ps ;;
    here <- class_instances (cls_name c) (cls_refs c) O cols ;;
    rest <- all_instances sstr label_of ps r ;;
    Ok (here ++ rest)
  end.
Fixpoint find_Z {A} (x : Z) (l : list (Z * A)) : option A :=
  match l with [] => None | (y, a) :: r => if Z.eqb x y then Some a else find_Z x r end.

(* doc (PRNT): "The parent of the ID at position N in Child Referents is a child of the ID at position N in Parent Referents.
   A null parent referent (-1) indicates that the object is a root instance."  The instance of PRNT row k gets label k+1 and the
   nodes are listed in row order, so siblings are ordered as their rows (silent in the document: sibling order).
   doc: "Instance Count should be equal to the number of instances in the file header chunk, since each object should have a
   parent": an instance without a row, a row without an instance, a child listed twice or a parent that is not listed are refused. *)
Definition bspec_to_dom (f : bs_file) : res (list bs_node) :=
  let kids := List.map fst (bf_prnt f) in
  let label_of := fun r => match index_Z r kids 1 with Some k => k | None => 0 end in
  let sstr := match bf_sstr f with Some l => l | None => [] end in
  allinst <- all_instances sstr label_of (bf_props f) (bf_classes f) ;;
  if negb (Nat.eqb (length allinst) (length kids)) then Err BS_DOM_PRNT else
  (fix go (rows : list (Z * Z)) (k : N) : res (list bs_node) :=
     match rows with
     | [] => Ok []
     | (c, p) :: r =>
       if negb (Nat.eqb (count_Z c kids) 1) then Err BS_DOM_PRNT else
       match find_Z c allinst with
       | None => Err BS_DOM_PRNT
       | Some (cname, ps) =>
         let '(nm, ps') := take_name ps in
         let parent := if Z.eqb p (-1) then Some 0 else index_Z p kids 1 in
         match parent with
         | None => Err BS_DOM_PRNT
         | Some pl =>
           rest <- go r (k + 1) ;;
           Ok (mkNode k pl cname (match nm with Some s => s | None => cname end) ps' :: rest)
         end
       end
     end) (bf_prnt f) 1.

(* ================================================================ encoder: every freedom the document leaves *)
(* Freedoms that are part of the logical file itself (they change what [bspec_decode] returns, not what the file means):
   class ids and referents (any u32 / i32, injective), PRNT row order, presence of META / SSTR / chunks with unknown names,
   service object format, the type a property is stored with (e.g. Int32 for a property the database declares Int64),
   PROP chunks that end after the name or carry an undefined type id, meaningless bits.
   Freedoms of the byte encoding, [bs_choices]:
     ch_order    chunk order (doc gives the order of "File Structure" but only requires: a PROP's class "defined in a preceding
                 INST chunk", one PRNT, END last)
     ch_comp     which chunks are stored compressed; this encoder emits LZ4 literal-only blocks (Lz4.literal_only_block), the
                 harness additionally re-frames the same chunks with the real LZ4 / Zstandard compressors
     ch_rot_ids  whether axis-aligned rotations use the special CFrame ids *)
Inductive bs_okey := OMeta | OSstr | OInst (k : nat) | OProp (k : nat) | OPrnt | OUnknown (k : nat).
Record bs_choices := mkChoices { ch_order : list bs_okey; ch_comp : list bool; ch_rot_ids : bool }.

Definition item_of_key (f : bs_file) (k : bs_okey) : list bs_item :=
  match k with
  | OMeta => match bf_meta f with Some l => [IMeta l] | None => [] end
  | OSstr => match bf_sstr f with Some l => [ISstr l] | None => [] end
  | OInst k => match nth_error (bf_classes f) k with Some c => [IInst c] | None => [] end
  | OProp k => match nth_error (bf_props f) k with Some p => [IProp p] | None => [] end
  | OPrnt => [IPrnt (bf_prnt f)]
  | OUnknown k => match nth_error (bf_unknown f) k with Some (n, d) => [IUnknown n d] | None => [] end
  end.
Definition bs_items_of (order : list bs_okey) (f : bs_file) : list bs_item := flat_map (item_of_key f) order ++ [IEnd].
(* the order of the document's "File Structure" list (unknown chunks before END) *)
Definition bs_canonical_order (f : bs_file) : list bs_okey :=
  [OMeta; OSstr] ++ List.map OInst (seq 0 (length (bf_classes f))) ++ List.map OProp (seq 0 (length (bf_props f)))
  ++ [OPrnt] ++ List.map OUnknown (seq 0 (length (bf_unknown f))).

Definition bs_frame (compress : bool) (c : bytes * bytes) : bytes :=
  let '(name, data) := c in
  if compress then
    let z := literal_only_block data in
    name ++ e_len z ++ e_len data ++ le_bytes 4 0 ++ z
  else name ++ le_bytes 4 0 ++ e_len data ++ le_bytes 4 0 ++ data.

Fixpoint bs_frame_all (comp : list bool) (cs : list (bytes * bytes)) : bytes :=
  match cs with
  | [] => []
  | c :: r =>
    let here := match comp with b :: _ => b | [] => false end in
    (* doc (END): "The END chunk must not be compressed." *)
    let here := if bytes_eqb (fst c) NAME_END then false else here in
    bs_frame here c ++ bs_frame_all (tl comp) r
  end.

Definition bs_header_of (f : bs_file) : Z * Z :=
  (Z.of_nat (length (bf_classes f)), Z.of_nat (inst_total (bf_classes f))).
Definition bspec_encode_chunks (rd : bs_reading) (c : bs_choices) (f : bs_file) : list (bytes * bytes) :=
  List.map (bs_enc_item rd (ch_rot_ids c)) (bs_items_of (ch_order c) f).
Definition bspec_encode (rd : bs_reading) (c : bs_choices) (f : bs_file) : bytes :=
  bs_enc_header (bs_header_of f) ++ bs_frame_all (ch_comp c) (bspec_encode_chunks rd c f).

(* ================================================================ well-formedness of a logical file (sizes and ranges) *)
Definition u32_ok (n : N) : bool := N.ltb n 4294967296.
Definition len_ok {A} (l : list A) : bool := u32_ok (N.of_nat (length l)).
Definition str_ok (s : bytes) : bool := bytes_ok s && len_ok s.
Definition v3_ok := vec3_ok.
Definition v2_ok := vec2_ok.
Definition udim_ok (u : udim) : bool := f32_ok (ud_scale u) && in_i32 (ud_offset u).
Definition cf_ok := cframe_ok.
Definition phys_ok (p : option physprops) : bool :=
  match p with None => true
  | Some q => f32_ok (ph_density q) && f32_ok (ph_friction q) && f32_ok (ph_elasticity q)
              && f32_ok (ph_friction_weight q) && f32_ok (ph_elasticity_weight q) end.
Definition byte_ok (n : N) : bool := N.ltb n 256.
Definition content_ok (c : bs_content) : bool :=
  match c with BCNone => true | BCUri s => str_ok s | BCObject r => in_i32 r end.

Definition bs_col_ok (c : bs_column) : bool :=
  match c with
  | KString l | KBytecode l => forallb str_ok l
  | KBool _ => true
  | KInt32 l | KReferent l => forallb in_i32 l
  | KFloat32 l => forallb f32_ok l
  | KFloat64 l => forallb f64_ok l
  | KUDim l => forallb udim_ok l
  | KUDim2 l => forallb (fun t => udim_ok (fst t) && udim_ok (snd t)) l
  | KRay l => forallb (fun t => v3_ok (fst t) && v3_ok (snd t)) l
  | KFaces l | KAxes l => forallb byte_ok l
  | KBrickColor l | KEnum l | KSharedString l => forallb u32_ok l
  | KColor3 l | KVector3 l => forallb v3_ok l
  | KVector2 l => forallb v2_ok l
  | KCFrame l => forallb cf_ok l
  | KVector3int16 l => forallb (fun t => in_i16 (fst (fst t)) && in_i16 (snd (fst t)) && in_i16 (snd t)) l
  | KNumberSequence l =>
    forallb (fun k => len_ok k && forallb (fun t => f32_ok (fst (fst t)) && f32_ok (snd (fst t)) && f32_ok (snd t)) k) l
  | KColorSequence l =>
    forallb (fun k => len_ok k && forallb (fun t => f32_ok (fst (fst t)) && v3_ok (snd (fst t)) && f32_ok (snd t)) k) l
  | KNumberRange l => forallb (fun t => f32_ok (fst t) && f32_ok (snd t)) l
  | KRect l => forallb (fun t => v2_ok (fst t) && v2_ok (snd t)) l
  | KPhysicalProperties l => forallb phys_ok l
  | KColor3uint8 l => forallb (fun t => byte_ok (fst (fst t)) && byte_ok (snd (fst t)) && byte_ok (snd t)) l
  | KInt64 l => forallb in_i64 l
  | KOptionalCFrame l => forallb (fun t => cf_ok (fst t)) l
  | KUniqueId l => forallb (fun t => u32_ok (fst (fst t)) && u32_ok (snd (fst t)) && in_i64 (snd t)) l
  | KFont l => forallb (fun t => let '(fam, w, s, c) := t in str_ok fam && N.ltb w 65536 && byte_ok s && str_ok c) l
  | KContent l ext => forallb content_ok l && forallb in_i32 ext && len_ok l && len_ok ext
  end.

Definition known_name (n : bytes) : bool :=
  bytes_eqb n NAME_META || bytes_eqb n NAME_SSTR || bytes_eqb n NAME_INST || bytes_eqb n NAME_PROP
  || bytes_eqb n NAME_PRNT || bytes_eqb n NAME_END.

Definition class_ok (c : bs_class) : bool :=
  u32_ok (cls_id c) && str_ok (cls_name c) && forallb in_i32 (cls_refs c) && len_ok (cls_refs c)
  && (if cls_service c then Nat.eqb (length (cls_markers c)) (length (cls_refs c)) && bytes_ok (cls_markers c)
      else match cls_markers c with [] => true | _ => false end).
Definition prop_ok (cs : list bs_class) (p : bs_prop) : bool :=
  u32_ok (bp_class p) && str_ok (bp_name p) &&
  match class_count cs (bp_class p) with
  | None => false
  | Some n =>
    match bp_body p with
    | BValues c => bs_col_ok c && Nat.eqb (bs_col_len c) n
    | BTruncated => true
    | BUnknown ty raw => byte_ok ty && negb (bs_known_type ty) && bytes_ok raw
    end
  end.
Definition kv_ok (t : bytes * bytes) : bool := str_ok (fst t) && str_ok (snd t).
Definition sstr_entry_ok (t : bytes * bytes) : bool := bytes_ok (fst t) && Nat.eqb (length (fst t)) 16 && str_ok (snd t).

(* what [bspec_encode] needs in order to be read back as the same logical file *)
Definition bs_wf (f : bs_file) : bool :=
  match bf_meta f with Some l => len_ok l && forallb kv_ok l | None => true end
  && match bf_sstr f with Some l => len_ok l && forallb sstr_entry_ok l | None => true end
  && forallb class_ok (bf_classes f)
  && nodup_N (List.map cls_id (bf_classes f))
  && forallb (prop_ok (bf_classes f)) (bf_props f)
  && forallb (fun t => in_i32 (fst t) && in_i32 (snd t)) (bf_prnt f) && len_ok (bf_prnt f)
  && forallb (fun t => Nat.eqb (length (fst t)) 4 && bytes_ok (fst t) && negb (known_name (fst t))
                       && bytes_ok (snd t) && len_ok (snd t)) (bf_unknown f)
  && Z.ltb (Z.of_nat (length (bf_classes f))) 2147483648
  && Z.ltb (Z.of_nat (inst_total (bf_classes f))) 2147483648.

(* what the document additionally asks of a file ("should"): the service markers are all 1, the hierarchy lists every instance
   exactly once, referents are distinct *)
Definition bs_doc_wf (f : bs_file) : bool :=
  forallb (fun c => forallb (N.eqb 1) (cls_markers c)) (bf_classes f)
  && forallb (fun r => Nat.eqb (count_Z r (all_refs (bf_classes f))) 1) (all_refs (bf_classes f))
  && forallb (fun r => Nat.eqb (count_Z r (List.map fst (bf_prnt f))) 1) (all_refs (bf_classes f))
  && Nat.eqb (length (bf_prnt f)) (length (all_refs (bf_classes f)))
  && forallb (fun t => Z.eqb (snd t) (-1) || memZ (snd t) (List.map fst (bf_prnt f))) (bf_prnt f).
