(* AttrSpec.v — an independent attribute blob codec written from /repo/docs/attributes.md ONLY.
   It shares with the model nothing but the byte/integer layer (Base, Bytes) and the value type
   (Value); it does not import Attr.v, Rotation.v or any table taken from the Rust sources.  The text
   of the document is quoted beside each definition ("doc:").  Where the document is silent the choice
   made here is marked "silent:"; those choices are the places where an independent implementation
   written from the document may legitimately differ from rbx_types.  Definitions only.

   doc (Document Conventions): "All numeric types are little endian and signed integers are stored
   using two's complement. All floats are stored according to the IEEE-754 standard."  "Unless
   otherwise noted, all structs in this document are assumed to be stored with their components in the
   sequence listed without any modification." *)
From RbxVerif Require Import Base Bytes Value.
Open Scope N_scope.

(* ---------------------------------------------------------------- primitive writers *)
Definition sp_u8 (n : N) : bytes := le_bytes 1 n.
Definition sp_u16 (n : N) : bytes := le_bytes 2 n.
Definition sp_u32 (n : N) : bytes := le_bytes 4 n.
Definition sp_i32 (z : Z) : bytes := le_bytes 4 (wrap_u 32 z).      (* two's complement *)
Definition sp_f32 (x : f32) : bytes := le_bytes 4 x.                (* IEEE-754 single, as its bit pattern *)
Definition sp_f64 (x : f64) : bytes := le_bytes 8 x.

(* ---------------------------------------------------------------- primitive readers *)
Definition sparser (A : Type) := bytes -> option (A * bytes).
Definition sret {A} (a : A) : sparser A := fun b => Some (a, b).
Definition sbind {A B} (p : sparser A) (f : A -> sparser B) : sparser B :=
  fun b => match p b with Some (a, b') => f a b' | None => None end.
Notation "x <~ p ;; k" := (sbind p (fun x => k)) (at level 61, p at next level, right associativity).
Definition sfail {A} : sparser A := fun _ => None.

(* the next n bytes (n is a 32-bit number taken from the blob: counted in N) *)
Fixpoint sp_take (b : bytes) (n : N) : option (bytes * bytes) :=
  if N.eqb n 0 then Some ([], b) else
  match b with
  | [] => None
  | x :: r => match sp_take r (N.pred n) with Some (h, t) => Some (x :: h, t) | None => None end
  end.
Definition sp_bytes (n : N) : sparser bytes := fun b => sp_take b n.
Definition sp_rd_le (n : N) : sparser N := h <~ sp_bytes n ;; sret (of_le h).
Definition sp_rd_u8 := sp_rd_le 1.
Definition sp_rd_u16 := sp_rd_le 2.
Definition sp_rd_u32 := sp_rd_le 4.
Definition sp_rd_i32 : sparser Z := v <~ sp_rd_le 4 ;; sret (wrap_s 32 v).
Definition sp_rd_f32 : sparser f32 := sp_rd_le 4.
Definition sp_rd_f64 : sparser f64 := sp_rd_le 8.

(* n repetitions of p; the fuel is the length of the input (every element below is at least one byte) *)
Fixpoint sp_repeat {A} (fuel : nat) (n : N) (p : sparser A) : sparser (list A) :=
  fun b =>
    if N.eqb n 0 then Some ([], b) else
    match fuel with
    | O => None
    | S f => match p b with
             | Some (a, b') => match sp_repeat f (N.pred n) p b' with Some (r, b'') => Some (a :: r, b'') | None => None end
             | None => None
             end
    end.
Definition sp_array {A} (n : N) (p : sparser A) : sparser (list A) := fun b => sp_repeat (S (length b)) n p b.

(* ================================================================ Data Types *)

(* doc (String, Type ID 0x02): "The String type is stored as a length-prefixed sequence of bytes. The
   length is stored as a u32. Strings can contain binary data, and should be considered to be an array
   of u8s."   | Length | u32 | ;  | Data | Array(Bytes) | *)
Definition sp_string (s : bytes) : bytes := sp_u32 (N.of_nat (length s)) ++ s.
Definition sp_rd_string : sparser bytes := len <~ sp_rd_u32 ;; sp_bytes len.

(* doc (UDim, 0x09): "stored as a struct composed of a f32 and an i32": Scale f32, Offset i32.
   Example: "the UDim {123, 456} would look like this: 00 00 f6 42 c8 01 00 00" *)
Definition sp_udim (u : udim) : bytes := sp_f32 (ud_scale u) ++ sp_i32 (ud_offset u).
Definition sp_rd_udim : sparser udim := s <~ sp_rd_f32 ;; o <~ sp_rd_i32 ;; sret (mkUDim s o).

(* doc (Color3, 0x0F): "stored as a set of three f32s": R, G, B *)
Definition sp_color3 (r g b : f32) : bytes := sp_f32 r ++ sp_f32 g ++ sp_f32 b.
Definition sp_rd_color3 : sparser (f32 * f32 * f32) :=
  r <~ sp_rd_f32 ;; g <~ sp_rd_f32 ;; b <~ sp_rd_f32 ;; sret (r, g, b).

(* doc (Vector2, 0x10): "a struct composed of two f32s": X, Y *)
Definition sp_vector2 (v : vec2) : bytes := sp_f32 (v2x v) ++ sp_f32 (v2y v).
Definition sp_rd_vector2 : sparser vec2 := x <~ sp_rd_f32 ;; y <~ sp_rd_f32 ;; sret (mkV2 x y).

(* doc (Vector3, 0x11): "a struct composed of three f32s": X, Y, Z *)
Definition sp_vector3 (v : vec3) : bytes := sp_f32 (vx v) ++ sp_f32 (vy v) ++ sp_f32 (vz v).
Definition sp_rd_vector3 : sparser vec3 := x <~ sp_rd_f32 ;; y <~ sp_rd_f32 ;; z <~ sp_rd_f32 ;; sret (mkV3 x y z).

(* ---------------------------------------------------------------- CFrame rotation ids
   doc (CFrame): "A rotation is considered "axis-aligned" if it's in increments of 90 degrees around one
   or more axes. The following table shows the mapping between Rotation IDs and rotations (rotations are
   Euler angles in degrees, applied in the order Y -> X -> Z)".
   The table is transcribed as (id, (x, y, z)) with the angles in quarter turns (degrees / 90). *)
Definition ra (id : N) (x y z : Z) : N * (Z * Z * Z) := (id, (x, y, z)).
Definition spec_rotation_angles : list (N * (Z * Z * Z)) :=
  [
    ra 0x02 0 0 0 ; ra 0x14 0 2 0 ;
    ra 0x03 1 0 0 ; ra 0x15 (-1) (-2) 0 ;
    ra 0x05 0 2 2 ; ra 0x17 0 0 2 ;
    ra 0x06 (-1) 0 0 ; ra 0x18 1 2 0 ;
    ra 0x07 0 2 1 ; ra 0x19 0 0 (-1) ;
    ra 0x09 0 1 1 ; ra 0x1b 0 (-1) (-1) ;
    ra 0x0a 0 0 1 ; ra 0x1c 0 (-2) (-1) ;
    ra 0x0c 0 (-1) 1 ; ra 0x1e 0 1 (-1) ;
    ra 0x0d (-1) (-1) 0 ; ra 0x1f 1 1 0 ;
    ra 0x0e 0 (-1) 0 ; ra 0x20 0 1 0 ;
    ra 0x10 1 (-1) 0 ; ra 0x22 (-1) 1 0 ;
    ra 0x11 0 1 2 ; ra 0x23 0 (-1) 2 ].

(* cosine and sine of k quarter turns *)
Definition cosq (k : Z) : Z := match (k mod 4)%Z with 0 => 1 | 2 => -1 | _ => 0 end%Z.
Definition sinq (k : Z) : Z := match (k mod 4)%Z with 1 => 1 | 3 => -1 | _ => 0 end%Z.

Definition zmat := list (list Z).     (* 3 x 3, rows *)
Definition rot_x (k : Z) : zmat := [[1; 0; 0]; [0; cosq k; - sinq k]; [0; sinq k; cosq k]]%Z.
Definition rot_y (k : Z) : zmat := [[cosq k; 0; sinq k]; [0; 1; 0]; [- sinq k; 0; cosq k]]%Z.
Definition rot_z (k : Z) : zmat := [[cosq k; - sinq k; 0]; [sinq k; cosq k; 0]; [0; 0; 1]]%Z.
Definition zdot (r c : list Z) : Z := fold_right Z.add 0%Z (List.map (fun p => (fst p * snd p)%Z) (combine r c)).
Definition zcol (m : zmat) (j : nat) : list Z := List.map (fun r => nth j r 0%Z) m.
Definition zmul (a b : zmat) : zmat := List.map (fun r => List.map (fun j => zdot r (zcol b j)) [0; 1; 2]%nat) a.

(* silent: which of the two readings of "applied in the order Y -> X -> Z" is meant; taken as Roblox's
   CFrame.fromEulerAnglesYXZ(x, y, z) = Ry(y) * Rx(x) * Rz(z) (column-vector convention). *)
Definition euler_yxz (a : Z * Z * Z) : zmat :=
  let '(x, y, z) := a in zmul (rot_y y) (zmul (rot_x x) (rot_z z)).

Definition f32_of_unit (v : Z) : f32 :=
  match v with 1%Z => F32_ONE | (-1)%Z => F32_NEG_ONE | _ => F32_ZERO end.
Definition vec3_of_row (r : list Z) : vec3 :=
  mkV3 (f32_of_unit (nth 0 r 0%Z)) (f32_of_unit (nth 1 r 0%Z)) (f32_of_unit (nth 2 r 0%Z)).
(* doc: "this field is the XVector, the YVector, and ZVector, in that order"; the worked example
   (CFrame.new(1, 2, 3) * CFrame.Angles(0, 45, 0) = ... f3 04 35 3f 00 00 00 00 f3 04 35 3f | 0 1 0 |
   f3 04 35 bf 00 00 00 00 f3 04 35 3f) shows that these three vectors are the ROWS of the matrix
   ((c,0,s),(0,1,0),(-s,0,c) for a rotation about Y). *)
Definition mat3_of_zmat (m : zmat) : mat3 :=
  mkM3 (vec3_of_row (nth 0 m [])) (vec3_of_row (nth 1 m [])) (vec3_of_row (nth 2 m [])).

Definition spec_rotation_table : list (N * mat3) :=
  List.map (fun e => (fst e, mat3_of_zmat (euler_yxz (snd e)))) spec_rotation_angles.

Definition vec3_eqb (a b : vec3) : bool := N.eqb (vx a) (vx b) && N.eqb (vy a) (vy b) && N.eqb (vz a) (vz b).
Definition mat3_eqb (a b : mat3) : bool := vec3_eqb (mx a) (mx b) && vec3_eqb (my a) (my b) && vec3_eqb (mz a) (mz b).

Fixpoint spec_rot_of_id (id : N) (t : list (N * mat3)) : option mat3 :=
  match t with [] => None | (k, m) :: r => if N.eqb id k then Some m else spec_rot_of_id id r end.
Fixpoint spec_id_of_rot (m : mat3) (t : list (N * mat3)) : option N :=
  match t with [] => None | (k, m') :: r => if mat3_eqb m m' then Some k else spec_id_of_rot m r end.

(* doc (CFrame, 0x14): | Position | Vector3 | ; | Rotation ID | u8 | "If the rotation is axis-aligned, this
   field is one of the values from the table below; otherwise, it is 00." ; | Rotation matrix |
   Optional<Matrix3> | "stored as a sequence of nine f32s. If Rotation ID is 00, this field is the XVector,
   the YVector, and ZVector, in that order; otherwise, it is absent."
   silent: how close to a table rotation a matrix must be to count as axis-aligned; here: identical. *)
Definition sp_cframe (c : cframe) : bytes :=
  sp_vector3 (cf_pos c) ++
  match spec_id_of_rot (cf_rot c) spec_rotation_table with
  | Some id => sp_u8 id
  | None => sp_u8 0 ++ sp_vector3 (mx (cf_rot c)) ++ sp_vector3 (my (cf_rot c)) ++ sp_vector3 (mz (cf_rot c))
  end.
Definition sp_rd_cframe : sparser cframe :=
  pos <~ sp_rd_vector3 ;;
  id <~ sp_rd_u8 ;;
  if N.eqb id 0 then
    x <~ sp_rd_vector3 ;; y <~ sp_rd_vector3 ;; z <~ sp_rd_vector3 ;; sret (mkCF pos (mkM3 x y z))
  else match spec_rot_of_id id spec_rotation_table with
       | Some m => sret (mkCF pos m)
       | None => sfail                     (* silent: ids outside the table *)
       end.

(* ---------------------------------------------------------------- one value: (Type, Value) *)
Definition spec_enc_value (v : value) : option (N * bytes) :=
  match v with
  (* String 0x02 (see above); both string-like variants of the value type are the document's String *)
  | VString s => Some (0x02, sp_string s)
  | VBinaryString s => Some (0x02, sp_string s)
  (* doc (Bool, 0x03): "stored as a single byte. If the byte is 0x00, the bool is false. If it is 0x01, it is true." *)
  | VBool b => Some (0x03, sp_u8 (if b then 1 else 0))
  (* doc (Int32, 0x04): "stored as a little-endian 32-bit integer" *)
  | VInt32 z => Some (0x04, sp_i32 z)
  (* doc (Float32, 0x05): "stored as a single-precision float" *)
  | VFloat32 x => Some (0x05, sp_f32 x)
  (* doc (Float64, 0x06): "stored as a double-precision float" *)
  | VFloat64 x => Some (0x06, sp_f64 x)
  | VUDim u => Some (0x09, sp_udim u)
  (* doc (UDim2, 0x0A): "stored as a struct composed of two UDims, one for each axis" (X then Y; the
     example {1, 2, 3, 4} = 00 00 80 3f 02 00 00 00 00 00 40 40 04 00 00 00) *)
  | VUDim2 x y => Some (0x0A, sp_udim x ++ sp_udim y)
  (* doc (BrickColor, 0x0E): "stored as a single u32 indicating the Number property of the BrickColor" *)
  | VBrickColor n => Some (0x0E, sp_u32 n)
  | VColor3 r g b => Some (0x0F, sp_color3 r g b)
  | VVector2 v => Some (0x10, sp_vector2 v)
  | VVector3 v => Some (0x11, sp_vector3 v)
  | VCFrame c => Some (0x14, sp_cframe c)
  (* doc (EnumItem, 0x15): | Enum Name | String | ; | Value | u32 | *)
  | VEnumItem ty n => Some (0x15, sp_string ty ++ sp_u32 n)
  (* doc (NumberSequence, 0x17): | Keypoint Count | u32 | ; | Keypoints | Array(NumberSequenceKeypoint) | ;
     a keypoint is "three f32s": Envelope, Time, Value (in that order) *)
  | VNumberSequence kps =>
      Some (0x17, sp_u32 (N.of_nat (length kps)) ++
                  flat_map (fun kp => let '(t, v, e) := kp in sp_f32 e ++ sp_f32 t ++ sp_f32 v) kps)
  (* doc (ColorSequence, 0x19): count u32, then keypoints Envelope f32, Time f32, Value Color3;
     "ColorSequenceKeypoint has a field for Envelope despite not having one; it will always be 00 00 00 00" *)
  | VColorSequence kps =>
      Some (0x19, sp_u32 (N.of_nat (length kps)) ++
                  flat_map (fun kp => let '(t, (r, g, b)) := kp in sp_f32 0 ++ sp_f32 t ++ sp_color3 r g b) kps)
  (* doc (NumberRange, 0x1B): "two f32s": Min, Max *)
  | VNumberRange lo hi => Some (0x1B, sp_f32 lo ++ sp_f32 hi)
  (* doc (Rect, 0x1C): "two Vector2s": Min, Max *)
  | VRect lo hi => Some (0x1C, sp_vector2 lo ++ sp_vector2 hi)
  (* doc (Font, 0x21): | Weight | u16 | ; | Style | u8 | ; | Family | String | ; | CachedFaceId | String | ;
     "The CachedFaceId field will always be present, but may be an empty string." *)
  | VFont f =>
      Some (0x21, sp_u16 (fo_weight f) ++ sp_u8 (fo_style f) ++ sp_string (fo_family f) ++
                  sp_string (match fo_cached f with Some s => s | None => [] end))
  | _ => None            (* not an attribute type of the document *)
  end.

Definition spec_dec_value (ty : N) : sparser value :=
  match ty with
  | 0x02 => s <~ sp_rd_string ;; sret (VBinaryString s)       (* "should be considered to be an array of u8s" *)
  (* doc (Bool): "It is worth noting that Roblox Studio will interpret any non-zero value as true." *)
  | 0x03 => x <~ sp_rd_u8 ;; sret (VBool (negb (N.eqb x 0)))
  | 0x04 => z <~ sp_rd_i32 ;; sret (VInt32 z)
  | 0x05 => x <~ sp_rd_f32 ;; sret (VFloat32 x)
  | 0x06 => x <~ sp_rd_f64 ;; sret (VFloat64 x)
  | 0x09 => u <~ sp_rd_udim ;; sret (VUDim u)
  | 0x0A => x <~ sp_rd_udim ;; y <~ sp_rd_udim ;; sret (VUDim2 x y)
  | 0x0E => n <~ sp_rd_u32 ;; sret (VBrickColor n)          (* silent: numbers that are not BrickColors *)
  | 0x0F => c <~ sp_rd_color3 ;; let '(r, g, b) := c in sret (VColor3 r g b)
  | 0x10 => v <~ sp_rd_vector2 ;; sret (VVector2 v)
  | 0x11 => v <~ sp_rd_vector3 ;; sret (VVector3 v)
  | 0x14 => c <~ sp_rd_cframe ;; sret (VCFrame c)
  | 0x15 => ty <~ sp_rd_string ;; n <~ sp_rd_u32 ;; sret (VEnumItem ty n)
  | 0x17 => k <~ sp_rd_u32 ;;
            kps <~ sp_array k (e <~ sp_rd_f32 ;; t <~ sp_rd_f32 ;; v <~ sp_rd_f32 ;; sret (t, v, e)) ;;
            sret (VNumberSequence kps)
  | 0x19 => k <~ sp_rd_u32 ;;
            kps <~ sp_array k (_e <~ sp_rd_f32 ;; t <~ sp_rd_f32 ;; c <~ sp_rd_color3 ;; sret (t, c)) ;;
            sret (VColorSequence kps)
  | 0x1B => lo <~ sp_rd_f32 ;; hi <~ sp_rd_f32 ;; sret (VNumberRange lo hi)
  | 0x1C => lo <~ sp_rd_vector2 ;; hi <~ sp_rd_vector2 ;; sret (VRect lo hi)
  | 0x21 => w <~ sp_rd_u16 ;; s <~ sp_rd_u8 ;; fam <~ sp_rd_string ;; cached <~ sp_rd_string ;;
            (* silent: how "an empty string" relates to an absent cached face; here: empty = none *)
            sret (VFont (mkFont fam w s (match cached with [] => None | _ => Some cached end)))
  | _ => sfail           (* silent: type ids the document does not list *)
  end.

(* ================================================================ File Structure
   doc: "The first 4 bytes of the blob are a u32 which indicates how many attributes there are in the blob
   (the Length). Following that, there are Length attributes in the layout:
     | Name | String | ; | Type | u8 | ; | Value | Variant | "
   silent: the order of the attributes, repeated names, bytes after the last attribute (accepted here),
   and an EMPTY blob (the document always has the 4-byte Length: zero bytes are not a blob). *)
Definition spec_enc_entry (e : bytes * value) : option bytes :=
  match spec_enc_value (snd e) with
  | Some (ty, body) => Some (sp_string (fst e) ++ sp_u8 ty ++ body)
  | None => None
  end.
Fixpoint spec_enc_entries (m : list (bytes * value)) : option bytes :=
  match m with
  | [] => Some []
  | e :: r => match spec_enc_entry e, spec_enc_entries r with Some a, Some b => Some (a ++ b) | _, _ => None end
  end.
Definition SPEC_ERR : N := 1.
Definition spec_encode (m : list (bytes * value)) : res bytes :=
  match spec_enc_entries m with
  | Some body => Ok (sp_u32 (N.of_nat (length m)) ++ body)
  | None => Err SPEC_ERR
  end.

Definition spec_dec_entry : sparser (bytes * value) :=
  name <~ sp_rd_string ;; ty <~ sp_rd_u8 ;; v <~ spec_dec_value ty ;; sret (name, v).
Definition spec_decode (b : bytes) : res (list (bytes * value)) :=
  match (len <~ sp_rd_u32 ;; sp_array len spec_dec_entry) b with
  | Some (m, _) => Ok m
  | None => Err SPEC_ERR
  end.

(* what reading back a blob written from [m] according to the document yields: the document has one
   string type and no separate "absent" cached face *)
Definition spec_norm_value (v : value) : value :=
  match v with
  | VString s => VBinaryString s
  | VFont f => match fo_cached f with
               | Some [] => VFont (mkFont (fo_family f) (fo_weight f) (fo_style f) None)
               | _ => v
               end
  | _ => v
  end.
Definition spec_norm (m : list (bytes * value)) : list (bytes * value) :=
  List.map (fun e => (fst e, spec_norm_value (snd e))) m.
