(* Lz4.v — an LZ4 *block* decoder written from the LZ4 block format description
   (lz4/doc/lz4_Block_format.md), NOT from the `lz4` crate or its C sources, so that the document-side
   decoder of the binary format (Spec/BinSpec.v) can inflate LZ4 chunks without the implementation's
   dependency.  docs/binary.md: "When it is compressed using LZ4, there is no frame and the compressed
   data begins immediately after the header."

   Block format, as used here ("fmt:" quotes the format description):
   fmt: "An LZ4 compressed block is composed of sequences.  A sequence is a suite of literals (not-compressed
        bytes), followed by a match copy operation."
   fmt: "Each sequence starts with a token.  The token is a one byte value, separated into two 4-bits fields.
        The first field uses the 4 high-bits of the token.  It provides the length of literals to follow.
        If the field value is smaller than 15, then it represents the total nb of literals present in the
        sequence, including 0.  The value 15 is a special case: more bytes are required to indicate the full
        length.  Each additional byte then represents a value from 0 to 255, which is added to the previous
        value to produce a total length.  When the byte value is 255, another byte must be read and added."
   fmt: "Following token and optional length bytes, are the literals themselves."
   fmt: "Following the literals is the match copy operation.  It starts by the offset value.  This is a 2 bytes
        value, between 0 and 65535, in little-endian format.  The offset represents the position of the match
        to be copied from the past.  1 means 'current position - 1 byte'.  The value 0 is invalid."
   fmt: "Then the matchlength can be extracted.  For this, we use the second token field, the low 4-bits.
        Similar to literal length, on reaching the highest possible value (15), one must read additional
        bytes ...  The minimum length of a match, called minmatch, is 4."
   fmt: "overlapped copy: matchlength can be larger than offset; the copy repeats the last `offset` bytes"
        (byte-by-byte copy semantics).
   fmt: "The last sequence contains only literals.  The block ends right after the literals (no offset
        field)."
   The parsing restrictions the format places on *encoders* (last 5 bytes literals, last match 12 bytes
   before the end) are not enforced by a decoder.  Definitions only; proofs in Proofs/BinSpecFacts.v. *)
From RbxVerif Require Import Base Bytes.
Open Scope N_scope.

Definition ERR_LZ4 : N := 60.           (* malformed block *)
Definition ERR_LZ4_LEN : N := 61.       (* decodes to a different length than the chunk header states *)

(* additional length bytes: add every byte; stop after the first byte that is not 255 *)
Fixpoint lz4_ext (b : bytes) (acc : N) : option (N * bytes) :=
  match b with
  | [] => None
  | x :: r => if N.eqb x 255 then lz4_ext r (acc + 255) else Some (acc + x, r)
  end.

(* a 4-bit token field, extended when it is 15 *)
Definition lz4_len (nib : N) (b : bytes) : option (N * bytes) :=
  if N.eqb nib 15 then lz4_ext b 15 else Some (nib, b).

(* match copy with byte-by-byte semantics (overlap allowed: "matchlength can be larger than offset"): the output so
   far is kept reversed, so the last `off` bytes are its first `off` elements; copying n bytes one at a time from `off`
   positions back appends the cyclic repetition of those `off` bytes *)
Fixpoint lz4_cycle (n : nat) (pat cur : bytes) (racc : bytes) : bytes :=
  match n with
  | O => racc
  | S k => match cur with
           | x :: r => lz4_cycle k pat r (x :: racc)
           | [] => match pat with
                   | x :: r => lz4_cycle k pat r (x :: racc)
                   | [] => racc
                   end
           end
  end.
Definition lz4_copy (n : nat) (off : nat) (racc : bytes) : option bytes :=
  if Nat.leb n off then
    (* no overlap: the n bytes starting `off` back are, in the reversed output, elements off-n .. off-1 *)
    let seg := firstn n (skipn (off - n) racc) in
    if Nat.eqb (length seg) n then Some (seg ++ racc) else None   (* None: offset reaches before the start of the output *)
  else
    let pat := rev_append (firstn off racc) [] in
    if Nat.ltb (length pat) off then None
    else Some (lz4_cycle n pat pat racc).

(* [shorter_than l k]: l has fewer than k elements; walks at most min(length l, k) cells (no length computation, no huge unary
   numbers on hostile input) *)
Fixpoint shorter_than (l : bytes) (k : N) : bool :=
  match l with
  | [] => negb (N.eqb k 0)
  | _ :: r => if N.eqb k 0 then false else shorter_than r (N.pred k)
  end.

(* take with the length in N, refusing early when the input is shorter *)
Definition take_N (n : N) (b : bytes) : option (bytes * bytes) :=
  if shorter_than b n then None else take_n (N.to_nat n) b.

Fixpoint lz4_loop (fuel : nat) (b : bytes) (racc : bytes) : res bytes :=
  match fuel with
  | O => OutOfFuel
  | S f =>
    match b with
    | [] => Err ERR_LZ4                                   (* a sequence starts with a token *)
    | tok :: b1 =>
      match lz4_len (tok / 16) b1 with
      | None => Err ERR_LZ4
      | Some (ll, b2) =>
        match take_N ll b2 with
        | None => Err ERR_LZ4
        | Some (lits, b3) =>
          let racc1 := rev_append lits racc in
          match b3 with
          | [] => Ok (rev_append racc1 [])                          (* last sequence: literals only *)
          | _ =>
            match take_n 2 b3 with
            | None => Err ERR_LZ4
            | Some (ob, b4) =>
              let off := of_le ob in
              if N.eqb off 0 then Err ERR_LZ4 else
              match lz4_len (tok mod 16) b4 with
              | None => Err ERR_LZ4
              | Some (ml, b5) =>
                match lz4_copy (N.to_nat (ml + 4)) (N.to_nat off) racc1 with
                | None => Err ERR_LZ4
                | Some racc2 => lz4_loop f b5 racc2
                end
              end
            end
          end
        end
      end
    end
  end.

(* every iteration consumes at least the token: fuel = length + 1 suffices (lz4_decode_fuel) *)
Definition lz4_decode (b : bytes) : res bytes := lz4_loop (S (length b)) b [].

(* docs/binary.md: "This compressed body ... will expand to Uncompressed Length bytes when decompressed." *)
Definition lz4_inflate (b : bytes) (n : N) : res bytes :=
  match lz4_decode b with
  | Ok r => if N.eqb (N.of_nat (length r)) n then Ok r else Err ERR_LZ4_LEN
  | Panic => Panic | Err c => Err c | OutOfFuel => OutOfFuel
  end.

(* ---- the simplest valid block for any data: one sequence, literals only *)
Definition lz4_ext_bytes (n : N) : bytes := repeat 255 (N.to_nat (n / 255)) ++ [n mod 255].
Definition literal_only_block (x : bytes) : bytes :=
  let l := N.of_nat (length x) in
  if N.ltb l 15 then (16 * l) :: x else 240 :: lz4_ext_bytes (l - 15) ++ x.
