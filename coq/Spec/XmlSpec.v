(* XmlSpec.v — the Roblox XML model format as /repo/docs/xml.md describes it, over ELEMENT TREES.  Written from the
   document only: it imports the byte/value layers and the event type (to build a tree from parser events), none of
   the codec model (XmlValues / XmlFile).  The section of the document is quoted beside each definition.
   [xspec_decode] turns a document into the logical file it describes: the instance forest with class, referent,
   parent, Name and the type elements of each instance, the scalar/text type elements decoded to values, references
   resolved to instances, shared strings resolved through the dictionary.  Definitions only. *)
From Coq Require Export String Ascii.
From RbxVerif Require Export Base Bytes Value XmlEvents.
Open Scope string_scope.
Open Scope list_scope.
Open Scope N_scope.

Definition sb (s : string) : bytes := List.map (fun a => N_of_ascii a) (list_ascii_of_string s).

(* ---------------------------------------------------------------------------- element trees *)
Inductive node := NElem (name : bytes) (a : attrs) (kids : list node) | NText (s : bytes).

(* a tree from a well-nested event list (parser output): text and CDATA become text nodes *)
Fixpoint build (fuel : nat) (evs : list revent) (stack : list (bytes * attrs * list node)) (top : list node) : option (list node) :=
  match fuel with
  | O => None
  | S f =>
      match evs with
      | [] => match stack with [] => Some (rev top) | _ => None end
      | RStart n a :: r => build f r ((n, a, top) :: stack) []
      | REnd n :: r =>
          match stack with
          | (n', a, up) :: st => if bytes_eqb n n' then build f r st (NElem n a (rev top) :: up) else None
          | [] => None
          end
      | RChars s :: r | RCData s :: r => build f r stack (NText s :: top)
      | RStartDoc :: r | REndDoc :: r | RPI _ :: r => build f r stack top
      | RError :: _ => None
      end
  end.
Definition tree_of_events (evs : list revent) : option (list node) := build (S (length evs)) evs [] [].

Fixpoint attr (k : bytes) (a : attrs) : option bytes :=
  match a with [] => None | (n, v) :: r => if bytes_eqb n k then Some v else attr k r end.
(* character data of an element: the concatenation of its text nodes *)
Fixpoint text_of (kids : list node) : bytes :=
  match kids with [] => [] | NText s :: r => s ++ text_of r | NElem _ _ _ :: r => text_of r end.
Definition elems (kids : list node) : list node :=
  filter (fun k => match k with NElem _ _ _ => true | NText _ => false end) kids.
Definition name_is (s : string) (k : node) : bool := match k with NElem n _ _ => bytes_eqb n (sb s) | _ => false end.
(* "Any trailing or leading whitespace in XML files are ignored": text between elements must be whitespace *)
Definition ws_only (kids : list node) : bool :=
  forallb (fun k => match k with NText s => all_ws s | _ => true end) kids.

(* ---------------------------------------------------------------------------- scalars (### int, ### int64, ### token, ### bool) *)
Definition digit (c : N) : bool := (48 <=? c) && (c <=? 57).
Fixpoint nat_val (acc : N) (s : bytes) : option N :=
  match s with [] => Some acc | c :: r => if digit c then nat_val (acc * 10 + (c - 48)) r else None end.
(* "a number in the range ...": optional minus sign, digits; "Positive numbers MUST NOT be prefixed with +" *)
Definition int_val (s : bytes) : option Z :=
  match s with
  | [] => None
  | 45 :: (_ :: _) as r => match nat_val 0 (tl s) with Some n => Some (- Z.of_N n)%Z | None => None end
  | _ => match nat_val 0 s with Some n => Some (Z.of_N n) | None => None end
  end.

(* RFC 2045 base64: characters outside the alphabet (line breaks) are ignored, `=` ends the data *)
Definition b64v (c : N) : option N :=
  if (65 <=? c) && (c <=? 90) then Some (c - 65) else if (97 <=? c) && (c <=? 122) then Some (c - 71)
  else if (48 <=? c) && (c <=? 57) then Some (c + 4) else if c =? 43 then Some 62 else if c =? 47 then Some 63 else None.
Fixpoint sextets_of (s : bytes) : list N :=
  match s with [] => [] | c :: r => match b64v c with Some v => v :: sextets_of r | None => sextets_of r end end.
Fixpoint bytes_of_sextets (l : list N) : bytes :=
  match l with
  | a :: b :: c :: d :: r => a * 4 + b / 16 :: (b mod 16) * 16 + c / 4 :: (c mod 4) * 64 + d :: bytes_of_sextets r
  | [a; b; c] => [a * 4 + b / 16; (b mod 16) * 16 + c / 4]
  | [a; b] => [a * 4 + b / 16]
  | _ => []
  end.
Definition spec_base64 (s : bytes) : bytes := bytes_of_sextets (sextets_of s).

(* ---------------------------------------------------------------------------- the logical file *)
(* a type element the spec decoder understands fully, or the raw element *)
Inductive sval :=
| SString (s : bytes)            (* ### string, ### ProtectedString: "contents maintained exactly" *)
| SBool (b : bool)               (* ### bool *)
| SInt (z : Z)                   (* ### int / BrickColor *)
| SInt64 (z : Z)                 (* ### int64 *)
| SToken (n : N)                 (* ### token *)
| SRef (target : option N)       (* ### Ref: index of the Item it names; None = `null` *)
| SBinary (b : bytes)            (* ### BinaryString *)
| SShared (b : option bytes)     (* ### SharedString: the dictionary entry *)
| SOther (tag : bytes) (kids : list node).

Record sinst := mkSI {
  si_class : bytes; si_referent : bytes; si_parent : N;       (* 0 = under `roblox`; else 1-based index in document order *)
  si_props : list (bytes * bytes * list node)                 (* name attribute, element name, content *)
}.

Definition SE_ROOT : N := 200.        (* "There MUST be one roblox element at the root" / version MUST be 4 *)
Definition SE_CHILD : N := 201.       (* an element the File Structure section does not allow there *)
Definition SE_ITEM : N := 202.        (* class / referent REQUIRED; referent MUST NOT be null; MUST be unique *)
Definition SE_PROPS : N := 203.       (* "There MUST be one Properties element per Item" *)
Definition SE_NAME : N := 204.        (* the name attribute is REQUIRED for all property elements *)
Definition SE_SHARED : N := 205.      (* md5 REQUIRED and unique; zero or one SharedStrings *)

(* Items in document order; fuel = depth bound *)
Fixpoint items (fuel : nat) (parent : N) (next : N) (kids : list node) : res (list sinst * N) :=
  match fuel with
  | O => OutOfFuel
  | S f =>
      match kids with
      | [] => Ok ([], next)
      | NElem n a ks :: r =>
          if bytes_eqb n (sb "Item") then
            match attr (sb "class") a, attr (sb "referent") a with
            | Some c, Some rf =>
                if bytes_eqb rf (sb "null") then Err SE_ITEM else
                if negb (ws_only ks) then Err SE_CHILD else
                match filter (name_is "Properties") ks with
                | [NElem _ _ ps] =>
                    if negb (forallb (fun k => name_is "Properties" k || name_is "Item" k) (elems ks)) then Err SE_CHILD else
                    props <- (fix go (l : list node) : res (list (bytes * bytes * list node)) :=
                                match l with
                                | [] => Ok []
                                | NElem tn ta tk :: l' =>
                                    match attr (sb "name") ta with
                                    | Some pn => rest <- go l' ;; Ok ((pn, tn, tk) :: rest)
                                    | None => Err SE_NAME
                                    end
                                | NText _ :: l' => go l'
                                end) ps ;;
                    '(sub, next1) <- items f next (next + 1) ks ;;
                    '(rest, next2) <- items f parent next1 r ;;
                    Ok (mkSI c rf parent props :: sub ++ rest, next2)
                | _ => Err SE_PROPS
                end
            | _, _ => Err SE_ITEM
            end
          else items f parent next r
      | NText _ :: r => items f parent next r
      end
  end.

Fixpoint index_of (rf : bytes) (l : list sinst) (k : N) : option N :=
  match l with [] => None | i :: r => if bytes_eqb (si_referent i) rf then Some k else index_of rf r (k + 1) end.
Fixpoint nodup_referents (l : list sinst) : bool :=
  match l with [] => true | i :: r => match index_of (si_referent i) r 0 with Some _ => false | None => nodup_referents r end end.

Fixpoint dict (kids : list node) : res (list (bytes * bytes)) :=
  match kids with
  | [] => Ok []
  | NElem n a ks :: r =>
      if bytes_eqb n (sb "SharedString") then
        match attr (sb "md5") a with
        | Some k => rest <- dict r ;;
                    match attr k rest with Some _ => Err SE_SHARED | None => Ok ((k, spec_base64 (text_of ks)) :: rest) end
        | None => Err SE_SHARED
        end
      else Err SE_CHILD
  | NText _ :: r => dict r
  end.

(* the value of one type element (## Type Elements) *)
Definition decode_prop (insts : list sinst) (d : list (bytes * bytes)) (tag : bytes) (ks : list node) : sval :=
  let t := text_of ks in
  let is s := bytes_eqb tag (sb s) in
  if is "string" || is "ProtectedString" then SString t
  else if is "bool" then (if bytes_eqb t (sb "true") then SBool true else if bytes_eqb t (sb "false") then SBool false else SOther tag ks)
  else if is "int" then match int_val t with Some z => SInt z | None => SOther tag ks end
  else if is "int64" then match int_val t with Some z => SInt64 z | None => SOther tag ks end
  else if is "token" then match nat_val 0 t with Some n => SToken n | None => SOther tag ks end
  else if is "Ref" then (if bytes_eqb t (sb "null") then SRef None else SRef (index_of t insts 1))
  else if is "BinaryString" then SBinary (spec_base64 t)
  else if is "SharedString" then SShared (attr t d)
  else SOther tag ks.

Record sfile := mkSF { sf_insts : list sinst; sf_dict : list (bytes * bytes) }.

(* number of nodes of a forest: twice that is enough fuel for [items] *)
Fixpoint nsize (n : node) : nat :=
  match n with
  | NText _ => 1%nat
  | NElem _ _ ks => S ((fix go (l : list node) : nat := match l with [] => O | k :: r => (nsize k + go r)%nat end) ks)
  end.

(* ## File Structure, ## roblox, ## Item, ## Properties, ## SharedStrings *)
Definition xspec_decode (doc : list node) : res sfile :=
  match elems doc with
  | [NElem n a ks] =>
      if negb (bytes_eqb n (sb "roblox")) then Err SE_ROOT else
      match attr (sb "version") a with
      | Some v =>
          if negb (bytes_eqb v (sb "4")) then Err SE_ROOT else
          if negb (ws_only ks) then Err SE_CHILD else
          if negb (forallb (fun k => name_is "Meta" k || name_is "External" k || name_is "Item" k || name_is "SharedStrings" k) (elems ks))
          then Err SE_CHILD else
          '(insts, _) <- items (2 * nsize (NElem n a ks) + 4) 0 1 ks ;;
          if negb (nodup_referents insts) then Err SE_ITEM else
          d <- match filter (name_is "SharedStrings") ks with
               | [] => Ok []
               | [NElem _ _ ds] => dict ds
               | _ => Err SE_SHARED
               end ;;
          Ok (mkSF insts d)
      | None => Err SE_ROOT
      end
  | _ => Err SE_ROOT
  end.

(* the Name of an instance: its `Name` type element if it is a string *)
Definition si_name (i : sinst) : option bytes :=
  match filter (fun p => bytes_eqb (fst (fst p)) (sb "Name")) (si_props i) with
  | (_, tag, ks) :: _ => if bytes_eqb tag (sb "string") || bytes_eqb tag (sb "ProtectedString") then Some (text_of ks) else None
  | [] => None
  end.

(* every Ref names an Item of the file or is `null`; every SharedString key is defined *)
Definition refs_resolved (f : sfile) : bool :=
  forallb (fun i => forallb (fun p => match decode_prop (sf_insts f) (sf_dict f) (snd (fst p)) (snd p) with
                                      | SShared None => false
                                      | _ => true
                                      end) (si_props i)) (sf_insts f).
