#!/bin/sh
# Builds the verification framework from files on disk only (offline): Rust harness against /repo with the
# hook guard on, regenerated Coq tables (translators), Coq development (full .vo), extracted OCaml model runner.
set -e
cd "$(dirname "$0")"
export CARGO_NET_OFFLINE=true
python3 - <<'PY'
import sys, os
sys.path.insert(0, os.path.join(os.getcwd(), "tools"))
import vlib
ok, out = vlib.build_harness()
if not ok:
    print(out[-3000:]); sys.exit("harness build failed")
if os.path.exists(os.path.join(vlib.VERIF, "tools", "translate.py")):
    import translate
    translate.regenerate_all()
if os.path.exists(os.path.join(vlib.VERIF, "tools", "translate17.py")):
    import translate17
    translate17.regenerate()
if os.path.exists(os.path.join(vlib.VERIF, "tools", "translate_src.py")):
    import translate_src
    translate_src.regenerate()
vlib.write_coqproject()
import json
claimed = [c["property_id"] for c in json.load(open(os.path.join(vlib.VERIF, "MANIFEST.json")))["checks"]]
targets = ["Properties/%s.vo" % p for p in claimed if os.path.exists(os.path.join(vlib.COQ, "Properties", p + ".v"))] + vlib.model_vos()
ok, out = vlib.coq_make(targets, timeout=3000)
print(out[-3000:])
if not ok:
    sys.exit("coq build failed")
ok, out = vlib.build_model()
if not ok:
    print(out[-3000:]); sys.exit("model extraction/build failed")
print("setup ok")
PY
