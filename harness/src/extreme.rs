//! extreme: implementation-side round-trip oracle of C01 / C02 at the sizes the differential streams cannot afford
//! (the extracted model works on lists of `N`): byte strings around 2^16 and 2^20 bytes in every string-like
//! position, deep chains, wide fan-out, many classes.  The properties quantify over "empty, large and non-UTF-8 byte
//! strings" and "any shape, depth, fan-out"; a defect that needs a value above a buffer cap or a depth above a
//! recursion budget lives here.  Each case runs in a child process (re-exec), so that a stack overflow or abort is an
//! observation of that case.
//!
//!   extreme-run <bin|xml> ORACLE STATS        parent: one child per case; oracle lines `<case> <C01|C02> <key> <message>`
//!   extreme-child <bin|xml> <case name>       worker: prints `OK` or `BAD <message>`
use rbx_dom_weak::types::{BinaryString, Ref, SharedString, Variant};
use rbx_dom_weak::{InstanceBuilder, WeakDom};
use std::io::Write;

fn pattern(n: usize, salt: u8) -> Vec<u8> {
    // printable, never whitespace at the ends, valid UTF-8, not periodic with a small period
    (0..n).map(|i| b'a' + (((i as u64).wrapping_mul(2654435761) >> 7) as u8 ^ salt) % 26).collect()
}

fn blob_sizes() -> Vec<usize> {
    vec![65_535, 65_536, 65_537, (1 << 20) - 1, 1 << 20, (1 << 20) + 1, (1 << 20) + 4097, 3 << 20]
}

pub fn case_names() -> Vec<String> {
    let mut v = Vec::new();
    for s in blob_sizes() {
        v.push(format!("blob-{s}"));
    }
    for d in [1500usize, 2000] {
        v.push(format!("chain-{d}"));
    }
    v.push("chain-60000".to_string());
    v.push("wide-100000".to_string());
    v.push("classes-400".to_string());
    v
}

/// the DOM of a case and the list of (path of names from the root's child, property, expected value) checks
fn build(case: &str) -> (WeakDom, Vec<Ref>) {
    let mut dom = WeakDom::new(InstanceBuilder::new("DataModel"));
    let root = dom.root_ref();
    if let Some(s) = case.strip_prefix("blob-") {
        let n: usize = s.parse().unwrap();
        let text = String::from_utf8(pattern(n, 1)).unwrap();
        let mut bin = pattern(n, 2);
        for (i, b) in bin.iter_mut().enumerate() {
            if i % 97 == 0 {
                *b = 0xff; // not UTF-8
            }
        }
        // the large value is never the last value of its column nor of the file: a later instance of the same class
        // and later chunks follow it, so a short read shows as a failure or as shifted values
        let holder = dom.insert(root, InstanceBuilder::new("Folder").with_name(String::from_utf8(pattern(n, 3)).unwrap()));
        dom.insert(holder, InstanceBuilder::new("StringValue").with_name("s1").with_property("Value", text.clone()));
        dom.insert(holder, InstanceBuilder::new("StringValue").with_name("s2").with_property("Value", "after"));
        dom.insert(holder, InstanceBuilder::new("BinaryStringValue").with_name("b1").with_property("Value", Variant::BinaryString(BinaryString::from(bin.clone()))));
        dom.insert(holder, InstanceBuilder::new("BinaryStringValue").with_name("b2").with_property("Value", Variant::BinaryString(BinaryString::from(vec![1u8, 2, 3]))));
        dom.insert(holder, InstanceBuilder::new("Zz9Unknown").with_name("u1").with_property("Blob", Variant::SharedString(SharedString::new(pattern(n, 4)))).with_property("Text", text));
        dom.insert(holder, InstanceBuilder::new("Zz9Unknown").with_name("u2").with_property("Blob", Variant::SharedString(SharedString::new(vec![9u8; 5]))).with_property("Text", "tail"));
        dom.insert(holder, InstanceBuilder::new("IntValue").with_name("last").with_property("Value", 1234567i64));
    } else if let Some(s) = case.strip_prefix("chain-") {
        let n: usize = s.parse().unwrap();
        let mut cur = root;
        for i in 0..n {
            cur = dom.insert(cur, InstanceBuilder::new("Folder").with_name(format!("d{i}")));
        }
        dom.insert(cur, InstanceBuilder::new("IntValue").with_name("leaf").with_property("Value", 7i64));
    } else if let Some(s) = case.strip_prefix("wide-") {
        let n: usize = s.parse().unwrap();
        let p = dom.insert(root, InstanceBuilder::new("Folder").with_name("p"));
        for i in 0..n {
            dom.insert(p, InstanceBuilder::new("IntValue").with_name(format!("c{i}")).with_property("Value", i as i64 - 50_000));
        }
    } else if let Some(s) = case.strip_prefix("classes-") {
        let n: usize = s.parse().unwrap();
        for i in 0..n {
            dom.insert(root, InstanceBuilder::new(format!("Cls{:04}", (i * 7919) % 10_000)).with_name(format!("i{i}")).with_property("P", i as i32));
        }
    }
    let roots: Vec<Ref> = dom.root().children().to_vec();
    (dom, roots)
}

/// canonical rendering of the forest below `roots`, iteratively (no recursion): pre-order with explicit depth
fn render(dom: &WeakDom, roots: &[Ref]) -> Vec<u8> {
    let mut out: Vec<u8> = Vec::new();
    let mut stack: Vec<(Ref, usize)> = roots.iter().rev().map(|r| (*r, 0usize)).collect();
    while let Some((r, depth)) = stack.pop() {
        let i = dom.get_by_ref(r).unwrap();
        write!(out, "{depth} {} {:?} [", i.class, i.name.len()).unwrap();
        out.extend(i.name.as_bytes());
        out.push(b']');
        let mut keys: Vec<&str> = i.properties.keys().map(|k| k.as_str()).collect();
        keys.sort();
        for k in keys {
            let v = i.properties.get(&rbx_dom_weak::ustr(k)).unwrap();
            write!(out, " {k}=").unwrap();
            match v {
                Variant::String(s) => {
                    write!(out, "S{}:", s.len()).unwrap();
                    out.extend(s.as_bytes());
                }
                Variant::BinaryString(b) => {
                    let b: &[u8] = b.as_ref();
                    write!(out, "B{}:", b.len()).unwrap();
                    out.extend(b);
                }
                Variant::SharedString(s) => {
                    write!(out, "H{}:", s.data().len()).unwrap();
                    out.extend(s.data());
                }
                other => write!(out, "{other:?}").unwrap(),
            }
        }
        out.push(b'\n');
        for c in i.children().iter().rev() {
            stack.push((*c, depth + 1));
        }
    }
    out
}

/// what the round trip is allowed to change in `render`'s terms: an unknown class' String comes back as BinaryString
/// (C01) — both are rendered by content below; XML returns unknown-class SharedStrings as such
fn normalise(r: &[u8]) -> Vec<u8> {
    // S<len>: and B<len>: are treated alike
    let mut v = r.to_vec();
    let mut i = 0;
    while i + 1 < v.len() {
        if v[i] == b'=' && (v[i + 1] == b'S' || v[i + 1] == b'B') {
            v[i + 1] = b'T';
        }
        i += 1;
    }
    v
}

fn child(fmt: &str, case: &str) -> String {
    let (dom, roots) = build(case);
    let want = normalise(&render(&dom, &roots));
    let modes: Vec<&str> = if fmt == "bin" { vec!["none", "lz4", "zstd"] } else { vec!["xml"] };
    for m in modes {
        let mut buf: Vec<u8> = Vec::new();
        let enc: Result<(), String> = match m {
            "xml" => rbx_xml::to_writer(&mut buf, &dom, &roots, rbx_xml::EncodeOptions::new().property_behavior(rbx_xml::EncodePropertyBehavior::WriteUnknown)).map_err(|e| e.to_string()),
            _ => {
                let c = match m {
                    "none" => rbx_binary::CompressionType::None,
                    "lz4" => rbx_binary::CompressionType::Lz4,
                    _ => rbx_binary::CompressionType::Zstd,
                };
                rbx_binary::Serializer::new().compression_type(c).serialize(&mut buf, &dom, &roots).map_err(|e| e.to_string())
            }
        };
        if let Err(e) = enc {
            return format!("BAD encode-fails mode={m}: {}", e.chars().take(200).collect::<String>());
        }
        let back = match m {
            "xml" => rbx_xml::from_reader(buf.as_slice(), rbx_xml::DecodeOptions::new().property_behavior(rbx_xml::DecodePropertyBehavior::ReadUnknown)).map_err(|e| e.to_string()),
            _ => rbx_binary::from_reader(buf.as_slice()).map_err(|e| e.to_string()),
        };
        let back = match back {
            Ok(d) => d,
            Err(e) => return format!("BAD decode-fails mode={m}: the written file ({} bytes) does not read back: {}", buf.len(), e.chars().take(200).collect::<String>()),
        };
        let got = normalise(&render(&back, back.root().children()));
        if got != want {
            let at = got.iter().zip(want.iter()).position(|(a, b)| a != b).unwrap_or(got.len().min(want.len()));
            let line = want[..at.min(want.len())].iter().filter(|b| **b == b'\n').count();
            return format!("BAD differs mode={m}: the decoded forest differs from the source at rendered byte {at} (instance #{line} in pre-order; lengths {} vs {})", got.len(), want.len());
        }
        // leak the big DOM instead of dropping it recursively
        std::mem::forget(back);
    }
    std::mem::forget(dom);
    "OK".to_string()
}

pub fn cli(args: &[String]) -> bool {
    let cmd = args.get(1).map(|s| s.as_str()).unwrap_or("");
    match cmd {
        "extreme-child" => {
            let fmt = args[2].clone();
            let case = args[3].clone();
            // the job thread has a main-thread-sized stack (8 MiB), like a caller's main thread
            let h = std::thread::Builder::new().stack_size(8 << 20).spawn(move || {
                match std::panic::catch_unwind(|| child(&fmt, &case)) {
                    Ok(s) => s,
                    Err(_) => "BAD panic".to_string(),
                }
            });
            let r = h.unwrap().join().unwrap_or_else(|_| "BAD panic".to_string());
            println!("{r}");
            true
        }
        "extreme-run" => {
            let fmt = args[2].clone();
            let pid = if fmt == "bin" { "C01" } else { "C02" };
            let mut orc = std::io::BufWriter::new(std::fs::File::create(&args[3]).unwrap());
            let exe = std::env::current_exe().unwrap();
            let names: Vec<String> = case_names().into_iter().filter(|n| fmt == "bin" || !(n == "chain-60000")).collect();
            let mut children = Vec::new();
            for n in &names {
                let c = std::process::Command::new(&exe).args(["extreme-child", &fmt, n]).stdout(std::process::Stdio::piped()).stderr(std::process::Stdio::piped()).spawn().unwrap();
                children.push((n.clone(), c));
            }
            let mut ok = 0;
            for (n, c) in children {
                let o = c.wait_with_output().unwrap();
                let so = String::from_utf8_lossy(&o.stdout).trim().to_string();
                let se = String::from_utf8_lossy(&o.stderr);
                if o.status.success() && so == "OK" {
                    ok += 1;
                } else if let Some(m) = so.strip_prefix("BAD ") {
                    let key = m.split_whitespace().next().unwrap_or("bad");
                    writeln!(orc, "extreme-{n} {pid} extreme-{key} {fmt} round trip of case `{n}`: {m}").unwrap();
                } else {
                    let how = if se.contains("overflowed its stack") { "stack overflow" } else { "abnormal exit" };
                    writeln!(orc, "extreme-{n} {pid} extreme-abort {fmt} round trip of case `{n}`: the process died ({how}, status {:?}): {}", o.status.code(), se.lines().last().unwrap_or("").chars().take(160).collect::<String>()).unwrap();
                }
            }
            let mut st = std::fs::File::create(&args[4]).unwrap();
            writeln!(st, "{{\"cases\": {}, \"ok\": {}, \"names\": {:?}}}", names.len(), ok, names).unwrap();
            true
        }
        _ => false,
    }
}
