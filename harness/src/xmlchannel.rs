//! xmlchannel: validates the Coq function `channel` (coq/Model/XmlEvents.v) against the REAL pair
//! `rbx_xml::verif::XmlEventWriter` -> text -> `rbx_xml::verif::XmlEventReader`.
//!
//! case lines (one write event per line; strings are hex, `-` = empty):
//!   S <name> <k> (<attr-name> <attr-value>){k}     start element
//!   E                                              end element
//!   T <text>                                       characters
//!   C <text>                                       cdata
//! observation: `OK` followed by one line per read event, or `ERR` (the writer refused an event or the
//! reader delivered an error):
//!   D | S <name> <k> (<an> <av>){k} | E <name> | T <text> | C <text> | P <name> | Z | X
//! The same read-event lines are used by the xmlfile kind (see `revent_lines`).
use crate::rng::Rng;
use crate::util::*;
use crate::val::{hex, unhex};
use rbx_xml::verif::{XmlEventReader, XmlEventWriter, XmlReadEvent, XmlWriteEvent};
use std::collections::{BTreeMap, BTreeSet};
use std::io::Write;

#[derive(Clone, Debug, PartialEq)]
pub enum WEv {
    Start(String, Vec<(String, String)>),
    End,
    Chars(String),
    CData(String),
}

pub fn wev_line(e: &WEv) -> String {
    match e {
        WEv::Start(n, a) => {
            let mut s = format!("S {} {:x}", hex(n.as_bytes()), a.len());
            for (k, v) in a {
                s.push_str(&format!(" {} {}", hex(k.as_bytes()), hex(v.as_bytes())));
            }
            s
        }
        WEv::End => "E".into(),
        WEv::Chars(t) => format!("T {}", hex(t.as_bytes())),
        WEv::CData(t) => format!("C {}", hex(t.as_bytes())),
    }
}

fn utf8(h: &str) -> Result<String, String> {
    String::from_utf8(unhex(h)?).map_err(|e| e.to_string())
}

pub fn parse_wev(line: &str) -> Result<WEv, String> {
    let w: Vec<&str> = line.split_whitespace().collect();
    match w.first().copied() {
        Some("S") => {
            let n = utf8(w.get(1).ok_or("S: name")?)?;
            let k = usize::from_str_radix(w.get(2).ok_or("S: count")?, 16).map_err(|e| e.to_string())?;
            let mut a = Vec::new();
            for i in 0..k {
                a.push((utf8(w.get(3 + 2 * i).ok_or("S: attr")?)?, utf8(w.get(4 + 2 * i).ok_or("S: attr")?)?));
            }
            Ok(WEv::Start(n, a))
        }
        Some("E") => Ok(WEv::End),
        Some("T") => Ok(WEv::Chars(utf8(w.get(1).ok_or("T")?)?)),
        Some("C") => Ok(WEv::CData(utf8(w.get(1).ok_or("C")?)?)),
        _ => Err(format!("bad event line `{line}`")),
    }
}

/// the events through the real `XmlEventWriter`; Err(message) if it refuses one
pub fn emit(evs: &[WEv]) -> Result<Vec<u8>, String> {
    let mut out = Vec::new();
    {
        let mut w = XmlEventWriter::from_output(&mut out);
        for e in evs {
            let r = match e {
                WEv::Start(n, a) => {
                    let mut b = XmlWriteEvent::start_element(n.as_str());
                    for (k, v) in a {
                        b = b.attr(k.as_str(), v.as_str());
                    }
                    w.write(b)
                }
                WEv::End => w.write(XmlWriteEvent::end_element()),
                WEv::Chars(t) => w.write(XmlWriteEvent::characters(t)),
                WEv::CData(t) => w.write(XmlWriteEvent::cdata(t)),
            };
            if let Err(e) = r {
                return Err(e.to_string());
            }
        }
    }
    Ok(out)
}

/// every event the real `XmlEventReader` delivers for `text`, one line each; bool = saw an error event
pub fn revent_lines(text: &[u8]) -> (Vec<String>, bool) {
    let mut lines = Vec::new();
    let mut err = false;
    for ev in XmlEventReader::from_source(text) {
        match ev {
            Ok(XmlReadEvent::StartDocument { .. }) => lines.push("D".into()),
            Ok(XmlReadEvent::EndDocument) => lines.push("Z".into()),
            Ok(XmlReadEvent::StartElement { name, attributes, .. }) => {
                let mut s = format!("S {} {:x}", hex(name.local_name.as_bytes()), attributes.len());
                for a in &attributes {
                    s.push_str(&format!(" {} {}", hex(a.name.local_name.as_bytes()), hex(a.value.as_bytes())));
                }
                lines.push(s);
            }
            Ok(XmlReadEvent::EndElement { name }) => lines.push(format!("E {}", hex(name.local_name.as_bytes()))),
            Ok(XmlReadEvent::Characters(t)) => lines.push(format!("T {}", hex(t.as_bytes()))),
            Ok(XmlReadEvent::CData(t)) => lines.push(format!("C {}", hex(t.as_bytes()))),
            Ok(XmlReadEvent::ProcessingInstruction { name, .. }) => lines.push(format!("P {}", hex(name.as_bytes()))),
            Ok(XmlReadEvent::Comment(_)) => lines.push("COMMENT".into()),
            Ok(XmlReadEvent::Whitespace(_)) => lines.push("WHITESPACE".into()),
            Err(_) => {
                lines.push("X".into());
                err = true;
            }
        }
    }
    (lines, err)
}

// ------------------------------------------------------------------------------------------ generator

/// text fragments that exercise escaping, CDATA splitting, whitespace classification and coalescing
pub const FRAGMENTS: [&str; 48] = [
    "", " ", "\n", "\t", "\r", "\r\n", "  \n\t", "a", "abc", "Hello, world!", "]]>", "]]", "]", ">", "<", "&", "&amp;", "&#10;", "&lt;", "\"", "'",
    "x y", " lead", "trail ", " both ", "\nline", "line\n", "\u{e9}", "\u{85}", "\u{a0}", "\u{2028}", "\u{3000}", "\u{65e5}\u{672c}", "\u{fffd}", "\u{10000}",
    "\u{10ffff}", "<![CDATA[", "]]>]]>", "]]]>", "]]]]>>", "-->", "<!-- c -->", "<?pi x?>", "</a>", "<a>", "\u{7f}", "\u{d7ff}\u{e000}", "1.5 2 ",
];

/// a string of XML-1.0-legal characters
pub fn gen_xml_text(rng: &mut Rng) -> String {
    match rng.below(10) {
        0 => String::new(),
        1..=3 => rng.pick(&FRAGMENTS).to_string(),
        4..=6 => {
            let k = rng.range(2, 5);
            (0..k).map(|_| rng.pick(&FRAGMENTS).to_string()).collect::<Vec<_>>().join("")
        }
        7 => {
            let k = rng.range(1, 10);
            (0..k).map(|_| (b'a' + rng.below(26) as u8) as char).collect()
        }
        8 => {
            let k = rng.range(1, 8);
            (0..k)
                .map(|_| loop {
                    let c = match rng.below(5) {
                        0 => *rng.pick(&[9u32, 10, 13, 32]),
                        1 => rng.range(0x20, 0x7f) as u32,
                        2 => rng.range(0x80, 0x7ff) as u32,
                        3 => rng.range(0x800, 0xfffd) as u32,
                        _ => rng.range(0x10000, 0x10ffff) as u32,
                    };
                    if let Some(c) = char::from_u32(c) {
                        break c;
                    }
                })
                .collect()
        }
        _ => {
            let k = rng.range(50, 400);
            let unit = rng.pick(&["x", " ", "]]>", "\u{e9}", "&"]).to_string();
            unit.repeat(k as usize)
        }
    }
}

const ELEM_NAMES: [&str; 10] = ["roblox", "Item", "Properties", "string", "X", "null", "url", "BinaryString", "a", "SharedStrings"];
const ATTR_NAMES: [&str; 6] = ["name", "class", "referent", "version", "md5", "a"];

fn gen_content(rng: &mut Rng, depth: u32, out: &mut Vec<WEv>) {
    let k = if depth >= 4 { rng.below(3) } else { rng.below(5) };
    for _ in 0..k {
        match rng.below(10) {
            0..=3 => out.push(WEv::Chars(gen_xml_text(rng))),
            4..=6 => out.push(WEv::CData(gen_xml_text(rng))),
            _ => gen_element(rng, depth + 1, out),
        }
    }
}

fn gen_element(rng: &mut Rng, depth: u32, out: &mut Vec<WEv>) {
    let name = rng.pick(&ELEM_NAMES).to_string();
    let mut attrs = Vec::new();
    let mut names: Vec<&str> = ATTR_NAMES.to_vec();
    rng.shuffle(&mut names);
    for n in names.iter().take(rng.below(4) as usize) {
        attrs.push((n.to_string(), gen_xml_text(rng)));
    }
    out.push(WEv::Start(name, attrs));
    gen_content(rng, depth, out);
    out.push(WEv::End);
}

fn gen_cases(seed: u64, n: u64, prefix: &str, f: &mut impl Write) {
    let mut rng = Rng::new(seed ^ 0x786d6c63);
    for i in 0..n {
        let mut r = rng.fork();
        let mut evs = Vec::new();
        gen_element(&mut r, 0, &mut evs);
        match r.below(40) {
            0 => {
                evs.pop();
            } // unclosed root
            1 => evs.push(WEv::End), // one end too many
            2 => evs.insert(0, WEv::Chars("x".into())), // text before the root
            3 => {
                // a character that is not an XML 1.0 Char
                let bad = *r.pick(&["\u{0}", "\u{1}", "\u{b}", "\u{1f}", "\u{fffe}", "\u{ffff}"]);
                let at = r.below(evs.len() as u64) as usize;
                match r.below(3) {
                    0 => evs.insert(at.max(1), WEv::Chars(format!("a{bad}b"))),
                    1 => evs.insert(at.max(1), WEv::CData(format!("a{bad}b"))),
                    _ => {
                        if let WEv::Start(_, a) = &mut evs[0] {
                            a.clear();
                            a.push(("name".into(), format!("a{bad}b")));
                        }
                    }
                }
            }
            4 => {
                let mut more = Vec::new();
                gen_element(&mut r, 0, &mut more); // a second root element
                evs.extend(more);
            }
            _ => {}
        }
        let lines: Vec<String> = evs.iter().map(wev_line).collect();
        write_case(f, &format!("{prefix}{i}"), &lines);
    }
}

// ------------------------------------------------------------------------------------------ run

pub fn cli(args: &[String]) -> bool {
    let cmd = args.get(1).map(|s| s.as_str()).unwrap_or("");
    match cmd {
        "xmlchannel-gen" => {
            let seed = arg_num(args, "--seed", 1);
            let n = arg_num(args, "--cases", 1000);
            let prefix = arg_val(args, "--prefix").unwrap_or_else(|| "c".into());
            let out = arg_val(args, "--out").expect("--out");
            let mut f = std::io::BufWriter::new(std::fs::File::create(out).unwrap());
            gen_cases(seed, n, &prefix, &mut f);
        }
        "xmlchannel-run" => {
            let cases = read_cases(&args[2]);
            let mut obs = std::io::BufWriter::new(std::fs::File::create(&args[3]).unwrap());
            let mut orc = std::io::BufWriter::new(std::fs::File::create(&args[4]).unwrap());
            let mut stats: BTreeMap<String, u64> = BTreeMap::new();
            let mut distinct = BTreeSet::new();
            for (id, lines) in &cases {
                *stats.entry("cases".into()).or_insert(0) += 1;
                let evs: Result<Vec<WEv>, String> = lines.iter().map(|l| parse_wev(l)).collect();
                let out = match evs {
                    Err(e) => vec![format!("BADCASE {e}")],
                    Ok(evs) => {
                        let ntext = evs.iter().filter(|e| matches!(e, WEv::Chars(_) | WEv::CData(_))).count();
                        if ntext >= 2 && distinct.insert(lines.join("\n")) {
                            *stats.entry("distinct_nontrivial".into()).or_insert(0) += 1;
                        }
                        *stats.entry("events".into()).or_insert(0) += evs.len() as u64;
                        match std::panic::catch_unwind(|| emit(&evs)) {
                            Err(_) => {
                                *stats.entry("writer_panic".into()).or_insert(0) += 1;
                                vec!["PANIC".into()]
                            }
                            Ok(Err(_)) => {
                                *stats.entry("writer_error".into()).or_insert(0) += 1;
                                vec!["ERR".into()]
                            }
                            Ok(Ok(text)) => {
                                let (ls, err) = revent_lines(&text);
                                if err {
                                    *stats.entry("reader_error".into()).or_insert(0) += 1;
                                    vec!["ERR".into()]
                                } else {
                                    *stats.entry("ok".into()).or_insert(0) += 1;
                                    *stats.entry("read_events".into()).or_insert(0) += ls.len() as u64;
                                    let mut v = vec!["OK".to_string()];
                                    v.extend(ls);
                                    v
                                }
                            }
                        }
                    }
                };
                write_case(&mut obs, id, &out);
            }
            drop(orc.flush());
            let js: Vec<String> = stats.iter().map(|(k, v)| format!("\"{k}\": {v}")).collect();
            std::fs::write(&args[5], format!("{{{}}}\n", js.join(", "))).unwrap();
        }
        "xmlchannel-text" => {
            // debugging aid: print the text the real writer produces for the first case of a file
            let cases = read_cases(&args[2]);
            for (id, lines) in &cases {
                let evs: Vec<WEv> = lines.iter().map(|l| parse_wev(l).unwrap()).collect();
                println!("== {id}\n{}", emit(&evs).map(|t| String::from_utf8_lossy(&t).to_string()).unwrap_or_else(|e| format!("ERR {e}")));
            }
        }
        _ => return false,
    }
    true
}
