//! sched: real threads creating/cloning/dropping `SharedString`s under a controller that enforces a
//! given interleaving at the granularity of property C18 (through the `rbx_dom_verif` yield hook),
//! plus an unscheduled multi-thread soak.
use crate::rng::Rng;
use rbx_types::shared_string_verif as hook;
use rbx_types::SharedString;
use std::cell::RefCell;
use std::collections::BTreeMap;
use std::sync::mpsc::{channel, Receiver, Sender};
use std::time::Duration;

#[derive(Clone, Debug)]
pub enum IOp {
    New(u64, u64),
    Clone(u64, u64),
    Drop(u64),
}

#[derive(Clone, Debug)]
pub struct Case {
    pub alpha: u64,
    pub progs: Vec<Vec<IOp>>,
    pub sched: Vec<usize>,
}

pub fn parse_case(lines: &[String]) -> Case {
    let mut c = Case { alpha: 2, progs: Vec::new(), sched: Vec::new() };
    for l in lines {
        let t: Vec<&str> = l.split_whitespace().collect();
        match t[0] {
            "alpha" => c.alpha = t[1].parse().unwrap(),
            "prog" => {
                let mut ops = Vec::new();
                let mut i = 2;
                while i < t.len() {
                    match t[i] {
                        "N" => {
                            ops.push(IOp::New(t[i + 1].parse().unwrap(), t[i + 2].parse().unwrap()));
                            i += 3
                        }
                        "C" => {
                            ops.push(IOp::Clone(t[i + 1].parse().unwrap(), t[i + 2].parse().unwrap()));
                            i += 3
                        }
                        _ => {
                            ops.push(IOp::Drop(t[i + 1].parse().unwrap()));
                            i += 2
                        }
                    }
                }
                c.progs.push(ops);
            }
            "sched" => c.sched = t[1..].iter().map(|x| x.parse().unwrap()).collect(),
            _ => {}
        }
    }
    c
}

pub fn case_lines(c: &Case) -> Vec<String> {
    let mut out = vec![format!("alpha {}", c.alpha)];
    for (k, p) in c.progs.iter().enumerate() {
        let mut s = format!("prog {k}");
        for o in p {
            match o {
                IOp::New(c, k) => s.push_str(&format!(" N {c} {k}")),
                IOp::Clone(a, b) => s.push_str(&format!(" C {a} {b}")),
                IOp::Drop(k) => s.push_str(&format!(" D {k}")),
            }
        }
        out.push(s);
    }
    out.push(format!("sched {}", c.sched.iter().map(|x| x.to_string()).collect::<Vec<_>>().join(" ")));
    out
}

fn content_bytes(c: u64) -> Vec<u8> {
    vec![c as u8 + 1; 3 + c as usize]
}

type Snap = Vec<(u64, i64, usize, bool)>; // slot, content id (-1 unknown), buffer address, bytes intact

struct Ctx {
    grant: Receiver<()>,
    done: Sender<(Snap, bool)>,
    snap: Snap,
}

thread_local! {
    static CTX: RefCell<Option<Ctx>> = RefCell::new(None);
    /// how often the current operation passed the pre-lock point of `SharedString::new`
    static NEW_YIELDS: std::cell::Cell<usize> = std::cell::Cell::new(0);
}

fn on_yield(site: hook::Site) {
    if site == hook::Site::NewBeforeLock {
        // `new` takes the table lock once: everything before it is thread-local, so the first pre-lock point is
        // where the granted step begins.  A second one within the same call means look-up and insertion are no
        // longer one critical section: it becomes a scheduling point of its own (the model's single `New` step
        // then disagrees, and other threads can be interleaved between the two halves).
        let n = NEW_YIELDS.with(|c| {
            c.set(c.get() + 1);
            c.get()
        });
        if n < 2 {
            return;
        }
    } else if site != hook::Site::DropBeforeLock {
        return;
    }
    CTX.with(|c| {
        if let Some(ctx) = c.borrow().as_ref() {
            // step A (last release) is complete; wait to be scheduled for step B (clean-up)
            let _ = ctx.done.send((ctx.snap.clone(), false));
            let _ = ctx.grant.recv();
        }
    });
}

fn snapshot(slots: &BTreeMap<u64, (SharedString, u64)>) -> Snap {
    slots
        .iter()
        .map(|(k, (h, c))| {
            let d = h.data();
            let intact = d == content_bytes(*c).as_slice();
            (*k, *c as i64, d.as_ptr() as usize, intact)
        })
        .collect()
}

fn thread_main(prog: Vec<IOp>, grant: Receiver<()>, done: Sender<(Snap, bool)>) {
    CTX.with(|c| *c.borrow_mut() = Some(Ctx { grant, done, snap: Vec::new() }));
    let mut slots: BTreeMap<u64, (SharedString, u64)> = BTreeMap::new();
    let n = prog.len();
    for (k, op) in prog.into_iter().enumerate() {
        let alive = CTX.with(|c| c.borrow().as_ref().unwrap().grant.recv().is_ok());
        if !alive {
            return;
        }
        NEW_YIELDS.with(|c| c.set(0));
        match op {
            IOp::New(c, slot) => {
                let h = SharedString::new(content_bytes(c));
                slots.insert(slot, (h, c));
            }
            IOp::Clone(src, dst) => {
                if let Some((h, c)) = slots.get(&src) {
                    let h2 = h.clone();
                    let c2 = *c;
                    slots.insert(dst, (h2, c2));
                }
            }
            IOp::Drop(slot) => {
                if let Some(h) = slots.remove(&slot) {
                    let s = snapshot(&slots);
                    CTX.with(|c| c.borrow_mut().as_mut().unwrap().snap = s);
                    drop(h);
                }
            }
        }
        let s = snapshot(&slots);
        CTX.with(|c| {
            let mut b = c.borrow_mut();
            let ctx = b.as_mut().unwrap();
            ctx.snap = s.clone();
            let _ = ctx.done.send((s, k + 1 == n));
        });
    }
    // handles still held are leaked on purpose (forgotten), so that no unscheduled drop runs
    for (_, (h, _)) in slots {
        std::mem::forget(h);
    }
    CTX.with(|c| *c.borrow_mut() = None);
}

pub struct CaseOut {
    pub obs: Vec<String>,
    pub oracle: Vec<String>,
    pub poisoned: bool,
}

fn obs_line(len: usize, snaps: &[Snap]) -> String {
    let mut classes: BTreeMap<usize, usize> = BTreeMap::new();
    let mut s = format!("len={len}");
    for (t, sn) in snaps.iter().enumerate() {
        s.push_str(&format!(" | t{t}:"));
        for (slot, c, ptr, _) in sn {
            let n = classes.len();
            let id = *classes.entry(*ptr).or_insert(n);
            s.push_str(&format!(" s{slot}=c{c}#{id}"));
        }
    }
    s
}

/// run one scheduled case on real threads
pub fn run_case(case: &Case) -> CaseOut {
    hook::set_yield_callback(Some(on_yield));
    let nt = case.progs.len();
    let mut grants: Vec<Sender<()>> = Vec::new();
    let mut dones: Vec<Receiver<(Snap, bool)>> = Vec::new();
    let mut joins = Vec::new();
    for p in &case.progs {
        let (gt, gr) = channel::<()>();
        let (dt, dr) = channel::<(Snap, bool)>();
        let prog = p.clone();
        joins.push(std::thread::spawn(move || thread_main(prog, gr, dt)));
        grants.push(gt);
        dones.push(dr);
    }
    let mut finished: Vec<bool> = case.progs.iter().map(|p| p.is_empty()).collect();
    let mut snaps: Vec<Snap> = vec![Vec::new(); nt];
    let mut obs = Vec::new();
    let mut oracle = Vec::new();
    let base_len = 0usize;
    let mut order: Vec<usize> = case.sched.clone();
    // drain phase: after the schedule, run every thread to completion, lowest id first
    let mut step_no = 0usize;
    let mut poisoned = false;
    let mut k = 0usize;
    let mut drain_tid = 0usize;
    loop {
        let tid = if k < order.len() {
            let t = order[k];
            k += 1;
            t
        } else {
            while drain_tid < nt && finished[drain_tid] {
                drain_tid += 1;
            }
            if drain_tid >= nt {
                break;
            }
            order.push(drain_tid);
            k += 1;
            drain_tid
        };
        if tid >= nt || finished[tid] {
            obs.push("SKIP".to_string());
            continue;
        }
        if grants[tid].send(()).is_err() {
            oracle.push(format!("C18 step {step_no}: thread {tid} died (panic)"));
            obs.push("DEAD".to_string());
            finished[tid] = true;
            continue;
        }
        match dones[tid].recv_timeout(Duration::from_secs(10)) {
            Ok((sn, fin)) => {
                snaps[tid] = sn;
                finished[tid] = fin;
            }
            Err(_) => {
                oracle.push(format!("C18 step {step_no}: thread {tid} did not complete its step within 10 s (deadlock)"));
                obs.push("STUCK".to_string());
                // the thread may hold the table lock for good: nothing that takes it (table_len, the joins below) can be
                // called again in this process; abandon the case like a poisoned table
                poisoned = true;
                break;
            }
        }
        let len = match std::panic::catch_unwind(hook::table_len) {
            Ok(l) => l - base_len,
            Err(_) => {
                oracle.push(format!(
                    "C18 step {step_no}: the intern table lock is poisoned (a thread panicked inside a SharedString operation)"
                ));
                obs.push("POISONED".to_string());
                poisoned = true;
                break;
            }
        };
        obs.push(obs_line(len, &snaps));
        // oracles of the property itself
        let mut by_content: BTreeMap<i64, usize> = BTreeMap::new();
        for (t, sn) in snaps.iter().enumerate() {
            for (slot, c, ptr, intact) in sn {
                if !intact {
                    oracle.push(format!("C18 step {step_no}: handle t{t}.s{slot} no longer exposes the bytes it was created from"));
                }
                if let Some(p) = by_content.insert(*c, *ptr) {
                    if p != *ptr {
                        oracle.push(format!(
                            "C18 step {step_no}: two live handles with equal contents c{c} use different buffers (deduplication lost)"
                        ));
                    }
                }
            }
        }
        step_no += 1;
    }
    if poisoned {
        // the process-wide table is unusable from here on: abandon the worker threads
        drop(grants);
        hook::set_yield_callback(None);
        return CaseOut { obs, oracle, poisoned: true };
    }
    for j in joins {
        if j.join().is_err() {
            oracle.push("C18: a thread panicked".to_string());
        }
    }
    let all_dropped = snaps.iter().all(|s| s.is_empty());
    let len = match std::panic::catch_unwind(hook::table_len) {
        Ok(l) => l,
        Err(_) => {
            oracle.push("C18 final: the intern table lock is poisoned (a thread panicked inside a SharedString operation)".to_string());
            hook::set_yield_callback(None);
            return CaseOut { obs, oracle, poisoned: true };
        }
    };
    obs.push(format!("final len={len}"));
    if all_dropped && len != 0 {
        oracle.push(format!("C18 final: every handle was dropped but the intern table still has {len} entries"));
    }
    hook::set_yield_callback(None);
    // leaked handles of this case (programs that do not drop everything) would pollute later cases:
    // such programs are generated only as the last step of a case file? No: we forbid them (see gen).
    CaseOut { obs, oracle, poisoned: false }
}

/// random programs: slot-linear, every handle dropped by its thread at the end
pub fn gen_case(rng: &mut Rng, nthreads: usize, max_ops: usize, alpha: u64) -> Case {
    let mut progs = Vec::new();
    let mut total_steps = 0usize;
    for _ in 0..nthreads {
        let mut ops = Vec::new();
        let mut held: Vec<u64> = Vec::new();
        let mut next_slot = 0u64;
        let n = 1 + rng.below(max_ops as u64) as usize;
        for _ in 0..n {
            match rng.below(10) {
                0..=3 => {
                    ops.push(IOp::New(rng.below(alpha), next_slot));
                    held.push(next_slot);
                    next_slot += 1;
                }
                4..=5 if !held.is_empty() => {
                    let s = *rng.pick(&held);
                    ops.push(IOp::Clone(s, next_slot));
                    held.push(next_slot);
                    next_slot += 1;
                }
                _ if !held.is_empty() => {
                    let i = rng.below(held.len() as u64) as usize;
                    ops.push(IOp::Drop(held.remove(i)));
                }
                _ => {
                    ops.push(IOp::New(rng.below(alpha), next_slot));
                    held.push(next_slot);
                    next_slot += 1;
                }
            }
        }
        while let Some(s) = held.pop() {
            ops.push(IOp::Drop(s));
        }
        total_steps += 2 * ops.len();
        progs.push(ops);
    }
    let sched = (0..total_steps).map(|_| rng.below(nthreads as u64) as usize).collect();
    Case { alpha, progs, sched }
}

/// all interleavings of fixed small programs: enumerated as schedules (sequences of thread ids)
pub fn enumerate_schedules(progs: &[Vec<IOp>], limit: usize) -> Vec<Vec<usize>> {
    // upper bound of steps per thread = 2 * ops (every drop may split in two); enumerate sequences in
    // which thread t appears at most that often, pruned by simulation on the implementation-independent
    // count only (SKIPs are harmless), so we enumerate multiset permutations of thread ids.
    let caps: Vec<usize> = progs
        .iter()
        .map(|p| p.iter().map(|o| if matches!(o, IOp::Drop(_)) { 2 } else { 1 }).sum())
        .collect();
    let mut out = Vec::new();
    let mut cur = Vec::new();
    fn rec(caps: &mut Vec<usize>, cur: &mut Vec<usize>, out: &mut Vec<Vec<usize>>, limit: usize) {
        if out.len() >= limit {
            return;
        }
        if caps.iter().all(|c| *c == 0) {
            out.push(cur.clone());
            return;
        }
        for t in 0..caps.len() {
            if caps[t] > 0 {
                caps[t] -= 1;
                cur.push(t);
                rec(caps, cur, out, limit);
                cur.pop();
                caps[t] += 1;
            }
        }
    }
    let mut caps2 = caps.clone();
    rec(&mut caps2, &mut cur, &mut out, limit);
    out
}

/// unscheduled soak: many threads hammering a small alphabet; checks contents and final emptiness
pub fn soak(seed: u64, threads: usize, ops: usize) -> Vec<String> {
    hook::set_yield_callback(None);
    let mut joins = Vec::new();
    let progress = std::sync::Arc::new(std::sync::atomic::AtomicU64::new(0));
    for t in 0..threads {
        let mut rng = Rng::new(seed.wrapping_mul(1000).wrapping_add(t as u64));
        let progress = progress.clone();
        joins.push(std::thread::spawn(move || -> Vec<String> {
            let mut bad = Vec::new();
            let mut held: Vec<(SharedString, u64)> = Vec::new();
            for _ in 0..ops {
                progress.fetch_add(1, std::sync::atomic::Ordering::Relaxed);
                match rng.below(3) {
                    0 => {
                        let c = rng.below(3);
                        held.push((SharedString::new(content_bytes(c)), c));
                    }
                    1 if !held.is_empty() => {
                        let (h, c) = &held[rng.below(held.len() as u64) as usize];
                        held.push((h.clone(), *c));
                    }
                    _ if !held.is_empty() => {
                        let i = rng.below(held.len() as u64) as usize;
                        held.swap_remove(i);
                    }
                    _ => {}
                }
                if let Some((h, c)) = held.last() {
                    if h.data() != content_bytes(*c).as_slice() {
                        bad.push("C18 soak: a handle exposes foreign bytes".to_string());
                    }
                }
                if held.len() > 64 {
                    held.truncate(32);
                }
            }
            bad
        }));
    }
    let mut out = Vec::new();
    // watchdog: the threads only ever block on the intern table; no operation completed anywhere for 20 s = deadlock.
    // Nothing that takes the table lock can be called after that, so the verdict is printed and the process ends.
    let (mut last, mut since) = (0u64, std::time::Instant::now());
    while !joins.iter().all(|j| j.is_finished()) {
        std::thread::sleep(Duration::from_millis(100));
        let now = progress.load(std::sync::atomic::Ordering::Relaxed);
        if now != last {
            last = now;
            since = std::time::Instant::now();
        } else if since.elapsed() > Duration::from_secs(20) {
            let blocked = joins.iter().filter(|j| !j.is_finished()).count();
            println!("C18 soak: no SharedString operation completed for 20 s with {blocked} of {threads} threads still running after {now} operations (deadlock)");
            println!("soak done violations=1");
            std::process::exit(0);
        }
    }
    for j in joins {
        match j.join() {
            Ok(b) => out.extend(b),
            Err(_) => out.push("C18 soak: a thread panicked".to_string()),
        }
    }
    let len = hook::table_len();
    if len != 0 {
        out.push(format!("C18 soak: all handles dropped but the intern table has {len} entries"));
    }
    // many distinct contents alive at once (the table grows through several capacities): each is interned once, and
    // interning the same bytes again while its handle is alive returns the SAME buffer
    {
        let n = 6000usize;
        let bytes = |i: usize| format!("live-{seed}-{i}").into_bytes();
        let held: Vec<SharedString> = (0..n).map(|i| SharedString::new(bytes(i))).collect();
        let l = hook::table_len();
        if l != n {
            out.push(format!("C18 soak: {n} distinct contents are alive (one handle each) and the intern table has {l} entries"));
        }
        let mut split = 0usize;
        for (i, h) in held.iter().enumerate() {
            let again = SharedString::new(bytes(i));
            if again.data().as_ptr() != h.data().as_ptr() {
                split += 1;
            }
        }
        if split > 0 {
            out.push(format!("C18 soak: with {n} distinct contents alive, interning {split} of them again returned a second buffer (deduplication lost)"));
        }
        drop(held);
        let l = hook::table_len();
        if l != 0 {
            out.push(format!("C18 soak: after {n} distinct contents were all dropped the intern table still has {l} entries"));
        }
    }
    // racing last releases: two threads drop the last two handles of one buffer at the same moment
    // (the window inside Arc's reference count, below the yield hook's granularity); afterwards the
    // table must be empty again
    let rounds = (ops / 5).max(1000);
    let start = std::sync::Arc::new(std::sync::atomic::AtomicUsize::new(0));
    let ready = std::sync::Arc::new(std::sync::atomic::AtomicUsize::new(0));
    let mut leaks = 0usize;
    for r in 0..rounds {
        let content: Vec<u8> = format!("race-{seed}-{r}").into_bytes();
        let a = SharedString::new(content);
        let b = a.clone();
        let s1 = start.clone();
        let r1 = ready.clone();
        let target = r + 1;
        let t = std::thread::spawn(move || {
            r1.store(target, std::sync::atomic::Ordering::Release);
            while s1.load(std::sync::atomic::Ordering::Acquire) < target {
                std::hint::spin_loop();
            }
            drop(b);
        });
        while ready.load(std::sync::atomic::Ordering::Acquire) < target {
            std::hint::spin_loop();
        }
        start.store(target, std::sync::atomic::Ordering::Release);
        drop(a);
        let _ = t.join();
        let l = hook::table_len();
        if l != 0 {
            leaks += 1;
            if leaks == 1 {
                out.push(format!(
                    "C18 soak: after two threads released the last two handles of one buffer concurrently (round {r}) the intern table still has {l} entries"
                ));
            }
            if leaks > 3 {
                break;
            }
        }
        if r >= 20000 && ops < 1_000_000 {
            break;
        }
    }
    out.extend(racing_interns(seed, 4, (ops / 10).clamp(2000, 200_000)));
    out.extend(value_semantics());
    out
}

/// "equal contents compare and hash equal", for independently created handles (not clones), the empty contents included;
/// unequal contents compare unequal; afterwards the table is empty
fn value_semantics() -> Vec<String> {
    use std::collections::hash_map::DefaultHasher;
    use std::hash::{Hash, Hasher};
    let h = |s: &SharedString| {
        let mut d = DefaultHasher::new();
        Hash::hash(s, &mut d);
        d.finish()
    };
    let mut out = Vec::new();
    let contents: Vec<Vec<u8>> = vec![vec![], vec![0], vec![0, 0], b"value-semantics".to_vec(), vec![0xff; 70_000]];
    for (i, c) in contents.iter().enumerate() {
        let a = SharedString::new(c.clone());
        let b = SharedString::new(c.clone());
        if a.data() != c.as_slice() || b.data() != c.as_slice() {
            out.push(format!("C18 soak: a handle created from {} bytes exposes other bytes", c.len()));
        }
        if a != b {
            out.push(format!("C18 soak: two handles created independently from the same {} bytes compare unequal", c.len()));
        }
        if h(&a) != h(&b) {
            out.push(format!("C18 soak: two handles created independently from the same {} bytes hash differently", c.len()));
        }
        if !c.is_empty() && a.data().as_ptr() != b.data().as_ptr() {
            out.push(format!("C18 soak: two live handles created from the same {} bytes do not share one buffer", c.len()));
        }
        for (j, c2) in contents.iter().enumerate() {
            if i != j {
                let o = SharedString::new(c2.clone());
                if a == o {
                    out.push(format!("C18 soak: handles with different contents ({} and {} bytes) compare equal", c.len(), c2.len()));
                }
            }
        }
    }
    let l = hook::table_len();
    if l != 0 {
        out.push(format!("C18 soak: after the value-semantics phase dropped every handle the intern table still has {l} entries"));
    }
    out
}

/// racing first interns: `threads` threads leave a spin barrier together and intern the same, not yet
/// live, contents; while all of them hold their handle the handles must share one buffer (the clause
/// "all live handles with equal contents share a single buffer"), and after all of them dropped it the
/// table must be empty.  This reaches a `new` whose look-up and insertion are not one critical section,
/// which the step scheduler cannot see when the second lock acquisition carries no yield hook.
fn racing_interns(seed: u64, threads: usize, rounds: usize) -> Vec<String> {
    use std::sync::atomic::{AtomicUsize, Ordering};
    use std::sync::Arc;
    let go = Arc::new(AtomicUsize::new(0)); // round that may start (1-based)
    let interned = Arc::new(AtomicUsize::new(0));
    let release = Arc::new(AtomicUsize::new(0)); // round whose handles may be dropped
    let dropped = Arc::new(AtomicUsize::new(0));
    let ptrs: Arc<Vec<AtomicUsize>> = Arc::new((0..threads).map(|_| AtomicUsize::new(0)).collect());
    let intact = Arc::new(AtomicUsize::new(0));
    let mut joins = Vec::new();
    for t in 0..threads {
        let (go, interned, release, dropped, ptrs, intact) = (go.clone(), interned.clone(), release.clone(), dropped.clone(), ptrs.clone(), intact.clone());
        joins.push(std::thread::spawn(move || {
            for r in 1..=rounds {
                while go.load(Ordering::Acquire) < r {
                    std::hint::spin_loop();
                }
                if go.load(Ordering::Acquire) == usize::MAX {
                    return;
                }
                let content: Vec<u8> = format!("intern-race-{seed}-{r}").into_bytes();
                let h = SharedString::new(content.clone());
                ptrs[t].store(h.data().as_ptr() as usize, Ordering::Release);
                if h.data() != content.as_slice() {
                    intact.fetch_add(1, Ordering::AcqRel);
                }
                interned.fetch_add(1, Ordering::AcqRel);
                while release.load(Ordering::Acquire) < r {
                    std::hint::spin_loop();
                }
                drop(h);
                dropped.fetch_add(1, Ordering::AcqRel);
            }
        }));
    }
    let mut out = Vec::new();
    let mut split = 0usize;
    let mut leaks = 0usize;
    for r in 1..=rounds {
        go.store(r, Ordering::Release);
        let t0 = std::time::Instant::now();
        let mut stuck = false;
        while interned.load(Ordering::Acquire) < r * threads {
            std::hint::spin_loop();
            if t0.elapsed() > Duration::from_secs(30) {
                stuck = true;
                break;
            }
        }
        if stuck {
            out.push(format!("C18 soak: concurrent interns of one contents did not complete within 30 s (round {r}): deadlock or panic"));
            go.store(usize::MAX, Ordering::Release);
            release.store(usize::MAX, Ordering::Release);
            return out;
        }
        let p0 = ptrs[0].load(Ordering::Acquire);
        let distinct = ptrs.iter().filter(|p| p.load(Ordering::Acquire) != p0).count();
        if distinct != 0 {
            split += 1;
            if split == 1 {
                out.push(format!(
                    "C18 soak: {threads} threads interned the same fresh contents concurrently (round {r}); while all handles were live {} of them did not share the first one's buffer",
                    distinct
                ));
            }
        }
        release.store(r, Ordering::Release);
        let t1 = std::time::Instant::now();
        while dropped.load(Ordering::Acquire) < r * threads {
            std::hint::spin_loop();
            if t1.elapsed() > Duration::from_secs(30) {
                out.push(format!("C18 soak: dropping concurrently interned handles did not complete within 30 s (round {r}): deadlock or panic"));
                go.store(usize::MAX, Ordering::Release);
                release.store(usize::MAX, Ordering::Release);
                return out;
            }
        }
        let l = hook::table_len();
        if l != 0 {
            leaks += 1;
            if leaks == 1 {
                out.push(format!("C18 soak: after {threads} concurrent interns of one contents were all dropped (round {r}) the intern table still has {l} entries"));
            }
        }
        if split > 3 || leaks > 3 {
            // let the workers run out quickly
            go.store(usize::MAX, Ordering::Release);
            release.store(usize::MAX, Ordering::Release);
            break;
        }
    }
    go.store(usize::MAX, Ordering::Release);
    release.store(usize::MAX, Ordering::Release);
    for j in joins {
        if j.join().is_err() {
            out.push("C18 soak: a thread panicked while interning concurrently".to_string());
        }
    }
    if intact.load(Ordering::Acquire) != 0 {
        out.push("C18 soak: a concurrently interned handle exposes foreign bytes".to_string());
    }
    out
}

pub fn cli(args: &[String]) -> bool {
    use crate::util::{arg_num, arg_val, read_cases};
    use std::io::Write;
    let cmd = args.get(1).map(|s| s.as_str()).unwrap_or("");
    match cmd {
        "sched-gen" => {
            let seed = arg_num(&args, "--seed", 1);
            let n = arg_num(&args, "--cases", 100);
            let out = arg_val(&args, "--out").expect("--out");
            let mut f = std::io::BufWriter::new(std::fs::File::create(out).unwrap());
            let mut rng = crate::rng::Rng::new(seed);
            if args.iter().any(|a| a == "--exhaustive") {
                // all interleavings of small fixed programs over a 2-letter alphabet
                let nthreads = arg_num(&args, "--threads", 2) as usize;
                let limit = arg_num(&args, "--limit", 4000) as usize;
                let mut k = 0;
                for pi in 0..n {
                    let mut crng = rng.fork();
                    let c = gen_case(&mut crng, nthreads, 2, 2);
                    for s in enumerate_schedules(&c.progs, limit) {
                        let cc = Case { alpha: c.alpha, progs: c.progs.clone(), sched: s };
                        writeln!(f, "case e{seed}-{pi}-{k}").unwrap();
                        for l in case_lines(&cc) {
                            writeln!(f, "{l}").unwrap();
                        }
                        writeln!(f, "end").unwrap();
                        k += 1;
                    }
                }
            } else {
                for k in 0..n {
                    let mut crng = rng.fork();
                    let nt = 2 + crng.below(2) as usize;
                    let c = gen_case(&mut crng, nt, arg_num(&args, "--max-ops", 4) as usize, 2);
                    writeln!(f, "case s{seed}-{k}").unwrap();
                    for l in case_lines(&c) {
                        writeln!(f, "{l}").unwrap();
                    }
                    writeln!(f, "end").unwrap();
                }
            }
        }
        "sched-run" => {
            let cases = read_cases(&args[2]);
            let mut obs = std::io::BufWriter::new(std::fs::File::create(&args[3]).unwrap());
            let mut orc = std::io::BufWriter::new(std::fs::File::create(&args[4]).unwrap());
            let mut stats: BTreeMap<String, u64> = BTreeMap::new();
            let mut distinct = std::collections::BTreeSet::new();
            for (id, lines) in &cases {
                let c = parse_case(lines);
                let r = run_case(&c);
                writeln!(obs, "case {id}").unwrap();
                for o in &r.obs {
                    writeln!(obs, "{o}").unwrap();
                }
                writeln!(obs, "end").unwrap();
                for o in &r.oracle {
                    writeln!(orc, "{id} {o}").unwrap();
                }
                if r.poisoned {
                    // nothing after this case can be trusted in this process
                    *stats.entry("aborted_after_poison".into()).or_insert(0) += 1;
                    break;
                }
                *stats.entry("steps".into()).or_insert(0) += r.obs.len() as u64;
                *stats.entry(format!("threads_{}", c.progs.len())).or_insert(0) += 1;
                let multi = c.progs.iter().filter(|p| !p.is_empty()).count() >= 2;
                if multi && distinct.insert(lines.join("\n")) {
                    *stats.entry("distinct_nontrivial".into()).or_insert(0) += 1;
                }
            }
            stats.insert("cases".into(), cases.len() as u64);
            let mut sf = std::fs::File::create(&args[5]).unwrap();
            writeln!(sf, "{}", serde_json::to_string(&stats).unwrap()).unwrap();
        }
        "sched-soak" => {
            let seed = arg_num(&args, "--seed", 1);
            let bad = soak(seed, arg_num(&args, "--threads", 16) as usize, arg_num(&args, "--ops", 100000) as usize);
            for b in &bad {
                println!("{b}");
            }
            println!("soak done violations={}", bad.len());
        }
        _ => return false,
    }
    true
}
