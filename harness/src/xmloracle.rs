//! xmloracle: implementation-side oracles of the xmlfile kind (C02 C05 C06 C07 C12 C15).  They look only at the real
//! crates' inputs and outputs, never at the Coq model.
use crate::rng::Rng;
use crate::xmlfile::*;
use rbx_dom_weak::WeakDom;
use rbx_types::*;
use std::collections::{BTreeMap, HashMap};

pub fn on_encode_failure(_id: &str, _f: &Forest, _msg: &str, _panic: bool, _out: &mut Vec<String>) {}

#[allow(clippy::too_many_arguments)]
pub fn on_round_trip(_id: &str, _f: &Forest, _dom: &WeakDom, _map: &HashMap<u64, Ref>, _roots: &[Ref], _text: &[u8], _d: &Dec, _enc: &str, _dec: &str,
    _stats: &mut BTreeMap<String, u64>, _out: &mut Vec<String>) {
}

#[allow(clippy::too_many_arguments)]
pub fn on_text(_id: &str, _lines: &[String], _opts: &[(String, String)], _text: &[u8], _d: &Dec, _dec: &str, _stats: &mut BTreeMap<String, u64>, _out: &mut Vec<String>) {}

pub fn migration_cases(_rng: &mut Rng, _n: u64) -> Vec<Vec<String>> {
    Vec::new()
}
