//! xmloracle: implementation-side oracles of the xmlfile kind (C02 C06 C07 C12 C15; the structural C05 clauses are
//! checked by tools/props.py with an independent XML parser on the `.texts` file).  They look only at the real crates'
//! inputs and outputs, never at the Coq model.  Line format: `<case> <Cxx> <key> <message>`; keys are stable words.
use crate::rng::Rng;
use crate::val::{self, RefCtx};
use crate::xmlfile::*;
use rbx_dom_weak::{InstanceBuilder, WeakDom};
use rbx_reflection::{PropertyKind, PropertySerialization};
use rbx_types::*;
use rbx_xml::verif::{find_canonical_property_descriptor, find_serialized_property_descriptor};
use std::collections::{BTreeMap, BTreeSet, HashMap};

fn bump(stats: &mut BTreeMap<String, u64>, k: &str) {
    *stats.entry(k.to_string()).or_insert(0) += 1;
}

fn xml_legal(s: &str) -> bool {
    s.chars().all(|c| matches!(c, '\u{9}' | '\u{a}' | '\u{d}' | '\u{20}'..='\u{d7ff}' | '\u{e000}'..='\u{fffd}' | '\u{10000}'..))
}

// ------------------------------------------------------------------------------------------ value helpers

/// every NaN replaced by the canonical quiet NaN (NaNs are compared as a class)
pub fn norm_nan(v: &Variant) -> Variant {
    let f = |x: f32| if x.is_nan() { f32::NAN } else { x };
    let d = |x: f64| if x.is_nan() { f64::NAN } else { x };
    let v3 = |a: &Vector3| Vector3::new(f(a.x), f(a.y), f(a.z));
    let v2 = |a: &Vector2| Vector2::new(f(a.x), f(a.y));
    let cf = |c: &CFrame| CFrame::new(v3(&c.position), Matrix3::new(v3(&c.orientation.x), v3(&c.orientation.y), v3(&c.orientation.z)));
    match v {
        Variant::Float32(x) => Variant::Float32(f(*x)),
        Variant::Float64(x) => Variant::Float64(d(*x)),
        Variant::CFrame(c) => Variant::CFrame(cf(c)),
        Variant::OptionalCFrame(Some(c)) => Variant::OptionalCFrame(Some(cf(c))),
        Variant::Color3(c) => Variant::Color3(Color3::new(f(c.r), f(c.g), f(c.b))),
        Variant::ColorSequence(s) => Variant::ColorSequence(ColorSequence {
            keypoints: s.keypoints.iter().map(|k| ColorSequenceKeypoint::new(f(k.time), Color3::new(f(k.color.r), f(k.color.g), f(k.color.b)))).collect(),
        }),
        Variant::NumberSequence(s) => {
            Variant::NumberSequence(NumberSequence { keypoints: s.keypoints.iter().map(|k| NumberSequenceKeypoint::new(f(k.time), f(k.value), f(k.envelope))).collect() })
        }
        Variant::NumberRange(r) => Variant::NumberRange(NumberRange::new(f(r.min), f(r.max))),
        Variant::PhysicalProperties(PhysicalProperties::Custom(p)) => Variant::PhysicalProperties(PhysicalProperties::Custom(CustomPhysicalProperties {
            density: f(p.density),
            friction: f(p.friction),
            elasticity: f(p.elasticity),
            friction_weight: f(p.friction_weight),
            elasticity_weight: f(p.elasticity_weight),
        })),
        Variant::Ray(r) => Variant::Ray(Ray::new(v3(&r.origin), v3(&r.direction))),
        Variant::Rect(r) => Variant::Rect(Rect::new(v2(&r.min), v2(&r.max))),
        Variant::UDim(u) => Variant::UDim(UDim::new(f(u.scale), u.offset)),
        Variant::UDim2(u) => Variant::UDim2(UDim2::new(UDim::new(f(u.x.scale), u.x.offset), UDim::new(f(u.y.scale), u.y.offset))),
        Variant::Vector2(a) => Variant::Vector2(v2(a)),
        Variant::Vector3(a) => Variant::Vector3(v3(a)),
        other => other.clone(),
    }
}

fn show(v: &Variant, labels: &HashMap<Ref, u64>) -> String {
    let mut ctx = RefCtx::new();
    for (r, l) in labels {
        ctx.bind(*l, *r);
    }
    let v2 = match v {
        Variant::Ref(r) if r.is_some() && !labels.contains_key(r) => Variant::Ref(Ref::none()),
        // MaterialColors are compared by the colour of every material (an absent entry means the default colour;
        // the codec always writes all 21 entries): the blob is exactly that table
        Variant::MaterialColors(m) => Variant::BinaryString(m.encode().into()),
        other => other.clone(),
    };
    let s = val::value_string(&norm_nan(&v2), &mut ctx);
    if s.len() > 160 {
        let cut = (0..=160).rev().find(|i| s.is_char_boundary(*i)).unwrap_or(0);
        format!("{}...({} chars)", &s[..cut], s.len())
    } else {
        s
    }
}

fn has_short_sequence(v: &Variant) -> bool {
    match v {
        Variant::ColorSequence(s) => s.keypoints.len() < 2,
        Variant::NumberSequence(s) => s.keypoints.len() < 2,
        _ => false,
    }
}

fn strings_legal(v: &Variant) -> bool {
    match v {
        Variant::String(s) => xml_legal(s),
        Variant::ContentId(c) => xml_legal(c.as_str()),
        Variant::Content(c) => match c.value() {
            ContentType::Uri(u) => xml_legal(u),
            _ => true,
        },
        Variant::Font(f) => xml_legal(&f.family) && f.cached_face_id.as_ref().map(|c| xml_legal(c)).unwrap_or(true),
        _ => true,
    }
}

/// types the README marks as implemented for rbx_xml (plus Tags/Attributes/MaterialColors, named by the property text)
fn type_in_scope(v: &Variant) -> bool {
    match v {
        Variant::Region3(_) | Variant::Region3int16(_) | Variant::EnumItem(_) => false,
        Variant::Attributes(a) => {
            let mut buf = Vec::new();
            a.to_writer(&mut buf).is_ok()
        }
        _ => true,
    }
}

fn unknown_norm(v: &Variant) -> Variant {
    match v {
        Variant::BrickColor(b) => Variant::Int32(*b as u16 as i32),
        Variant::Tags(t) => Variant::BinaryString(t.encode().into()),
        Variant::Attributes(a) => {
            let mut buf = Vec::new();
            let _ = a.to_writer(&mut buf);
            Variant::BinaryString(buf.into())
        }
        Variant::MaterialColors(m) => Variant::BinaryString(m.encode().into()),
        other => other.clone(),
    }
}

// ------------------------------------------------------------------------------------------ C02

/// pre-order list of the written instances (labels), or None if the root selection is outside the quantifier
fn written_order(f: &Forest) -> Option<Vec<u64>> {
    let labels: BTreeSet<u64> = f.nodes.iter().map(|n| n.label).collect();
    let parent: HashMap<u64, u64> = f.nodes.iter().map(|n| (n.label, n.parent)).collect();
    let mut seen = BTreeSet::new();
    for r in &f.roots {
        if !labels.contains(r) || !seen.insert(*r) {
            return None;
        }
    }
    for r in &f.roots {
        let mut p = parent[r];
        while p != 0 {
            if seen.contains(&p) {
                return None; // a root below another root
            }
            p = parent[&p];
        }
    }
    let mut order = Vec::new();
    fn walk(f: &Forest, l: u64, out: &mut Vec<u64>) {
        out.push(l);
        for n in f.nodes.iter().filter(|n| n.parent == l) {
            walk(f, n.label, out);
        }
    }
    for r in &f.roots {
        walk(f, *r, &mut order);
    }
    Some(order)
}

pub fn decoded_order(dom: &WeakDom) -> Vec<Ref> {
    let mut order = Vec::new();
    let mut stack: Vec<Ref> = dom.root().children().iter().rev().copied().collect();
    while let Some(r) = stack.pop() {
        order.push(r);
        for c in dom.get_by_ref(r).unwrap().children().iter().rev() {
            stack.push(*c);
        }
    }
    order
}

pub fn on_encode_failure(id: &str, f: &Forest, msg: &str, panic: bool, out: &mut Vec<String>) {
    let enc = f.opt("enc").unwrap_or("IgnoreUnknown");
    let dec = f.opt("dec").unwrap_or("IgnoreUnknown");
    if !retained(enc, dec) || scope_reason(f).is_some() {
        return;
    }
    if !panic && encode_error_class(msg) == "convert" && enc != "NoReflection" && has_type_mismatch(f) {
        return;
    }
    let has_object = f.nodes.iter().any(|n| n.props.iter().any(|(_, v)| matches!(v, Variant::Content(c) if matches!(c.value(), ContentType::Object(_)))));
    let key = if panic && has_object { "content-object" } else if panic { "enc-panic" } else { "enc-fail" };
    let m: String = msg.chars().take(200).collect();
    out.push(format!("{id} C02 {key} writing a DOM inside the quantifier failed: {m}"));
    out.push(format!("{id} C05 {key} the serializer produced no document for a DOM inside the quantifier: {m}"));
}

fn retained(enc: &str, dec: &str) -> bool {
    matches!((enc, dec), ("IgnoreUnknown", "IgnoreUnknown") | ("WriteUnknown", "ReadUnknown") | ("NoReflection", "NoReflection"))
}

/// a database-known property carries a value that is not of the type it is serialized with (the property text
/// quantifies over values of the declared type; Color3 in a byte-colour property is the listed exception)
fn has_type_mismatch(f: &Forest) -> bool {
    f.nodes.iter().any(|n| {
        n.props.iter().any(|(k, v)| match find_serialized_property_descriptor(&n.class, k, db()) {
            Some(ser) => {
                let t = data_type_vt(&ser.data_type);
                v.ty() != t && !(v.ty() == VariantType::Color3 && t == VariantType::Color3uint8)
            }
            None => false,
        })
    })
}

fn tags_lossy(v: &Variant) -> bool {
    matches!(v, Variant::Tags(t) if t.iter().any(|s| s.is_empty() || s.contains('\0')))
}

/// why the DOM is outside the quantifier of C02 (None = inside)
fn scope_reason(f: &Forest) -> Option<&'static str> {
    let order = match written_order(f) {
        Some(o) => o,
        None => return Some("roots"),
    };
    let set: BTreeSet<u64> = order.iter().copied().collect();
    for n in f.nodes.iter().filter(|n| set.contains(&n.label)) {
        if !xml_legal(&n.name) || !xml_legal(&n.class) {
            return Some("illegal-char");
        }
        for (k, v) in &n.props {
            if k == "Name" {
                return Some("name-prop"); // a property map entry that collides with the instance name
            }
            if !xml_legal(k) || !strings_legal(v) {
                return Some("illegal-char");
            }
            if has_short_sequence(v) {
                return Some("short-sequence");
            }
            if !type_in_scope(v) {
                return Some("type");
            }
        }
    }
    None
}

#[allow(clippy::too_many_arguments)]
pub fn on_round_trip(id: &str, f: &Forest, dom: &WeakDom, map: &HashMap<u64, Ref>, roots: &[Ref], text: &[u8], d: &Dec, enc: &str, dec: &str,
    stats: &mut BTreeMap<String, u64>, out: &mut Vec<String>) {
    // ---- C12: every DOM the reader returns
    if let Dec::Ok(dd) = d {
        c12_check(id, dd, text, dec, out);
        c12_preserved(id, f, dd, out);
    }
    if !retained(enc, dec) {
        return;
    }
    if let Some(r) = scope_reason(f) {
        bump(stats, &format!("c02_skipped_{r}"));
        return;
    }
    bump(stats, "c02_checked");
    let order = written_order(f).unwrap();
    let dd = match d {
        Dec::Ok(dd) => dd,
        Dec::Err(m) => {
            let neg = f.nodes.iter().any(|n| n.props.iter().any(|(_, v)| matches!(v, Variant::UniqueId(u) if u.random() < 0)));
            let class = decode_error_class(m);
            if (class == "convert" || class == "migration") && enc != "NoReflection" && has_type_mismatch(f) {
                return;
            }
            let key = if neg && class == "type" {
                "uniqueid-negative"
            } else if class == "migration" {
                // the recorded class: an Enum.Font item above 45 somewhere in the written DOM; any other migration error is unlisted
                if f.nodes.iter().any(|n| n.props.iter().any(|(k, v)| k == "Font" && crate::binoracle::recorded_unmigratable(v))) {
                    "unmigratable"
                } else {
                    "migration-fails"
                }
            } else {
                "dec-fail"
            };
            let m: String = m.chars().take(200).collect();
            out.push(format!("{id} C02 {key} reading back the written document failed: {m}"));
            return;
        }
        Dec::Panic(m) => {
            out.push(format!("{id} C02 dec-panic reading back the written document panicked: {m}"));
            return;
        }
    };
    c02_compare(id, f, &order, dd, enc, out);
    if enc == "IgnoreUnknown" {
        c07_check(id, f, dom, map, roots, text, dd, stats, out);
        crate::xmlbin::c06_check(id, f, dom, roots, dd, stats, out);
    }
}

/// what a decoded instance is expected to look like: `props[name] = None` means "do not check this name"
pub struct ExpNode {
    pub parent: u64, // pre-order index + 1 of the parent, 0 = root level
    pub class: String,
    pub name: Option<String>,
    pub name_key: &'static str,
    pub props: BTreeMap<String, Option<Variant>>, // Ref values: Ref of the decoded instance (already translated)
}

/// compares a decoded DOM with the expectation; lines are `<id> <pid> <key> <message>`
pub fn cmp_dom(id: &str, pid: &str, exp: &[ExpNode], dd: &WeakDom, dorder: &[Ref], out: &mut Vec<String>) {
    let dlabels: HashMap<Ref, u64> = dorder.iter().enumerate().map(|(i, r)| (*r, i as u64 + 1)).collect();
    for (i, n) in exp.iter().enumerate() {
        let di = dd.get_by_ref(dorder[i]).unwrap();
        let got_parent = dlabels.get(&di.parent()).copied().unwrap_or(0);
        if n.parent != got_parent {
            out.push(format!("{id} {pid} tree instance #{} has parent #{got_parent}, expected #{}", i + 1, n.parent));
            return;
        }
        if di.class.as_str() != n.class {
            out.push(format!("{id} {pid} tree instance #{} has class {:?}, expected {:?}", i + 1, di.class.as_str(), n.class));
            return;
        }
        if let Some(name) = &n.name {
            if &di.name != name {
                out.push(format!("{id} {pid} {} instance #{} of class {:?} is named {:?}, expected {:?}", n.name_key, i + 1, n.class, di.name, name));
            }
        }
        for (name, e) in &n.props {
            let got = di.properties.get(&name.as_str().into());
            match (e, got) {
                (None, _) => {}
                (Some(e), None) => out.push(format!("{id} {pid} prop-missing {}.{name} = {} is absent from the decoded DOM", n.class, show(e, &dlabels))),
                (Some(e), Some(g)) => {
                    let (a, b) = (show(e, &dlabels), show(g, &dlabels));
                    if a != b {
                        let key = if tags_lossy(e) { "tags-empty-or-nul" } else { "prop-value" };
                        out.push(format!("{id} {pid} {key} {}.{name} should be {a}, decoded as {b}", n.class));
                    }
                }
            }
        }
        for (k, g) in di.properties.iter() {
            if !n.props.contains_key(k.as_str()) {
                let unknown = find_canonical_property_descriptor(&n.class, k.as_str(), db()).is_none();
                let key = if unknown && matches!(g, Variant::Ref(_) | Variant::SharedString(_)) { "ignored-prop-resurrected" } else { "prop-extra" };
                out.push(format!("{id} {pid} {key} {}.{} = {} appears in the decoded DOM", n.class, k.as_str(), show(g, &dlabels)));
            }
        }
    }
}

fn c02_compare(id: &str, f: &Forest, order: &[u64], dd: &WeakDom, enc: &str, out: &mut Vec<String>) {
    let dorder = decoded_order(dd);
    if dorder.len() != order.len() {
        out.push(format!("{id} C02 tree {} instances written, {} read back", order.len(), dorder.len()));
        return;
    }
    let node: HashMap<u64, &Node> = f.nodes.iter().map(|n| (n.label, n)).collect();
    let pos: HashMap<u64, usize> = order.iter().enumerate().map(|(i, l)| (*l, i)).collect();
    let roots: BTreeSet<u64> = f.roots.iter().copied().collect();
    let reflect = enc != "NoReflection";
    let write_unknown = enc != "IgnoreUnknown";
    let mut exp_nodes = Vec::new();
    for l in order.iter() {
        let n = node[l];
        let has_name_prop = n.props.iter().any(|(k, _)| k == "Name");
        let class_known = find_canonical_property_descriptor(&n.class, "Name", db()).is_some();
        let mut expected: BTreeMap<String, Option<Variant>> = BTreeMap::new(); // None = do not check this name
        let mut clash: BTreeSet<String> = BTreeSet::new();
        let mut put = |expected: &mut BTreeMap<String, Option<Variant>>, name: String, v: Option<Variant>| {
            if expected.contains_key(&name) {
                clash.insert(name);
            } else {
                expected.insert(name, v);
            }
        };
        for (k, v) in &n.props {
            if k == "Name" {
                put(&mut expected, "Name".into(), None);
                continue;
            }
            let vref = match v {
                Variant::Ref(r) => {
                    let target = (1..=(f.nodes.len() as u64 + 64)).find(|x| val::synthetic_ref(*x) == *r);
                    match target.and_then(|t| pos.get(&t)) {
                        Some(p) => Variant::Ref(dorder[*p]),
                        None => Variant::Ref(Ref::none()),
                    }
                }
                other => other.clone(),
            };
            let descs = if reflect {
                find_serialized_property_descriptor(&n.class, k, db()).map(|s| (find_canonical_property_descriptor(&n.class, k, db()).unwrap(), s))
            } else {
                None
            };
            match descs {
                None => {
                    if write_unknown {
                        put(&mut expected, k.clone(), Some(unknown_norm(&vref)));
                    }
                }
                Some((_canon, ser)) => {
                    if let PropertyKind::Canonical { serialization: PropertySerialization::Migrate(m) } = &ser.kind {
                        put(&mut expected, ser.name.to_string(), None);
                        put(&mut expected, m.new_property_name.clone(), None);
                        continue;
                    }
                    let ser_ty = data_type_vt(&ser.data_type);
                    let back = find_canonical_property_descriptor(&n.class, &ser.name, db());
                    let back = match back {
                        Some(b) => b,
                        None => {
                            out.push(format!("{id} C02 prop-missing {}.{k} is written under the name {:?} which the reader does not know", n.class, ser.name));
                            continue;
                        }
                    };
                    let back_ty = data_type_vt(&back.data_type);
                    if is_migrate(back) {
                        put(&mut expected, back.name.to_string(), None);
                        continue;
                    }
                    let exp = if vref.ty() == ser_ty {
                        if ser_ty == back_ty || !converts(ser_ty, back_ty) { Some(vref.clone()) } else { None }
                    } else if let (Variant::Color3(c), VariantType::Color3uint8) = (&vref, ser_ty) {
                        Some(Variant::Color3uint8(Color3uint8::from(*c)))
                    } else {
                        None
                    };
                    put(&mut expected, back.name.to_string(), exp);
                }
            }
        }
        for c in &clash {
            expected.insert(c.clone(), None);
        }
        exp_nodes.push(ExpNode {
            parent: if roots.contains(l) { 0 } else { pos[&n.parent] as u64 + 1 },
            class: n.class.clone(),
            name: if has_name_prop { None } else { Some(n.name.clone()) },
            name_key: if reflect && !write_unknown && !class_known { "name-lost-unknown-class" } else { "name" },
            props: expected,
        });
    }
    cmp_dom(id, "C02", &exp_nodes, dd, &dorder, out);
}

/// conversion.rs has an arm from `from` to `to`
fn converts(from: VariantType, to: VariantType) -> bool {
    matches!(
        (from, to),
        (VariantType::Int32, VariantType::Int64)
            | (VariantType::Float32, VariantType::Float64)
            | (VariantType::Int32, VariantType::BrickColor)
            | (VariantType::Color3, VariantType::Color3uint8)
            | (VariantType::BinaryString, VariantType::Tags)
            | (VariantType::BinaryString, VariantType::Attributes)
            | (VariantType::BinaryString, VariantType::MaterialColors)
            | (VariantType::EnumItem, VariantType::Enum)
            | (VariantType::Content, VariantType::ContentId)
    )
}

// ------------------------------------------------------------------------------------------ C12

pub fn c12_check(id: &str, dd: &WeakDom, text: &[u8], dec: &str, out: &mut Vec<String>) {
    let mut seen: HashMap<UniqueId, Ref> = HashMap::new();
    let mut first: Option<UniqueId> = None;
    for r in decoded_order(dd) {
        if let Some(Variant::UniqueId(u)) = dd.get_by_ref(r).unwrap().properties.get(&"UniqueId".into()) {
            first.get_or_insert(*u);
            if seen.insert(*u, r).is_some() {
                out.push(format!("{id} C12 dup-uniqueid two instances of the DOM returned by rbx_xml::from_reader hold UniqueId {u}"));
                return;
            }
        }
    }
    // the bookkeeping of the returned DOM must know the ids its instances hold: inserting a further instance that
    // carries one of them has to regenerate it (probe on a second decode of the same text, which we may mutate)
    if let Some(u) = first {
        if let Dec::Ok(mut copy) = decode(text, dec_behavior(dec)) {
            let root = copy.root_ref();
            let r = copy.insert(root, InstanceBuilder::new("Folder").with_property("UniqueId", Variant::UniqueId(u)));
            if copy.get_unique_id(r) == Some(u) {
                out.push(format!("{id} C12 dup-uniqueid an instance inserted into the DOM returned by rbx_xml::from_reader kept UniqueId {u} although a decoded instance holds it"));
            }
        }
    }
}

/// "and is otherwise preserved exactly": when the written instances hold pairwise distinct ids nothing collides, so
/// every id the decoded DOM holds must be the id its source instance held (instances matched by document order)
fn c12_preserved(id: &str, f: &Forest, dd: &WeakDom, out: &mut Vec<String>) {
    let Some(order) = written_order(f) else { return };
    let got = decoded_order(dd);
    if got.len() != order.len() {
        return;
    }
    let src: Vec<Option<UniqueId>> = order
        .iter()
        .map(|l| f.nodes.iter().find(|n| n.label == *l).and_then(|n| n.props.iter().find(|(k, _)| k == "UniqueId").and_then(|(_, v)| if let Variant::UniqueId(u) = v { Some(*u) } else { None })))
        .collect();
    let mut distinct = std::collections::HashSet::new();
    if !src.iter().flatten().all(|u| distinct.insert(*u)) {
        return;
    }
    for (k, r) in got.iter().enumerate() {
        if let (Some(want), Some(Variant::UniqueId(have))) = (src[k], dd.get_by_ref(*r).unwrap().properties.get(&"UniqueId".into())) {
            if *have != want {
                out.push(format!("{id} C12 uid-not-preserved the instance written with UniqueId {want} (no other written instance holds it) is decoded by rbx_xml holding {have}"));
                return;
            }
        }
    }
}

// ------------------------------------------------------------------------------------------ C07 (XML part)

#[allow(clippy::too_many_arguments)]
fn c07_check(id: &str, f: &Forest, _dom: &WeakDom, _map: &HashMap<u64, Ref>, _roots: &[Ref], text: &[u8], dd: &WeakDom, stats: &mut BTreeMap<String, u64>, out: &mut Vec<String>) {
    bump(stats, "c07_checked");
    // the same logical tree built again: other Ref values, other property insertion order
    let mut rng = Rng::new(text.len() as u64 ^ 0x5eed);
    for round in 0..2 {
        let (dom2, map2) = build_dom(f, Some(&mut rng));
        let roots2: Vec<Ref> = f.roots.iter().map(|l| map2[l]).collect();
        match encode(&dom2, &roots2, enc_behavior("IgnoreUnknown")) {
            Enc::Ok(t2) if t2 == text => {}
            Enc::Ok(_) => {
                out.push(format!("{id} C07 xml-nondeterministic rebuilding the same tree (round {round}) gave different XML text"));
                return;
            }
            _ => {
                out.push(format!("{id} C07 xml-nondeterministic rebuilding the same tree (round {round}) failed to serialize"));
                return;
            }
        }
    }
    // load/save is a fixed point after the first save
    let kids: Vec<Ref> = dd.root().children().to_vec();
    let t2 = match encode(dd, &kids, enc_behavior("IgnoreUnknown")) {
        Enc::Ok(t) => t,
        Enc::Err(m) => {
            out.push(format!("{id} C07 xml-resave saving the DOM that was just loaded failed: {}", m.chars().take(160).collect::<String>()));
            return;
        }
        Enc::Panic(m) => {
            out.push(format!("{id} C07 xml-resave saving the DOM that was just loaded panicked: {}", m.chars().take(160).collect::<String>()));
            return;
        }
    };
    let d3 = match decode(&t2, dec_behavior("IgnoreUnknown")) {
        Dec::Ok(d) => d,
        _ => {
            out.push(format!("{id} C07 xml-resave the re-saved document does not load"));
            return;
        }
    };
    let kids3: Vec<Ref> = d3.root().children().to_vec();
    match encode(&d3, &kids3, enc_behavior("IgnoreUnknown")) {
        Enc::Ok(t3) if t3 == t2 => {}
        Enc::Ok(t3) => {
            let a = String::from_utf8_lossy(&t2).to_string();
            let b = String::from_utf8_lossy(&t3).to_string();
            let line = a.lines().zip(b.lines()).position(|(x, y)| x != y).unwrap_or(0);
            out.push(format!(
                "{id} C07 xml-resave-not-fixed-point save/load/save differs from the first re-save at line {}: {:?} vs {:?}",
                line + 1,
                a.lines().nth(line).unwrap_or("").chars().take(80).collect::<String>(),
                b.lines().nth(line).unwrap_or("").chars().take(80).collect::<String>()
            ));
        }
        _ => out.push(format!("{id} C07 xml-resave the third save failed")),
    }
}

// ------------------------------------------------------------------------------------------ text cases

#[allow(clippy::too_many_arguments)]
pub fn on_text(id: &str, lines: &[String], opts: &[(String, String)], text: &[u8], d: &Dec, dec: &str, stats: &mut BTreeMap<String, u64>, out: &mut Vec<String>) {
    if let Dec::Ok(dd) = d {
        c12_check(id, dd, text, dec, out);
    }
    let stream = opts.iter().find(|(k, _)| k == "stream").map(|(_, v)| v.as_str()).unwrap_or("");
    if stream == "foreign" {
        crate::xmlspecgen::check_foreign(id, lines, d, dec, stats, out);
    }
    if stream == "mig" {
        crate::xmlmig::check_read_path(id, lines, opts, d, stats, out);
    }
}

pub fn migration_cases(rng: &mut Rng, n: u64) -> Vec<Vec<String>> {
    crate::xmlmig::cases(rng, n)
}
