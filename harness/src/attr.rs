//! attr: attribute blobs (`rbx_types::Attributes::{to_writer, from_reader}`) — property C14.
//!
//! Case kinds (one per `case … end` block):
//!   map <k> / e <name-hex> <value tokens> (k lines, in BTreeMap order)   an attribute map
//!   bytes <hex>                                                        a byte string to decode
//!   bricksweep                                                         every u16 as a BrickColor attribute
//!   vec3 x y z | rot <9 f32> | fromid n                                rotation-id primitives (f32 bit patterns)
//! Observations (compared line by line with `modelrun attr`):
//!   map:    `enc OK <hex>` | `enc ERR <code>`, then (if OK) `dec <result>` for the decode of those bytes
//!   bytes:  `dec <result>`      with <result> = `OK <k> (name value){k}` | `ERR <code>` | `PANIC` | `ABORT`
//!   bricksweep: `bricks <numbers accepted>`
//!   vec3: `nid <id>|none`   rot: `rid <id>|none`   fromid: `mat <9 f32>`|`none`
//! Error codes (hex; the same numbers as coq/Model/Attr.v):
//!   1 InvalidLength  2 NoKey  3 KeyBadUnicode  4 NoValueType  500+id InvalidValueType(id)
//!   6 UnsupportedVariantType (reader)  700000000+n InvalidBrickColor(n)  8 Io (EOF inside CFrame/Font/EnumItem)
//!   9 Utf8 (EnumItem type name)  a00+id bad rotation id  b FontBadUnicode family  c FontBadUnicode cached_face_id
//!   100+k ReadType(READ_TYPES[k])   200+t UnsupportedVariantType(t) from the writer (t = VariantType discriminant)
//! Oracle lines (`<case> C14 <message>`) are computed on the implementation alone.
use crate::rng::Rng;
use crate::util::{arg_num, arg_val, has_flag, read_cases};
use crate::val::{self, hex, unhex, RefCtx, Toks};
use rbx_types::*;
use std::collections::{BTreeMap, BTreeSet};
use std::io::Write;
use std::panic::{catch_unwind, AssertUnwindSafe};

pub const READ_TYPES: [&str; 27] = [
    "BrickColor",
    "bool",
    "Color3",
    "ColorSequence length",
    "ColorSequenceKeypoint envelope",
    "ColorSequenceKeypoint time",
    "ColorSequenceKeypoint color",
    "int32",
    "float32",
    "float64",
    "NumberRange min",
    "NumberRange max",
    "NumberSequence length",
    "NumberSequence envelope",
    "NumberSequence time",
    "NumberSequence value",
    "Rect min",
    "Rect max",
    "string",
    "UDim",
    "UDim2 X",
    "UDim2 Y",
    "Vector2 X",
    "Vector2 Y",
    "Vector3 X",
    "Vector3 Y",
    "Vector3 Z",
];

/// the 19 Variant types the attribute writer supports
pub const SUPPORTED: [VariantType; 19] = [
    VariantType::BinaryString,
    VariantType::String,
    VariantType::Bool,
    VariantType::Int32,
    VariantType::Float32,
    VariantType::Float64,
    VariantType::UDim,
    VariantType::UDim2,
    VariantType::BrickColor,
    VariantType::Color3,
    VariantType::Vector2,
    VariantType::Vector3,
    VariantType::CFrame,
    VariantType::EnumItem,
    VariantType::NumberSequence,
    VariantType::ColorSequence,
    VariantType::NumberRange,
    VariantType::Rect,
    VariantType::Font,
];

/// error class of an `rbx_types::Error` coming out of the attribute codec (the enum is private; its
/// `Display` text identifies the variant)
pub fn err_code(e: &Error) -> u64 {
    let s = e.to_string();
    let num_after = |p: &str| -> Option<u64> { s.strip_prefix(p).and_then(|r| r.trim().parse::<u64>().ok()) };
    if s == "missing attribute list length" {
        1
    } else if s == "missing attribute key name" {
        2
    } else if s == "attribute key contained invalid UTF-8" {
        3
    } else if s == "missing attribute value type" {
        4
    } else if let Some(id) = num_after("invalid value type:") {
        0x500 + id
    } else if let Some(name) = s.strip_suffix(" values are not supported in attributes") {
        match val::vtype_index_by_name(name) {
            Some(t) => 0x200 + t as u64,
            None => 0xFFF1,
        }
    } else if let Some(n) = num_after("invalid BrickColor value:") {
        0x7_0000_0000 + n
    } else if let Some(id) = num_after("invalid rotation ID:") {
        0xA00 + id
    } else if let Some(w) = s.strip_prefix("couldn't read bytes to deserialize ") {
        match READ_TYPES.iter().position(|x| *x == w) {
            Some(k) => 0x100 + k as u64,
            None => 0xFFF2,
        }
    } else if s == "font contained invalid UTF-8 in family" {
        0xB
    } else if s == "font contained invalid UTF-8 in cached_face_id" {
        0xC
    } else if s.starts_with("invalid utf-8 sequence") || s.starts_with("incomplete utf-8 byte sequence") {
        9
    } else if s == "failed to fill whole buffer" {
        8
    } else {
        0xFFF0
    }
}

// ------------------------------------------------------------------------------------------ running

pub enum Dec {
    Ok(Attributes),
    Err(u64),
    Panic,
    Abort,
}

pub fn decode(bytes: &[u8]) -> Dec {
    match catch_unwind(AssertUnwindSafe(|| Attributes::from_reader(bytes))) {
        Ok(Ok(a)) => Dec::Ok(a),
        Ok(Err(e)) => Dec::Err(err_code(&e)),
        Err(_) => Dec::Panic,
    }
}

pub fn dec_string(d: &Dec) -> String {
    match d {
        Dec::Ok(a) => {
            let mut out = vec!["OK".to_string()];
            val::attrs_to_tokens(a, &mut out, &mut RefCtx::new());
            out.join(" ")
        }
        Dec::Err(c) => format!("ERR {c:x}"),
        Dec::Panic => "PANIC".to_string(),
        Dec::Abort => "ABORT".to_string(),
    }
}

pub fn encode(a: &Attributes) -> Result<Result<Vec<u8>, u64>, ()> {
    catch_unwind(AssertUnwindSafe(|| {
        let mut buf = Vec::new();
        match a.to_writer(&mut buf) {
            Ok(()) => Ok(buf),
            Err(e) => Err(err_code(&e)),
        }
    }))
    .map_err(|_| ())
}

fn parse_map(lines: &[String]) -> Result<Attributes, String> {
    let mut a = Attributes::new();
    let mut ctx = RefCtx::new();
    let mut declared = None;
    let mut count = 0;
    for l in lines {
        let mut t = Toks::new(l);
        match t.word()? {
            "map" => declared = Some(t.usize()?),
            "e" => {
                let name = t.utf8()?;
                let v = val::parse(&mut t, &mut ctx)?;
                if !t.at_end() {
                    return Err("trailing tokens after an entry".into());
                }
                a.insert(name, v);
                count += 1;
            }
            w => return Err(format!("unknown line `{w}` in a map case")),
        }
    }
    if declared != Some(count) || a.len() != count {
        return Err(format!("map case declares {declared:?} entries, has {count} lines / {} distinct names", a.len()));
    }
    Ok(a)
}

fn map_lines(a: &Attributes) -> Vec<String> {
    let mut ctx = RefCtx::new();
    let mut out = vec![format!("map {:x}", a.len())];
    for (k, v) in a.iter() {
        out.push(format!("e {} {}", hex(k.as_bytes()), val::value_string(v, &mut ctx)));
    }
    out
}

fn f32_within_eps(a: f32, b: f32) -> bool {
    // exact in f64: both are f32 values
    ((a as f64) - (b as f64)).abs() <= f32::EPSILON as f64
}

/// the permitted normalisation of the round trip, entry by entry; returns the oracle messages
fn compare_roundtrip(input: &Attributes, output: &Attributes, what: &str) -> Vec<String> {
    let mut bad = Vec::new();
    let names_in: Vec<&String> = input.iter().map(|(k, _)| k).collect();
    let names_out: Vec<&String> = output.iter().map(|(k, _)| k).collect();
    if names_in != names_out {
        bad.push(format!("{what}: the attribute names differ after the round trip ({} in, {} out)", names_in.len(), names_out.len()));
        return bad;
    }
    let ids = val::rotation_ids();
    for ((name, vin), (_, vout)) in input.iter().zip(output.iter()) {
        let mut ctx = RefCtx::new();
        let expect: Variant = match vin {
            Variant::String(s) => Variant::BinaryString(s.as_bytes().to_vec().into()),
            Variant::Font(f) => {
                let mut f = f.clone();
                if f.cached_face_id.as_deref() == Some("") {
                    f.cached_face_id = None;
                }
                Variant::Font(f)
            }
            Variant::CFrame(cin) => {
                // position bit-exact; the orientation may only change to a basic rotation whose every
                // entry is within f32::EPSILON of the original entry
                if let Variant::CFrame(cout) = vout {
                    let ein = val::mat_entries(&cin.orientation);
                    let eout = val::mat_entries(&cout.orientation);
                    let same_bits = (0..9).all(|k| ein[k / 3][k % 3].to_bits() == eout[k / 3][k % 3].to_bits());
                    if same_bits {
                        Variant::CFrame(*cin)
                    } else {
                        let is_basis = ids.iter().any(|id| {
                            let b = val::mat_entries(&Matrix3::from_basic_rotation_id(*id).unwrap());
                            (0..9).all(|k| b[k / 3][k % 3].to_bits() == eout[k / 3][k % 3].to_bits())
                        });
                        let near = (0..9).all(|k| f32_within_eps(ein[k / 3][k % 3], eout[k / 3][k % 3]));
                        if is_basis && near {
                            Variant::CFrame(CFrame::new(cin.position, cout.orientation))
                        } else {
                            let s = |e: &[[f32; 3]; 3]| (0..9).map(|k| format!("{:x}", e[k / 3][k % 3].to_bits())).collect::<Vec<_>>().join(",");
                            bad.push(format!(
                                "rotation-snap {what}: attribute {} CFrame orientation [{}] came back as [{}]{} although not every entry is within f32::EPSILON of it",
                                hex(name.as_bytes()),
                                s(&ein),
                                s(&eout),
                                if is_basis { " (a basic rotation)" } else { "" }
                            ));
                            continue;
                        }
                    }
                } else {
                    vin.clone()
                }
            }
            other => other.clone(),
        };
        let a = val::value_string(&expect, &mut ctx);
        let b = val::value_string(vout, &mut ctx);
        if a != b {
            bad.push(format!("{what}: attribute {} expected `{}` got `{}`", hex(name.as_bytes()), &a[..a.len().min(120)], &b[..b.len().min(120)]));
        }
    }
    bad
}

struct CaseOut {
    obs: Vec<String>,
    oracle: Vec<String>, // C14 oracle messages
    other: Vec<String>,  // messages for other properties, `<pid> <text>`
}

fn first_unsupported(a: &Attributes) -> Option<VariantType> {
    a.iter().map(|(_, v)| v.ty()).find(|t| !SUPPORTED.contains(t))
}

fn run_map(a: &Attributes, stats: &mut BTreeMap<String, u64>) -> CaseOut {
    let mut o = CaseOut { obs: Vec::new(), oracle: Vec::new(), other: Vec::new() };
    for (_, v) in a.iter() {
        *stats.entry(format!("type_{:?}", v.ty())).or_insert(0) += 1;
    }
    let size_class = match a.len() {
        0 => "0",
        1 => "1",
        2..=6 => "2-6",
        _ => "7-40",
    };
    *stats.entry(format!("map_entries_{size_class}")).or_insert(0) += 1;
    match encode(a) {
        Err(()) => {
            o.obs.push("enc PANIC".into());
            o.oracle.push("the writer panicked".into());
        }
        Ok(Err(c)) => {
            o.obs.push(format!("enc ERR {c:x}"));
            *stats.entry("enc_err".into()).or_insert(0) += 1;
            match first_unsupported(a) {
                Some(t) if 0x200 + val::vtype_index(t) as u64 == c => {}
                Some(t) => o.oracle.push(format!("writer error class {c:x} is not `unsupported {t:?}`")),
                None => o.oracle.push(format!("the writer rejected a map of supported types only (error class {c:x})")),
            }
        }
        Ok(Ok(bytes)) => {
            o.obs.push(format!("enc OK {}", hex(&bytes)));
            *stats.entry("enc_ok".into()).or_insert(0) += 1;
            *stats.entry("bytes_encoded".into()).or_insert(0) += bytes.len() as u64;
            if let Some(t) = first_unsupported(a) {
                o.oracle.push(format!("the writer accepted the unsupported type {t:?}"));
            }
            if a.is_empty() != bytes.is_empty() {
                o.oracle.push(format!("empty map <-> zero bytes violated: {} entries, {} bytes", a.len(), bytes.len()));
            }
            // the same blob is what both file formats store for the Attributes property
            if bytes.len() < 20_000 {
                *stats.entry("file_format_blob_checks".into()).or_insert(0) += 1;
                let (xml, bin) = blobs_in_files(a);
                for (fmt, r) in [("XML", xml), ("binary", bin)] {
                    match r {
                        Ok(b) if b == bytes => {}
                        Ok(b) => o.oracle.push(format!("the {fmt} file stores a different blob for the Attributes property ({} bytes, to_writer gives {})", b.len(), bytes.len())),
                        Err(e) => o.oracle.push(format!("could not locate the Attributes blob in the {fmt} file: {e}")),
                    }
                }
                // the same map among class-mates in one file: [a fixed non-empty map, this map, an empty map, no Attributes at
                // all] must be stored as [its blob, this blob, zero bytes, zero bytes] by both formats, and read back so
                match sibling_blobs(a) {
                    Err(e) => o.oracle.push(format!("class-mates: {e}")),
                    Ok(cells) => {
                        let prev = encode(&sibling_prev()).ok().and_then(|r| r.ok()).unwrap_or_default();
                        let want: [&[u8]; 4] = [&prev, &bytes, &[], &[]];
                        for (fmt, got) in [("binary", &cells.0), ("XML", &cells.1)] {
                            for k in 0..4 {
                                if got.get(k).map(|c| c.as_slice()) != Some(want[k]) {
                                    o.oracle.push(format!(
                                        "the {fmt} file stores {} bytes for the Attributes of class-mate #{k} of [non-empty, this map, empty map, none]; its own blob has {} bytes",
                                        got.get(k).map(|c| c.len() as i64).unwrap_or(-1), want[k].len()));
                                    break;
                                }
                            }
                        }
                    }
                }
            }
            let d = decode(&bytes);
            o.obs.push(format!("dec {}", dec_string(&d)));
            match d {
                Dec::Ok(b) => o.oracle.extend(compare_roundtrip(a, &b, "round trip")),
                Dec::Err(c) => o.oracle.push(format!("the reader rejects the writer's own output (error class {c:x})")),
                Dec::Panic | Dec::Abort => o.oracle.push("the reader panicked on the writer's own output".into()),
            }
        }
    }
    o
}

fn run_bytes(bytes: &[u8], d: Dec, stats: &mut BTreeMap<String, u64>) -> CaseOut {
    let mut o = CaseOut { obs: Vec::new(), oracle: Vec::new(), other: Vec::new() };
    o.obs.push(format!("dec {}", dec_string(&d)));
    match &d {
        Dec::Ok(a) => {
            *stats.entry("bytes_dec_ok".into()).or_insert(0) += 1;
            if bytes.is_empty() && !a.is_empty() {
                o.oracle.push("zero bytes decoded to a non-empty map".into());
            }
            // decoder outputs are attribute maps like any other: they must round-trip
            match encode(a) {
                Ok(Ok(b2)) => match decode(&b2) {
                    Dec::Ok(a2) => o.oracle.extend(compare_roundtrip(a, &a2, "re-encode of a decoded blob")),
                    other => o.oracle.push(format!("re-encoding a decoded map gives bytes the reader answers with {}", dec_string(&other))),
                },
                Ok(Err(c)) => o.oracle.push(format!("a decoded map cannot be re-encoded (error class {c:x})")),
                Err(()) => o.oracle.push("the writer panicked on a decoded map".into()),
            }
        }
        Dec::Err(c) => {
            let class = match *c {
                0x500..=0x5ff => "invalid_type_id".to_string(),
                0xa00..=0xaff => "bad_rotation_id".to_string(),
                0x100..=0x1ff => "read_type".to_string(),
                x if x >= 0x7_0000_0000 => "invalid_brickcolor".to_string(),
                x => format!("{x:x}"),
            };
            *stats.entry(format!("bytes_dec_err_{class}")).or_insert(0) += 1;
            if bytes.is_empty() {
                o.oracle.push("zero bytes were rejected".into());
            }
        }
        Dec::Panic => o.oracle.push(format!("the reader panicked on {} bytes", bytes.len())),
        Dec::Abort => o.other.push(format!(
            "C13 alloc-abort the reader aborted the process (allocation sized by an unchecked length field) on {} bytes",
            bytes.len()
        )),
    }
    o
}

// ------------------------------------------------------------------------------------------ the blob inside the file formats

fn unbase64(text: &str) -> Option<Vec<u8>> {
    let mut out = Vec::new();
    let (mut acc, mut bits) = (0u32, 0u32);
    for c in text.bytes() {
        let v = match c {
            b'A'..=b'Z' => c - b'A',
            b'a'..=b'z' => c - b'a' + 26,
            b'0'..=b'9' => c - b'0' + 52,
            b'+' => 62,
            b'/' => 63,
            b'=' | b'\n' | b'\r' | b' ' | b'\t' => continue,
            _ => return None,
        };
        acc = acc << 6 | v as u32;
        bits += 6;
        if bits >= 8 {
            bits -= 8;
            out.push((acc >> bits) as u8);
            acc &= (1 << bits) - 1;
        }
    }
    Some(out)
}

fn find(hay: &[u8], needle: &[u8]) -> Option<usize> {
    hay.windows(needle.len()).position(|w| w == needle)
}

/// the bytes both file formats store for an `Attributes` property holding `a`:
/// (payload of the XML `<BinaryString name="AttributesSerialize">`, the String cell of the binary PROP chunk)
fn blobs_in_files(a: &Attributes) -> (Result<Vec<u8>, String>, Result<Vec<u8>, String>) {
    use rbx_dom_weak::{InstanceBuilder, WeakDom};
    let mut dom = WeakDom::new(InstanceBuilder::new("DataModel"));
    let root = dom.root_ref();
    let folder = dom.insert(root, InstanceBuilder::new("Folder").with_property("Attributes", Variant::Attributes(a.clone())));
    let xml = (|| {
        let mut buf = Vec::new();
        rbx_xml::to_writer_default(&mut buf, &dom, &[folder]).map_err(|e| format!("xml writer: {e}"))?;
        let open = b"<BinaryString name=\"AttributesSerialize\"";
        let at = find(&buf, open).ok_or("no AttributesSerialize element in the XML file")?;
        let rest = &buf[at + open.len()..];
        if rest.starts_with(b"/>") || rest.starts_with(b" />") {
            return Ok(Vec::new());
        }
        let gt = rest.iter().position(|c| *c == b'>').ok_or("unterminated tag")?;
        let body = &rest[gt + 1..];
        let end = find(body, b"</BinaryString>").ok_or("no end tag")?;
        let mut text = String::from_utf8_lossy(&body[..end]).to_string();
        if let Some(t) = text.strip_prefix("<![CDATA[").and_then(|t| t.strip_suffix("]]>")) {
            text = t.to_string();
        }
        unbase64(&text).ok_or_else(|| "payload is not base64".to_string())
    })();
    let bin = (|| {
        let mut buf = Vec::new();
        rbx_binary::Serializer::new()
            .compression_type(rbx_binary::CompressionType::None)
            .serialize(&mut buf, &dom, &[folder])
            .map_err(|e| format!("binary writer: {e}"))?;
        let mut key = vec![19u8, 0, 0, 0];
        key.extend_from_slice(b"AttributesSerialize");
        key.push(0x01); // binary type id String
        let at = find(&buf, &key).ok_or("no AttributesSerialize String column in the binary file")?;
        let p = at + key.len();
        if p + 4 > buf.len() {
            return Err("truncated column".to_string());
        }
        let len = u32::from_le_bytes([buf[p], buf[p + 1], buf[p + 2], buf[p + 3]]) as usize;
        buf.get(p + 4..p + 4 + len).map(|s| s.to_vec()).ok_or_else(|| "truncated column".to_string())
    })();
    (xml, bin)
}


fn sibling_prev() -> Attributes {
    let mut p = Attributes::new();
    p.insert("Previous".to_string(), Variant::Float64(2.5));
    p.insert("Other".to_string(), Variant::String("class-mate".to_string()));
    p
}

/// (binary cells, XML cells) of the Attributes property of four Folders written into one file:
/// [fixed non-empty map, `a`, empty map, no Attributes property]
fn sibling_blobs(a: &Attributes) -> Result<(Vec<Vec<u8>>, Vec<Vec<u8>>), String> {
    use rbx_dom_weak::{InstanceBuilder, WeakDom};
    let mut dom = WeakDom::new(InstanceBuilder::new("DataModel"));
    let root = dom.root_ref();
    let mut roots = Vec::new();
    roots.push(dom.insert(root, InstanceBuilder::new("Folder").with_name("f0").with_property("Attributes", Variant::Attributes(sibling_prev()))));
    roots.push(dom.insert(root, InstanceBuilder::new("Folder").with_name("f1").with_property("Attributes", Variant::Attributes(a.clone()))));
    roots.push(dom.insert(root, InstanceBuilder::new("Folder").with_name("f2").with_property("Attributes", Variant::Attributes(Attributes::new()))));
    roots.push(dom.insert(root, InstanceBuilder::new("Folder").with_name("f3")));
    // binary: the String column AttributesSerialize has one length-prefixed cell per instance, in referent order
    let mut buf = Vec::new();
    rbx_binary::Serializer::new()
        .compression_type(rbx_binary::CompressionType::None)
        .serialize(&mut buf, &dom, &roots)
        .map_err(|e| format!("binary writer: {e}"))?;
    let mut key = vec![19u8, 0, 0, 0];
    key.extend_from_slice(b"AttributesSerialize");
    key.push(0x01);
    let at = find(&buf, &key).ok_or("no AttributesSerialize String column in the binary file")?;
    let mut p = at + key.len();
    let mut bin = Vec::new();
    for _ in 0..4 {
        if p + 4 > buf.len() {
            return Err("truncated column".to_string());
        }
        let len = u32::from_le_bytes([buf[p], buf[p + 1], buf[p + 2], buf[p + 3]]) as usize;
        bin.push(buf.get(p + 4..p + 4 + len).ok_or("truncated column")?.to_vec());
        p += 4 + len;
    }
    // and what the binary reader returns for each instance agrees with the cells
    let back = rbx_binary::from_reader(buf.as_slice()).map_err(|e| format!("binary reader: {e}"))?;
    for (k, r) in back.root().children().iter().enumerate() {
        let got = match back.get_by_ref(*r).and_then(|i| i.properties.get(&rbx_dom_weak::ustr("Attributes"))) {
            Some(Variant::Attributes(m)) => encode(m).ok().and_then(|r| r.ok()).unwrap_or_default(),
            Some(_) => return Err(format!("binary reader returns a non-Attributes value for class-mate #{k}")),
            None => Vec::new(),
        };
        let own = match k {
            0 => encode(&sibling_prev()).ok().and_then(|r| r.ok()).unwrap_or_default(),
            1 => encode(a).ok().and_then(|r| r.ok()).unwrap_or_default(),
            _ => Vec::new(),
        };
        // compare through the decoder's normal form of the own blob
        let norm = |b: &[u8]| match decode(b) {
            Dec::Ok(m) => encode(&m).ok().and_then(|r| r.ok()).unwrap_or_default(),
            _ => b.to_vec(),
        };
        if norm(&got) != norm(&own) {
            return Err(format!("after the binary round trip class-mate #{k} holds attributes that are not its own ({} bytes re-encoded, its own {} bytes)", got.len(), own.len()));
        }
    }
    // ... also when an EARLIER class-mate holds a blob the attribute reader rejects (kept by the binary reader as a
    // BinaryString): the later class-mates' blobs are still decoded, each into its own map
    {
        let mut dom2 = WeakDom::new(InstanceBuilder::new("DataModel"));
        let root2 = dom2.root_ref();
        let bad: Vec<u8> = vec![1, 0, 0, 0, 1, 0, 0, 0, b'k', 0x01];
        let mut roots2 = Vec::new();
        roots2.push(dom2.insert(root2, InstanceBuilder::new("Folder").with_name("bad").with_property("Attributes", Variant::BinaryString(bad.clone().into()))));
        roots2.push(dom2.insert(root2, InstanceBuilder::new("Folder").with_name("good").with_property("Attributes", Variant::Attributes(a.clone()))));
        roots2.push(dom2.insert(root2, InstanceBuilder::new("Folder").with_name("prev").with_property("Attributes", Variant::Attributes(sibling_prev()))));
        let mut buf2 = Vec::new();
        if rbx_binary::Serializer::new().compression_type(rbx_binary::CompressionType::None).serialize(&mut buf2, &dom2, &roots2).is_ok() {
            let back = rbx_binary::from_reader(buf2.as_slice()).map_err(|e| format!("binary reader (file with one undecodable attribute blob): {e}"))?;
            let kids = back.root().children();
            if kids.len() == 3 {
                if !matches!(decode(&bad), Dec::Ok(_)) {
                    for (k, own) in [(1usize, a.clone()), (2usize, sibling_prev())] {
                        match back.get_by_ref(kids[k]).and_then(|i| i.properties.get(&rbx_dom_weak::ustr("Attributes"))) {
                            Some(Variant::Attributes(m)) => {
                                let e1 = encode(m).ok().and_then(|r| r.ok()).unwrap_or_default();
                                let e2 = encode(&own).ok().and_then(|r| r.ok()).unwrap_or_default();
                                let norm = |b: &[u8]| match decode(b) {
                                    Dec::Ok(m) => encode(&m).ok().and_then(|r| r.ok()).unwrap_or_default(),
                                    _ => b.to_vec(),
                                };
                                if norm(&e1) != norm(&e2) {
                                    return Err(format!("class-mate #{k} of an instance with an undecodable attribute blob holds attributes that are not its own"));
                                }
                            }
                            Some(other) => {
                                if !own.iter().next().is_none() || k == 2 {
                                    return Err(format!("class-mate #{k} of an instance with an undecodable attribute blob is read back with {:?} instead of its decoded attribute map", other.ty()));
                                }
                            }
                            None => {
                                if own.iter().next().is_some() {
                                    return Err(format!("class-mate #{k} of an instance with an undecodable attribute blob lost its attributes"));
                                }
                            }
                        }
                    }
                }
            }
        }
    }
    // XML: one AttributesSerialize element per Item that has the property (f3 has none: an absent element counts as zero bytes)
    let mut xbuf = Vec::new();
    rbx_xml::to_writer_default(&mut xbuf, &dom, &roots).map_err(|e| format!("xml writer: {e}"))?;
    let mut xml = Vec::new();
    let text = xbuf;
    let items: Vec<usize> = {
        let mut v = Vec::new();
        let mut from = 0;
        while let Some(i) = find(&text[from..], b"<Item ") {
            v.push(from + i);
            from += i + 6;
        }
        v.push(text.len());
        v
    };
    for w in items.windows(2) {
        let seg = &text[w[0]..w[1]];
        let open = b"<BinaryString name=\"AttributesSerialize\"";
        match find(seg, open) {
            None => xml.push(Vec::new()),
            Some(at) => {
                let rest = &seg[at + open.len()..];
                if rest.starts_with(b"/>") || rest.starts_with(b" />") {
                    xml.push(Vec::new());
                    continue;
                }
                let gt = rest.iter().position(|c| *c == b'>').ok_or("unterminated tag")?;
                let body = &rest[gt + 1..];
                let end = find(body, b"</BinaryString>").ok_or("no end tag")?;
                let mut t = String::from_utf8_lossy(&body[..end]).to_string();
                if let Some(x) = t.strip_prefix("<![CDATA[").and_then(|x| x.strip_suffix("]]>")) {
                    t = x.to_string();
                }
                xml.push(unbase64(&t).ok_or_else(|| "payload is not base64".to_string())?);
            }
        }
    }
    Ok((bin, xml))
}

fn opt_id(x: Option<u8>) -> String {
    x.map(|v| format!("{v:x}")).unwrap_or_else(|| "none".into())
}

fn run_prim(line: &str) -> Result<String, String> {
    let mut t = Toks::new(line);
    match t.word()? {
        "vec3" => Ok(format!("nid {}", opt_id(Vector3::new(t.f32()?, t.f32()?, t.f32()?).to_normal_id()))),
        "rot" => {
            let m = Matrix3::new(
                Vector3::new(t.f32()?, t.f32()?, t.f32()?),
                Vector3::new(t.f32()?, t.f32()?, t.f32()?),
                Vector3::new(t.f32()?, t.f32()?, t.f32()?),
            );
            Ok(format!("rid {}", opt_id(m.to_basic_rotation_id())))
        }
        "fromid" => Ok(match Matrix3::from_basic_rotation_id(t.u8()?) {
            Ok(m) => {
                let e = val::mat_entries(&m);
                format!("mat {}", (0..9).map(|k| format!("{:x}", e[k / 3][k % 3].to_bits())).collect::<Vec<_>>().join(" "))
            }
            Err(_) => "none".to_string(),
        }),
        w => Err(format!("unknown primitive `{w}`")),
    }
}

fn brick_blob(k: u16) -> Vec<u8> {
    let mut b = vec![1, 0, 0, 0, 1, 0, 0, 0, b'c', 0x0e];
    b.extend_from_slice(&(k as u32).to_le_bytes());
    b
}

/// decodes the byte cases in a child process so that an abort (failed allocation) costs one case, not
/// the run: the child prints one line per case and flushes; the parent restarts it after a death.
fn decode_all_isolated(cases_path: &str, ids: &[(String, Vec<u8>)]) -> Vec<Dec> {
    let mut out: Vec<Dec> = Vec::new();
    let exe = std::env::current_exe().expect("own path");
    while out.len() < ids.len() {
        let start = out.len();
        let child = std::process::Command::new(&exe)
            .args(["attr-worker", cases_path, &start.to_string()])
            .stdout(std::process::Stdio::piped())
            .stderr(std::process::Stdio::null())
            .output()
            .expect("spawn worker");
        let text = String::from_utf8_lossy(&child.stdout);
        let mut n = 0;
        for l in text.lines() {
            if l == "done" {
                break;
            }
            // the worker only reports that it survived case k; the value is recomputed here (cheap, safe now)
            if l.starts_with("ok ") {
                let k = start + n;
                if k < ids.len() {
                    out.push(decode(&ids[k].1));
                    n += 1;
                }
            }
        }
        if out.len() < ids.len() && !child.status.success() {
            out.push(Dec::Abort);
        } else if out.len() < ids.len() && n == 0 {
            panic!("attr-worker made no progress at case {start}");
        }
    }
    out
}

fn bytes_cases(cases: &[(String, Vec<String>)]) -> Vec<(String, Vec<u8>)> {
    let mut v = Vec::new();
    for (id, lines) in cases {
        if let Some(l) = lines.first() {
            if let Some(h) = l.strip_prefix("bytes ") {
                v.push((id.clone(), unhex(h.trim()).expect("hex in bytes case")));
            }
        }
    }
    v
}

// ------------------------------------------------------------------------------------------ generation

fn gen_name(rng: &mut Rng) -> String {
    match rng.below(10) {
        0 => String::new(),
        1..=3 => rng.pick(&["a", "ab", "a\u{0}", "B", "é", "e", "z", "Z", "aa", "日", "\u{10ffff}", "\u{7f}", "\u{80}"]).to_string(),
        _ => val::gen_utf8(rng),
    }
}

fn gen_supported_type(rng: &mut Rng) -> VariantType {
    if rng.chance(20) {
        VariantType::CFrame
    } else {
        *rng.pick(&SUPPORTED)
    }
}

pub fn gen_map(rng: &mut Rng, allow_unsupported: bool) -> Attributes {
    let k = match rng.below(20) {
        0 => 0,
        1..=3 => 1,
        4..=13 => rng.range(2, 6),
        _ => rng.range(7, 40),
    };
    let with_unsupported = allow_unsupported && rng.chance(8);
    let mut a = Attributes::new();
    for _ in 0..k {
        let ty = if with_unsupported && rng.chance(30) { *rng.pick(&val::VARIANT_TYPES) } else { gen_supported_type(rng) };
        let mut name = gen_name(rng);
        if name.len() > 400 && rng.chance(80) {
            name.truncate(name.char_indices().nth(20).map(|x| x.0).unwrap_or(0));
        }
        a.insert(name, val::gen_value(rng, ty, 1));
    }
    a
}

/// a small map of supported types with short payloads: the seed of the malformed stream
fn gen_small_map(rng: &mut Rng) -> Attributes {
    let mut a = Attributes::new();
    for _ in 0..rng.range(1, 4) {
        let ty = gen_supported_type(rng);
        let v = loop {
            let v = val::gen_value(rng, ty, 0);
            let mut t = Vec::new();
            val::to_tokens(&v, &mut t, &mut RefCtx::new());
            if t.iter().map(|s| s.len()).sum::<usize>() < 400 {
                break v;
            }
        };
        let mut name = gen_name(rng);
        if name.len() > 12 {
            name = "k".to_string();
        }
        a.insert(name, v);
    }
    a
}

const DOC_EXAMPLE_VALUES: [(u8, &str); 12] = [
    (0x09, "00 00 f6 42 c8 01 00 00"),
    (0x0a, "00 00 80 3f 02 00 00 00 00 00 40 40 04 00 00 00"),
    (0x0f, "00 00 00 00 cd cc cc 3e 00 00 80 3f"),
    (0x10, "00 00 20 41 00 00 a0 41"),
    (0x11, "00 00 20 41 00 00 a0 41 00 00 f0 41"),
    (0x14, "00 00 80 3f 00 00 00 40 00 00 40 40 00 f3 04 35 3f 00 00 00 00 f3 04 35 3f 00 00 00 00 00 00 80 3f 00 00 00 00 f3 04 35 bf 00 00 00 00 f3 04 35 3f"),
    (0x14, "00 00 80 3f 00 00 00 40 00 00 40 40 02"),
    (0x17, "03 00 00 00 00 00 00 00 00 00 00 00 00 00 00 00 00 00 00 00 00 00 00 3f 00 00 80 3f 00 00 00 3f 00 00 80 3f 00 00 80 3f"),
    (0x19, "03 00 00 00 00 00 00 00 00 00 00 00 00 00 80 3f 00 00 00 00 00 00 00 00 00 00 00 00 00 00 00 3f 00 00 00 00 00 00 80 3f 00 00 00 00 00 00 00 00 00 00 80 3f 00 00 00 00 00 00 00 00 00 00 80 3f"),
    (0x1b, "00 00 a0 40 00 00 20 41"),
    (0x1c, "00 00 20 41 00 00 a0 41 00 00 f0 41 00 00 20 42"),
    (0x21, "90 01 00 2C 00 00 00 72 62 78 61 73 73 65 74 3A 2F 2F 66 6F 6E 74 73 2F 66 61 6D 69 6C 69 65 73 2F 53 6F 75 72 63 65 53 61 6E 73 50 72 6F 2E 6A 73 6F 6E 2A 00 00 00 72 62 78 61 73 73 65 74 3A 2F 2F 66 6F 6E 74 73 2F 53 6F 75 72 63 65 53 61 6E 73 50 72 6F 2D 52 65 67 75 6C 61 72 2E 74 74 66"),
];

/// the worked examples of docs/attributes.md wrapped as one-entry blobs named `x`
pub fn doc_example_blobs() -> Vec<Vec<u8>> {
    DOC_EXAMPLE_VALUES
        .iter()
        .map(|(id, h)| {
            let mut b = vec![1, 0, 0, 0, 1, 0, 0, 0, b'x', *id];
            b.extend(unhex(&h.replace(' ', "").to_lowercase()).unwrap());
            b
        })
        .collect()
}

fn put_u32(b: &mut [u8], at: usize, v: u32) {
    if at + 4 <= b.len() {
        b[at..at + 4].copy_from_slice(&v.to_le_bytes());
    }
}

fn mutate(rng: &mut Rng, base: &[u8]) -> Vec<u8> {
    let mut b = base.to_vec();
    let huge = [0xFFFF_FFFFu32, 0x8000_0000, 0x7FFF_FFFF, 0x0100_0000, 0x0001_0000, 0x1000_0000, 0x0FFF_FFFF];
    match rng.below(12) {
        0 => {
            let k = rng.below(b.len() as u64 + 1) as usize;
            b.truncate(k);
        }
        1 => {
            if !b.is_empty() {
                let k = rng.below(b.len() as u64) as usize;
                b[k] ^= 1 << rng.below(8);
            }
        }
        2 => {
            if !b.is_empty() {
                let k = rng.below(b.len() as u64) as usize;
                b[k] = rng.next() as u8;
            }
        }
        3 => {
            // the entry count: off by one, huge, zero
            let c = if b.len() >= 4 { u32::from_le_bytes([b[0], b[1], b[2], b[3]]) } else { 0 };
            let nv = *rng.pick(&[c.wrapping_add(1), c.wrapping_sub(1), 0, 0xFFFF_FFFF, 0x8000_0000, c.wrapping_add(2)]);
            put_u32(&mut b, 0, nv);
        }
        4 => {
            // some aligned-anywhere u32 replaced by a huge length
            if b.len() >= 4 {
                let k = rng.below(b.len() as u64 - 3) as usize;
                put_u32(&mut b, k, *rng.pick(&huge));
            }
        }
        5 => {
            // first entry's type id replaced (name length at 4)
            if b.len() >= 8 {
                let nl = u32::from_le_bytes([b[4], b[5], b[6], b[7]]) as usize;
                if 8 + nl < b.len() {
                    b[8 + nl] = if rng.chance(50) { rng.next() as u8 } else { *rng.pick(&[0u8, 1, 2, 7, 8, 0x0b, 0x12, 0x16, 0x18, 0x1a, 0x1d, 0x20, 0x22, 0xff]) };
                }
            }
        }
        6 => {
            let k = rng.below(b.len() as u64 + 1) as usize;
            let ins: Vec<u8> = (0..rng.range(1, 6)).map(|_| rng.next() as u8).collect();
            b.splice(k..k, ins);
        }
        7 => {
            // trailing garbage
            for _ in 0..rng.range(1, 9) {
                b.push(rng.next() as u8);
            }
        }
        8 => {
            // remove a chunk
            if b.len() > 2 {
                let k = rng.below(b.len() as u64 - 1) as usize;
                let l = rng.range(1, (b.len() - k).min(8) as u64) as usize;
                b.drain(k..k + l);
            }
        }
        9 => {
            // set a byte to a UTF-8-hostile value (names, font families, enum names)
            if !b.is_empty() {
                let k = rng.below(b.len() as u64) as usize;
                b[k] = *rng.pick(&[0xffu8, 0x80, 0xc0, 0xed, 0xf5, 0xbf]);
            }
        }
        10 => {
            // a rotation id byte: find a CFrame entry is hard in general; flip towards typical ids anywhere
            if !b.is_empty() {
                let k = rng.below(b.len() as u64) as usize;
                b[k] = *rng.pick(&[0u8, 1, 2, 4, 8, 0x0b, 0x23, 0x24, 0x12, 0x13]);
            }
        }
        _ => {
            for _ in 0..rng.range(2, 5) {
                if !b.is_empty() {
                    let k = rng.below(b.len() as u64) as usize;
                    b[k] = rng.next() as u8;
                }
            }
        }
    }
    b
}

/// two valid single-entry blobs glued into one blob with count 2 (entries possibly unsorted or with
/// equal names: the reader's BTreeMap insert decides)
fn glue(rng: &mut Rng) -> Vec<u8> {
    let mut out = vec![2, 0, 0, 0];
    let names = ["a", "b", "a", "", "é"];
    for _ in 0..2 {
        let mut a = Attributes::new();
        let ty = gen_supported_type(rng);
        a.insert(rng.pick(&names).to_string(), val::gen_value(rng, ty, 0));
        let mut buf = Vec::new();
        a.to_writer(&mut buf).unwrap();
        out.extend_from_slice(&buf[4..]);
    }
    out
}

fn gen_cases(seed: u64, n: u64, f: &mut impl Write) {
    let mut rng = Rng::new(seed);
    let mut emit = |id: String, lines: Vec<String>| crate::util::write_case(f, &id, &lines);
    // fixed part: documentation examples, empty, all type ids, sweeps, rotation primitives
    emit(format!("m{seed}-empty"), map_lines(&Attributes::new()));
    emit(format!("b{seed}-empty"), vec!["bytes -".into()]);
    emit(format!("b{seed}-zero-count"), vec!["bytes 00000000".into()]);
    for (k, b) in doc_example_blobs().iter().enumerate() {
        emit(format!("b{seed}-doc{k}"), vec![format!("bytes {}", hex(b))]);
    }
    for id in 0..=255u32 {
        let mut b = vec![1, 0, 0, 0, 1, 0, 0, 0, b't', id as u8];
        b.extend(std::iter::repeat(0u8).take(40));
        emit(format!("b{seed}-type{id:02x}"), vec![format!("bytes {}", hex(&b))]);
    }
    for id in 0..=0x28u32 {
        // every rotation id byte, valid or not
        let mut b = vec![1, 0, 0, 0, 1, 0, 0, 0, b'r', 0x14];
        b.extend(std::iter::repeat(0u8).take(12));
        b.push(id as u8);
        emit(format!("b{seed}-rotid{id:02x}"), vec![format!("bytes {}", hex(&b))]);
        emit(format!("p{seed}-fromid{id:02x}"), vec![format!("fromid {id:x}")]);
    }
    emit(format!("s{seed}-bricks"), vec!["bricksweep".into()]);
    // sequence lengths of 2^32-1: the reader sizes an allocation by them before reading (C13 probe: alloc-abort)
    emit(format!("b{seed}-hugecseq"), vec!["bytes 01000000010000006119ffffffff".into()]);
    emit(format!("b{seed}-hugenseq"), vec!["bytes 01000000010000006117ffffffff".into()]);
    emit(format!("b{seed}-hugestr"), vec!["bytes 01000000010000006102ffffffff".into()]);
    emit(format!("b{seed}-hugename"), vec!["bytes 01000000ffffffff6102".into()]);
    emit(format!("b{seed}-hugecount"), vec!["bytes ffffffff010000006103".into()]);
    // truncation of a blob holding one value of every supported type at every length
    {
        let mut a = Attributes::new();
        let mut r = Rng::new(seed ^ 0x51);
        for (k, ty) in SUPPORTED.iter().enumerate() {
            let v = loop {
                let v = val::gen_value(&mut r, *ty, 0);
                let mut t = Vec::new();
                val::to_tokens(&v, &mut t, &mut RefCtx::new());
                if t.iter().map(|s| s.len()).sum::<usize>() < 120 && t.len() > 1 {
                    break v;
                }
            };
            a.insert(format!("k{k:02}"), v);
        }
        let mut buf = Vec::new();
        a.to_writer(&mut buf).unwrap();
        for l in 0..buf.len() {
            emit(format!("b{seed}-prefix{l}"), vec![format!("bytes {}", hex(&buf[..l]))]);
        }
    }
    // rotation primitives: boundary components in every position
    let comps = [
        0u32, 0x8000_0000, 0x3F80_0000, 0xBF80_0000, 0x3400_0000, 0x3400_0001, 0xB400_0000, 0xB400_0001, 0x3F80_0001, 0x3F80_0002,
        0xBF80_0001, 0xBF80_0002, 0x3F7F_FFFF, 0x3F00_0000, 0x7FC0_0000, 0x7F80_0000, 0xFF80_0000, 0x4000_0000, 1,
    ];
    for (i, x) in comps.iter().enumerate() {
        for (j, y) in comps.iter().enumerate() {
            for (k, z) in comps.iter().enumerate() {
                if (i + 2 * j + 3 * k + seed as usize) % 7 == 0 || (i < 4 && j < 4 && k < 4) {
                    emit(format!("p{seed}-v{i}-{j}-{k}"), vec![format!("vec3 {x:x} {y:x} {z:x}")]);
                }
            }
        }
    }
    for k in 0..n {
        let mut r = rng.fork();
        match k % 10 {
            0..=5 => emit(format!("m{seed}-{k}"), map_lines(&gen_map(&mut r, true))),
            6..=7 => {
                let a = gen_small_map(&mut r);
                let mut buf = Vec::new();
                a.to_writer(&mut buf).unwrap();
                let mut b = mutate(&mut r, &buf);
                if r.chance(25) {
                    b = mutate(&mut r, &b);
                }
                emit(format!("b{seed}-{k}"), vec![format!("bytes {}", hex(&b))]);
            }
            8 => {
                let b = match r.below(4) {
                    0 => glue(&mut r),
                    1 => (0..r.below(24)).map(|_| r.next() as u8).collect(),
                    2 => {
                        // a well-formed header followed by noise
                        let mut b = vec![1, 0, 0, 0, 1, 0, 0, 0, b'n', *r.pick(&[2u8, 3, 4, 5, 6, 9, 0x0a, 0x0e, 0x0f, 0x10, 0x11, 0x14, 0x15, 0x17, 0x19, 0x1b, 0x1c, 0x21])];
                        for _ in 0..r.below(60) {
                            b.push(if r.chance(40) { 0 } else { r.next() as u8 });
                        }
                        b
                    }
                    _ => {
                        let mut buf = Vec::new();
                        gen_small_map(&mut r).to_writer(&mut buf).unwrap();
                        buf
                    }
                };
                emit(format!("b{seed}-{k}"), vec![format!("bytes {}", hex(&b))]);
            }
            _ => {
                let m = val::gen_matrix(&mut r);
                let e = val::mat_entries(&m);
                let s = (0..9).map(|q| format!("{:x}", e[q / 3][q % 3].to_bits())).collect::<Vec<_>>().join(" ");
                emit(format!("p{seed}-{k}"), vec![format!("rot {s}")]);
            }
        }
    }
}

// ------------------------------------------------------------------------------------------ threshold sweep

/// DESIGN.md A7: the integer form of `approx_unit_or_zero` used by coq/Model/Rotation.v
fn approx_model(bits: u32) -> Option<i32> {
    let a = bits & 0x7FFF_FFFF;
    if a > 0x7F80_0000 {
        None // NaN compares false twice
    } else if a <= 0x3400_0000 {
        Some(0)
    } else if (0x3F7F_FFFE..=0x3F80_0001).contains(&a) {
        Some(if bits >> 31 == 1 { -1 } else { 1 })
    } else {
        None
    }
}

/// what the real function returns, observed through the public `Vector3::to_normal_id`
fn approx_real(bits: u32) -> Option<i32> {
    let v = f32::from_bits(bits);
    // x position: (v,0,0) has an id iff approx(v) = ±1; (1,v,0) has an id iff approx(v) = 0
    match Vector3::new(v, 0.0, 0.0).to_normal_id() {
        Some(0) => Some(1),
        Some(3) => Some(-1),
        Some(_) => Some(99),
        None => {
            if Vector3::new(1.0, v, 0.0).to_normal_id() == Some(0) {
                Some(0)
            } else {
                None
            }
        }
    }
}

fn sweep(thorough: bool, seed: u64) -> (u64, Vec<String>) {
    let mut bad = Vec::new();
    let mut n = 0u64;
    let mut check = |bits: u32, bad: &mut Vec<String>| {
        let (m, r) = (approx_model(bits), approx_real(bits));
        if m != r && bad.len() < 5 {
            bad.push(format!("C14 threshold sweep: approx_unit_or_zero({bits:08x}) is {r:?} in the implementation, {m:?} by the integer thresholds of Model/Rotation.v"));
        }
    };
    if thorough {
        for bits in 0..=u32::MAX {
            check(bits, &mut bad);
            n += 1;
        }
    } else {
        // every exponent boundary ±64 patterns, both signs; the thresholds ±4096; 2M pseudo-random patterns
        for e in 0..=255u32 {
            for d in 0..128u32 {
                for s in [0u32, 0x8000_0000] {
                    check(((e << 23).wrapping_add(d).wrapping_sub(64)) & 0x7FFF_FFFF | s, &mut bad);
                    n += 1;
                }
            }
        }
        for c in [0x3400_0000u32, 0x3F80_0000, 0x3F7F_FFFE, 0x7F80_0000, 0x3F00_0000, 0x4000_0000] {
            for d in 0..8192u32 {
                for s in [0u32, 0x8000_0000] {
                    check((c.wrapping_add(d).wrapping_sub(4096)) & 0x7FFF_FFFF | s, &mut bad);
                    n += 1;
                }
            }
        }
        let mut rng = Rng::new(seed ^ 0xA7);
        for _ in 0..2_000_000 {
            check(rng.next() as u32, &mut bad);
            n += 1;
        }
    }
    (n, bad)
}

// ------------------------------------------------------------------------------------------ cli

pub fn cli(args: &[String]) -> bool {
    let cmd = args.get(1).map(|s| s.as_str()).unwrap_or("");
    match cmd {
        "attr-gen" => {
            let seed = arg_num(args, "--seed", 1);
            let n = arg_num(args, "--cases", 1000);
            let out = arg_val(args, "--out").expect("--out");
            let mut f = std::io::BufWriter::new(std::fs::File::create(out).unwrap());
            gen_cases(seed, n, &mut f);
        }
        "attr-run" => {
            let cases = read_cases(&args[2]);
            let mut obs = std::io::BufWriter::new(std::fs::File::create(&args[3]).unwrap());
            let mut orc = std::io::BufWriter::new(std::fs::File::create(&args[4]).unwrap());
            let mut stats: BTreeMap<String, u64> = BTreeMap::new();
            let mut distinct = BTreeSet::new();
            let bcases = bytes_cases(&cases);
            let decs = if has_flag(args, "--in-process") {
                bcases.iter().map(|(_, b)| decode(b)).collect::<Vec<_>>()
            } else {
                decode_all_isolated(&args[2], &bcases)
            };
            let mut decs = decs.into_iter();
            let mut bi = 0;
            for (id, lines) in &cases {
                let first = lines.first().map(|s| s.as_str()).unwrap_or("");
                let kind = first.split(' ').next().unwrap_or("");
                let r = match kind {
                    "map" => {
                        *stats.entry("cases_map".into()).or_insert(0) += 1;
                        match parse_map(lines) {
                            Ok(a) => {
                                if a.len() >= 2 && distinct.insert(lines.join("\n")) {
                                    *stats.entry("distinct_nontrivial".into()).or_insert(0) += 1;
                                }
                                run_map(&a, &mut stats)
                            }
                            Err(e) => CaseOut { obs: vec![format!("BADCASE {e}")], oracle: vec![], other: vec![] },
                        }
                    }
                    "bytes" => {
                        *stats.entry("cases_bytes".into()).or_insert(0) += 1;
                        let b = &bcases[bi].1;
                        bi += 1;
                        if b.len() >= 8 && distinct.insert(lines.join("\n")) {
                            *stats.entry("distinct_nontrivial".into()).or_insert(0) += 1;
                        }
                        let mut r = run_bytes(b, decs.next().expect("one result per bytes case"), &mut stats);
                        // `expect <k (name value){k}>`: the value the blob is documented to describe
                        if let Some(want) = lines.iter().find_map(|l| l.strip_prefix("expect ")) {
                            *stats.entry("cases_with_expected_value".into()).or_insert(0) += 1;
                            let got = r.obs[0].strip_prefix("dec OK ").unwrap_or("<not decoded>").to_string();
                            if got.split_whitespace().collect::<Vec<_>>() != want.split_whitespace().collect::<Vec<_>>() {
                                r.oracle.push(format!("a documented blob does not decode to the value it describes: expected `{}` got `{}`", &want[..want.len().min(160)], &r.obs[0][..r.obs[0].len().min(160)]));
                            }
                        }
                        r
                    }
                    "bricksweep" => {
                        let ok: Vec<String> = (0..=u16::MAX)
                            .filter(|k| matches!(decode(&brick_blob(*k)), Dec::Ok(a) if a.get("c") == Some(&Variant::BrickColor(BrickColor::from_number(*k).unwrap()))))
                            .map(|k| format!("{k:x}"))
                            .collect();
                        *stats.entry("brickcolor_numbers".into()).or_insert(0) += ok.len() as u64;
                        CaseOut { obs: vec![format!("bricks {}", ok.join(" "))], oracle: vec![], other: vec![] }
                    }
                    "vec3" | "rot" | "fromid" => {
                        *stats.entry("cases_rotation_primitive".into()).or_insert(0) += 1;
                        match run_prim(first) {
                            Ok(s) => CaseOut { obs: vec![s], oracle: vec![], other: vec![] },
                            Err(e) => CaseOut { obs: vec![format!("BADCASE {e}")], oracle: vec![], other: vec![] },
                        }
                    }
                    _ => CaseOut { obs: vec![format!("BADCASE unknown kind `{kind}`")], oracle: vec![], other: vec![] },
                };
                writeln!(obs, "case {id}").unwrap();
                for o in &r.obs {
                    writeln!(obs, "{o}").unwrap();
                }
                writeln!(obs, "end").unwrap();
                for o in &r.oracle {
                    writeln!(orc, "{id} C14 {o}").unwrap();
                }
                for o in &r.other {
                    writeln!(orc, "{id} {o}").unwrap();
                }
                *stats.entry("other_property_lines".into()).or_insert(0) += r.other.len() as u64;
                *stats.entry("oracle_lines".into()).or_insert(0) += r.oracle.len() as u64;
            }
            stats.insert("cases".into(), cases.len() as u64);
            let mut sf = std::fs::File::create(&args[5]).unwrap();
            writeln!(sf, "{}", serde_json::to_string(&stats).unwrap()).unwrap();
        }
        "attr-worker" => {
            // prints `ok <k>` after surviving the decode of byte case k (see decode_all_isolated)
            let cases = read_cases(&args[2]);
            let start: usize = args[3].parse().unwrap();
            let out = std::io::stdout();
            for (k, (_, b)) in bytes_cases(&cases).iter().enumerate().skip(start) {
                let _ = decode(b);
                let mut o = out.lock();
                writeln!(o, "ok {k}").unwrap();
                o.flush().unwrap();
            }
            println!("done");
        }
        "attr-sweep" => {
            let (n, bad) = sweep(has_flag(args, "--thorough"), arg_num(args, "--seed", 1));
            for b in &bad {
                println!("{b}");
            }
            println!("sweep done patterns={n} violations={}", bad.len());
        }
        "val-selftest" => match val::selftest(arg_num(args, "--seed", 1), arg_num(args, "--cases", 4000)) {
            Ok(n) => println!("val selftest ok values={n}"),
            Err(e) => {
                println!("val selftest FAILED: {e}");
                std::process::exit(1);
            }
        },
        _ => return false,
    }
    true
}
