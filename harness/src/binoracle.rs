//! binoracle: implementation-side oracles of C01 / C07 / C08, computed on the implementation only
//! (no model involved).  Every oracle line is `<case> <Cxx> <key> <details>`; `<key>` is a stable word
//! naming the class of the failure (tools/props.py BinFile.known_key uses it).
//!
//! C01  the decoded DOM equals the written forest up to exactly the permitted normalisations of the
//!      property text:  (a) String / ContentId / Tags / MaterialColors of a property unknown to the
//!      database come back as BinaryString with the same bytes, (b) a Color3 stored in a
//!      Color3uint8-serialised property comes back quantised, (c) a rotation with every entry within
//!      f32::EPSILON of one of the 24 axis-aligned bases comes back as that basis, (d) an instance may
//!      gain properties that another written instance of its class carried, holding the database default
//!      of the class (else the type's neutral value), (e) Refs: to the corresponding new instance inside
//!      the written set, null outside.  Nothing else.  Out of scope (not checked): properties the database
//!      marks DoesNotSerialize, legacy (migrating) spellings (C15), a logical property spelled twice on one
//!      instance, EnumItem values, and values whose type the README does not list for rbx_binary.
//! C07  rebuilt with fresh Refs and shuffled property insertion the bytes are identical (all three
//!      compressions); save(load(save d)) = save d and it is a fixed point from then on.
//! C08  for <= 4 same-class siblings: every sibling order succeeds iff each instance alone succeeds, and
//!      after reading back each instance shows its own values / defaults for what it lacked.
use crate::binfile::{decode, encode, Dec, Enc};
use crate::forest::{self, map_refs, Forest, Node};
use crate::rng::Rng;
use crate::val::{self, RefCtx};
use rbx_binary::CompressionType;
use rbx_dom_weak::WeakDom;
use rbx_reflection::{DataType, PropertyKind, PropertySerialization};
use rbx_types::*;
use std::collections::{BTreeMap, BTreeSet, HashMap, HashSet};

fn cut(s: &str) -> String {
    if s.len() > 160 {
        format!("{}..", &s[..160])
    } else {
        s.to_string()
    }
}

// ------------------------------------------------------------------------------------------ database view

#[derive(Clone, Debug)]
enum Logical {
    /// not checked (does not serialize, legacy spelling, lookup gap)
    Skip,
    /// canonical name, serialised type (None = Enum), known to db, the canonical descriptor's own type,
    /// and the canonical name the reader files the serialised name under
    Prop { canon: String, ser_ty: Option<VariantType>, known: bool, canon_ty: Option<VariantType>, readback: String },
}

fn logical(class: &str, name: &str) -> Logical {
    let db = rbx_reflection_database::get();
    match rbx_binary::verif::find_property_descriptors(db, class.into(), name.into()) {
        None => Logical::Prop { canon: name.to_string(), ser_ty: None, known: false, canon_ty: None, readback: name.to_string() },
        Some(d) => {
            let ser = match d.serialized {
                Some(s) => s,
                None => return Logical::Skip,
            };
            if let PropertyKind::Canonical { serialization: PropertySerialization::Migrate(_) } = &ser.kind {
                return Logical::Skip;
            }
            let ser_ty = match &ser.data_type {
                DataType::Value(t) => Some(*t),
                _ => None,
            };
            let canon_ty = match &d.canonical.data_type {
                DataType::Value(t) => Some(*t),
                _ => None,
            };
            let readback = match rbx_binary::verif::find_property_descriptors(db, class.into(), ser.name.as_ref().into()) {
                Some(b) => b.canonical.name.to_string(),
                None => ser.name.to_string(),
            };
            Logical::Prop { canon: d.canonical.name.to_string(), ser_ty, known: true, canon_ty, readback }
        }
    }
}

const README_TYPES: [VariantType; 32] = [
    VariantType::Axes,
    VariantType::BinaryString,
    VariantType::Bool,
    VariantType::BrickColor,
    VariantType::CFrame,
    VariantType::Color3,
    VariantType::Color3uint8,
    VariantType::ColorSequence,
    VariantType::Content,
    VariantType::Enum,
    VariantType::Faces,
    VariantType::Float32,
    VariantType::Float64,
    VariantType::Font,
    VariantType::Int32,
    VariantType::Int64,
    VariantType::NumberRange,
    VariantType::NumberSequence,
    VariantType::OptionalCFrame,
    VariantType::PhysicalProperties,
    VariantType::Ray,
    VariantType::Rect,
    VariantType::Ref,
    VariantType::SecurityCapabilities,
    VariantType::SharedString,
    VariantType::String,
    VariantType::UDim,
    VariantType::UDim2,
    VariantType::UniqueId,
    VariantType::Vector2,
    VariantType::Vector3,
    VariantType::Vector3int16,
];

fn readme_type(t: VariantType) -> bool {
    README_TYPES.contains(&t)
        || matches!(t, VariantType::ContentId | VariantType::Tags | VariantType::MaterialColors | VariantType::Attributes)
}

/// the type's neutral value (what a column holds for an instance that lacks the property when the database
/// has no default)
pub fn neutral(t: VariantType) -> Option<Variant> {
    let z3 = Vector3::new(0.0, 0.0, 0.0);
    Some(match t {
        VariantType::String => Variant::String(String::new()),
        VariantType::BinaryString => Variant::BinaryString(BinaryString::new()),
        VariantType::Bool => Variant::Bool(false),
        VariantType::Int32 => Variant::Int32(0),
        VariantType::Float32 => Variant::Float32(0.0),
        VariantType::Float64 => Variant::Float64(0.0),
        VariantType::UDim => Variant::UDim(UDim::new(0.0, 0)),
        VariantType::UDim2 => Variant::UDim2(UDim2::new(UDim::new(0.0, 0), UDim::new(0.0, 0))),
        VariantType::Ray => Variant::Ray(Ray::new(z3, z3)),
        VariantType::Faces => Variant::Faces(Faces::from_bits(0)?),
        VariantType::Axes => Variant::Axes(Axes::from_bits(0)?),
        VariantType::BrickColor => Variant::BrickColor(BrickColor::MediumStoneGrey),
        VariantType::CFrame => Variant::CFrame(CFrame::new(z3, Matrix3::identity())),
        VariantType::Enum => Variant::Enum(Enum::from_u32(u32::MAX)),
        VariantType::Color3 => Variant::Color3(Color3::new(0.0, 0.0, 0.0)),
        VariantType::Vector2 => Variant::Vector2(Vector2::new(0.0, 0.0)),
        VariantType::Vector3 => Variant::Vector3(z3),
        VariantType::Ref => Variant::Ref(Ref::none()),
        VariantType::Vector3int16 => Variant::Vector3int16(Vector3int16::new(0, 0, 0)),
        VariantType::NumberSequence => Variant::NumberSequence(NumberSequence {
            keypoints: vec![NumberSequenceKeypoint::new(0.0, 0.0, 0.0), NumberSequenceKeypoint::new(0.0, 0.0, 0.0)],
        }),
        VariantType::ColorSequence => Variant::ColorSequence(ColorSequence {
            keypoints: vec![
                ColorSequenceKeypoint::new(0.0, Color3::new(0.0, 0.0, 0.0)),
                ColorSequenceKeypoint::new(0.0, Color3::new(0.0, 0.0, 0.0)),
            ],
        }),
        VariantType::NumberRange => Variant::NumberRange(NumberRange::new(0.0, 0.0)),
        VariantType::Rect => Variant::Rect(Rect::new(Vector2::new(0.0, 0.0), Vector2::new(0.0, 0.0))),
        VariantType::PhysicalProperties => Variant::PhysicalProperties(PhysicalProperties::Default),
        VariantType::Color3uint8 => Variant::Color3uint8(Color3uint8::new(0, 0, 0)),
        VariantType::Int64 => Variant::Int64(0),
        VariantType::SharedString => Variant::SharedString(SharedString::new(Vec::new())),
        VariantType::OptionalCFrame => Variant::OptionalCFrame(None),
        VariantType::Tags => Variant::Tags(Tags::new()),
        VariantType::ContentId => Variant::ContentId(ContentId::new()),
        VariantType::Attributes => Variant::Attributes(Attributes::new()),
        VariantType::UniqueId => Variant::UniqueId(UniqueId::nil()),
        VariantType::Font => Variant::Font(Font::default()),
        VariantType::MaterialColors => Variant::MaterialColors(MaterialColors::new()),
        VariantType::SecurityCapabilities => Variant::SecurityCapabilities(SecurityCapabilities::default()),
        VariantType::Content => Variant::Content(Content::none()),
        _ => return None,
    })
}

// ------------------------------------------------------------------------------------------ normalisation

/// the 24 axis-aligned bases, through the crate's own table
fn basic_rotations() -> Vec<Matrix3> {
    (0u8..=0x24).filter_map(|id| Matrix3::from_basic_rotation_id(id).ok()).collect()
}

fn mat_entries(m: &Matrix3) -> [f32; 9] {
    [m.x.x, m.x.y, m.x.z, m.y.x, m.y.y, m.y.z, m.z.x, m.z.y, m.z.z]
}

/// permitted normalisation (c): snap iff every entry is within f32::EPSILON of the basis entry
pub fn snap(m: &Matrix3) -> Matrix3 {
    for b in basic_rotations() {
        let e = mat_entries(m);
        let r = mat_entries(&b);
        if e.iter().zip(r.iter()).all(|(a, b)| (a - b).abs() <= f32::EPSILON) {
            return b;
        }
    }
    *m
}

fn quant(c: &Color3) -> Color3uint8 {
    // permitted normalisation (b): 8-bit quantisation of each channel, clamped to [0, 1]
    fn q(x: f32) -> u8 {
        let y = if x.is_nan() { 0.0 } else { x.max(0.0).min(1.0) };
        (y * 255.0).round() as u8
    }
    Color3uint8::new(q(c.r), q(c.g), q(c.b))
}

/// the value the property text permits to come back for `v` stored under a property with the given
/// database knowledge; Refs are left to the caller
fn norm_value(v: &Variant, known: bool, ser_ty: Option<VariantType>) -> Variant {
    match v {
        Variant::CFrame(c) => Variant::CFrame(CFrame::new(c.position, snap(&c.orientation))),
        Variant::OptionalCFrame(Some(c)) => Variant::OptionalCFrame(Some(CFrame::new(c.position, snap(&c.orientation)))),
        Variant::Color3(c) if known && ser_ty == Some(VariantType::Color3uint8) => Variant::Color3uint8(quant(c)),
        Variant::String(s) if !known => Variant::BinaryString(s.as_bytes().to_vec().into()),
        Variant::ContentId(s) if !known => Variant::BinaryString(s.as_str().as_bytes().to_vec().into()),
        Variant::Tags(t) if !known => Variant::BinaryString(t.encode().into()),
        Variant::MaterialColors(m) if !known => Variant::BinaryString(m.encode().into()),
        _ => v.clone(),
    }
}

fn key_of(v: &Variant) -> String {
    match v {
        Variant::Ray(_) => "ray-direction-z".into(),
        Variant::CFrame(_) | Variant::OptionalCFrame(_) => "rotation-snap".into(),
        Variant::Font(_) => "font-cached-empty".into(),
        Variant::Content(c) => match c.value() {
            ContentType::Object(_) => "content-object-order".into(),
            _ => "content".into(),
        },
        Variant::Tags(_) => "tags-empty-member".into(),
        Variant::MaterialColors(_) => "materialcolors-filled".into(),
        Variant::Attributes(_) => "attributes-normalised".into(),
        Variant::UniqueId(_) => "uniqueid-regenerated".into(),
        other => format!("value-{:?}", other.ty()).to_lowercase(),
    }
}

pub struct Finding {
    pub key: String,
    pub text: String,
}

struct Expect {
    /// canonical name -> expected value (Refs still as input labels / synthetic refs)
    values: BTreeMap<String, Variant>,
    /// canonical name -> (type of the written value, name the reader returns it under)
    info: BTreeMap<String, (VariantType, String)>,
    /// canonical names that are present but not checked
    unchecked: BTreeSet<String>,
}

fn expectations(n: &Node) -> Expect {
    let mut by_canon: BTreeMap<String, Vec<(Variant, bool, Option<VariantType>, Option<VariantType>, String)>> = BTreeMap::new();
    let mut info = BTreeMap::new();
    let mut unchecked = BTreeSet::new();
    for (p, v) in &n.props {
        if p == "Name" {
            continue; // the name lives in Instance.name; a property called Name is never written
        }
        match logical(&n.class, p) {
            Logical::Skip => {
                // legacy spelling: its target is out of scope too
                let db = rbx_reflection_database::get();
                if let Some(d) = rbx_binary::verif::find_property_descriptors(db, n.class.as_str().into(), p.as_str().into()) {
                    if let Some(s) = d.serialized {
                        if let PropertyKind::Canonical { serialization: PropertySerialization::Migrate(m) } = &s.kind {
                            if let Logical::Prop { canon, .. } = logical(&n.class, &m.new_property_name) {
                                unchecked.insert(canon);
                            }
                            unchecked.insert(m.new_property_name.clone());
                        }
                    }
                }
            }
            Logical::Prop { canon, ser_ty, known, canon_ty, readback } => {
                by_canon.entry(canon).or_default().push((v.clone(), known, ser_ty, canon_ty, readback));
            }
        }
    }
    let mut values = BTreeMap::new();
    for (canon, l) in by_canon {
        if l.len() != 1 || unchecked.contains(&canon) {
            unchecked.insert(canon);
            continue;
        }
        let (v, known, ser_ty, canon_ty, readback) = &l[0];
        if matches!(v, Variant::EnumItem(_)) || !readme_type(v.ty()) {
            unchecked.insert(canon);
            continue;
        }
        // a value whose type is not the one the property serialises as is outside the quantifier too
        if *known {
            let ok = match ser_ty {
                None => matches!(v, Variant::Enum(_)),
                Some(t) => v.ty() == *t || (*t == VariantType::Color3uint8 && v.ty() == VariantType::Color3),
            };
            // an alias spelling that carries the serialised representation of a differently typed canonical
            // property (AttributesSerialize: BinaryString for Attributes) is returned re-typed: not checked
            let retyped = canon_ty != ser_ty && !(*ser_ty == Some(VariantType::Color3uint8) && *canon_ty == Some(VariantType::Color3));
            if !ok || retyped {
                unchecked.insert(canon);
                unchecked.insert(readback.clone());
                continue;
            }
        }
        info.insert(canon.clone(), (v.ty(), readback.clone()));
        values.insert(canon, norm_value(v, *known, *ser_ty));
    }
    Expect { values, info, unchecked }
}

/// every way the decoded DOM differs from what the property permits
pub fn compare_roundtrip(f: &Forest, roots: &[u64], dom: &WeakDom) -> Vec<Finding> {
    let mut out = Vec::new();
    let exp_order = f.preorder(roots);
    // decoded pre-order
    let mut dec_order: Vec<Ref> = Vec::new();
    let mut stack: Vec<Ref> = dom.root().children().iter().rev().copied().collect();
    while let Some(r) = stack.pop() {
        dec_order.push(r);
        if let Some(i) = dom.get_by_ref(r) {
            for c in i.children().iter().rev() {
                stack.push(*c);
            }
        }
    }
    if exp_order.len() != dec_order.len() {
        out.push(Finding { key: "forest-size".into(), text: format!("written {} instances, read back {}", exp_order.len(), dec_order.len()) });
        return out;
    }
    let pos_of_label: HashMap<u64, usize> = exp_order.iter().enumerate().map(|(k, l)| (*l, k)).collect();
    let pos_of_ref: HashMap<Ref, usize> = dec_order.iter().enumerate().map(|(k, r)| (*r, k)).collect();
    // which canonical properties does each class carry among the written instances
    let mut class_renamed: HashMap<&str, BTreeSet<String>> = HashMap::new();
    let mut class_props: HashMap<&str, BTreeMap<String, Option<VariantType>>> = HashMap::new();
    let mut expects: Vec<Expect> = Vec::new();
    for l in &exp_order {
        let n = f.node(*l).unwrap();
        let e = expectations(n);
        let s = class_props.entry(n.class.as_str()).or_default();
        for (k, (t, rb)) in &e.info {
            s.entry(k.clone()).or_insert(Some(*t));
            s.entry(rb.clone()).or_insert(Some(*t));
            if k != rb {
                class_renamed.entry(n.class.as_str()).or_default().insert(rb.clone());
            }
        }
        for k in &e.unchecked {
            s.insert(k.clone(), None);
        }
        expects.push(e);
    }
    let db = rbx_reflection_database::get();
    for (k, l) in exp_order.iter().enumerate() {
        let n = f.node(*l).unwrap();
        let y = dom.get_by_ref(dec_order[k]).unwrap();
        if y.class.as_str() != n.class || y.name != n.name {
            out.push(Finding { key: "forest-shape".into(), text: format!("node {l}: class/name `{}`/`{}` read back as `{}`/`{}`", n.class, n.name, y.class, y.name) });
            continue;
        }
        let ep = if roots.contains(l) { None } else { pos_of_label.get(&n.parent).copied() };
        let dp = pos_of_ref.get(&y.parent()).copied();
        if ep != dp {
            out.push(Finding { key: "forest-shape".into(), text: format!("node {l}: parent position {ep:?} read back as {dp:?}") });
            continue;
        }
        let e = &expects[k];
        // printing context: decoded refs as positions, expected labels as positions
        let show_dec = |v: &Variant| -> String {
            let mut ctx = RefCtx::new();
            let v2 = map_refs(v, &mut |r| match pos_of_ref.get(&r) {
                Some(p) => val::synthetic_ref(*p as u64 + 1),
                None => {
                    if r.is_none() {
                        Ref::none()
                    } else {
                        val::synthetic_ref(0xdead)
                    }
                }
            });
            forest::value_with_labels(&v2) + if false { ctx.label_of(Ref::none()); "" } else { "" }
        };
        let show_exp = |v: &Variant| -> String {
            let v2 = map_refs(v, &mut |r| {
                let lab = forest::label_of_synthetic(r);
                match pos_of_label.get(&lab) {
                    Some(p) => val::synthetic_ref(*p as u64 + 1),
                    None => Ref::none(),
                }
            });
            forest::value_with_labels(&v2)
        };
        let mut returned_under: BTreeSet<String> = BTreeSet::new();
        let renamed_to: BTreeSet<String> = e.values.keys().filter(|c| e.info[*c].1 != **c).map(|c| e.info[c].1.clone()).collect();
        for (canon, ev) in &e.values {
            let readback = &e.info[canon].1;
            returned_under.insert(readback.clone());
            if readback != canon {
                out.push(Finding { key: "canonical-name-changes".into(), text: format!("node {l} {}.{canon}: its serialized name is read back as the canonical property {readback}", n.class) });
                continue;
            }
            if renamed_to.contains(canon) {
                continue; // another property of this instance is returned under this name
            }
            match y.properties.get(&readback.as_str().into()) {
                None => out.push(Finding { key: format!("missing-{}", key_of(ev)), text: format!("node {l} {}.{canon}: written {}, absent after reading back", n.class, cut(&show_exp(ev))) }),
                Some(dv) => {
                    let a = show_exp(ev);
                    let b = show_dec(dv);
                    if a != b {
                        // an explicitly held NIL UniqueId (0/0/0) collides with the nil default written for class-mates that lacked
                        // the property (recorded: default-uniqueid-regenerated) and is then the one WeakDom::insert replaces
                        let key = match ev {
                            Variant::UniqueId(u) if u.index() == 0 && u.time() == 0 && u.random() == 0 => "nil-uniqueid-regenerated".to_string(),
                            _ => key_of(ev),
                        };
                        out.push(Finding { key, text: format!("node {l} {}.{canon}: expected `{}` got `{}`", n.class, cut(&a), cut(&b)) });
                    }
                }
            }
        }
        for (q, dv) in y.properties.iter() {
            let q = q.to_string();
            if returned_under.contains(&q) || e.unchecked.contains(&q) {
                continue;
            }
            // gained: permitted iff a same-class written instance carried it and the value is the default
            let carrier = class_props.get(n.class.as_str()).and_then(|s| s.get(&q)).copied();
            if carrier.is_none() {
                out.push(Finding { key: "gained-foreign".into(), text: format!("node {l} {}.{q}: gained `{}` although no written {} carried it", n.class, cut(&show_dec(dv)), n.class) });
                continue;
            }
            let carrier_ty = match carrier {
                Some(Some(t)) => t,
                _ => continue, // carried only by an unchecked spelling
            };
            if class_renamed.get(n.class.as_str()).map(|s| s.contains(&q)).unwrap_or(false) {
                continue; // the column belongs to a property whose name changes (reported as canonical-name-changes)
            }
            let (known, ser_ty) = match logical(&n.class, &q) {
                Logical::Prop { known, ser_ty, .. } => (known, ser_ty),
                Logical::Skip => continue,
            };
            let dbdef = nearest_default(db, n.class.as_str(), &q);
            let expected = match dbdef {
                Some(d) => Some(norm_value(&d, known, ser_ty)),
                None => neutral(carrier_ty).map(|d| norm_value(&d, known, ser_ty)),
            };
            match expected {
                Some(x) => {
                    let a = show_exp(&x);
                    let b = show_dec(dv);
                    if a != b {
                        out.push(Finding { key: format!("default-{}", key_of(dv)), text: format!("node {l} {}.{q}: lacked it; expected the default `{}` got `{}`", n.class, cut(&a), cut(&b)) });
                    }
                }
                None => {}
            }
        }
    }
    out
}

fn one_line_per_key(id: &str, pid: &str, extra: &str, fs: Vec<Finding>, out: &mut Vec<String>) {
    let mut seen = HashSet::new();
    for f in fs {
        if seen.insert(f.key.clone()) {
            out.push(format!("{id} {pid} {} {extra}{}", f.key, f.text));
        }
    }
}

pub fn c01(id: &str, f: &Forest, d: &Dec, comp: &str, out: &mut Vec<String>) {
    match d {
        Dec::Dom(dom) => one_line_per_key(id, "C01", &format!("comp={comp} "), compare_roundtrip(f, &f.roots, dom), out),
        // a planted type mismatch (option `hostile`: a value whose type is not the property's declared type, e.g. a non-UTF-8
        // BinaryString in a Tags property) is outside C01's quantifier, like an encode failure on such a case (plain_case): the
        // writer coerces the bytes into the declared wire type and the reader's validation of that type may reject them
        Dec::Err(k, _) if f.opt("hostile").is_some() && (*k == "invalid-data" || *k == "type-mismatch") => {}
        Dec::Err(k, m) => {
            let key = if m.contains("should be Color3, but it was Color3uint8") { "color3uint8-unknown-property".to_string() } else { format!("decode-{k}") };
            out.push(format!("{id} C01 {key} comp={comp} the written file does not read back: {}", cut(m)))
        }
        Dec::Panic(m) => out.push(format!("{id} C01 decode-panic comp={comp} reading the written file panics: {}", cut(m))),
    }
}

/// a case inside C01's quantifier for which an encode failure is a violation
fn plain_case(f: &Forest) -> bool {
    if f.opt("hostile").is_some() {
        return false;
    }
    f.nodes.iter().all(|n| {
        let e = expectations(n);
        e.unchecked.is_empty() && n.props.iter().all(|(_, v)| !matches!(v, Variant::Attributes(_)))
    })
}

pub fn c01_encode(id: &str, f: &Forest, r: &[(CompressionType, Enc)], out: &mut Vec<String>) {
    if !plain_case(f) {
        return;
    }
    for (c, e) in r {
        match e {
            Enc::Bytes(_) => {}
            Enc::Err(k, m) => {
                out.push(format!("{id} C01 encode-{k} comp={c:?} writing fails: {}", cut(m)));
                return;
            }
            Enc::Panic(m) => {
                out.push(format!("{id} C01 encode-panic comp={c:?} writing panics: {}", cut(m)));
                return;
            }
        }
    }
}

fn same_outcome(a: &Enc, b: &Enc) -> bool {
    match (a, b) {
        (Enc::Bytes(x), Enc::Bytes(y)) => x == y,
        (Enc::Err(x, _), Enc::Err(y, _)) => x == y,
        (Enc::Panic(_), Enc::Panic(_)) => true,
        _ => false,
    }
}

fn describe(e: &Enc) -> String {
    match e {
        Enc::Bytes(b) => format!("{} bytes", b.len()),
        Enc::Err(k, m) => format!("Err {k} ({})", cut(m)),
        Enc::Panic(m) => format!("panic ({})", cut(m)),
    }
}

/// which chunk of an uncompressed file holds `offset` (name, and the property name of a PROP chunk)
fn chunk_at(b: &[u8], offset: usize) -> String {
    let mut pos = 32;
    if offset < 32 {
        return "header".into();
    }
    while pos + 16 <= b.len() {
        let name = String::from_utf8_lossy(&b[pos..pos + 4]).to_string();
        let clen = u32::from_le_bytes([b[pos + 4], b[pos + 5], b[pos + 6], b[pos + 7]]) as usize;
        let len = u32::from_le_bytes([b[pos + 8], b[pos + 9], b[pos + 10], b[pos + 11]]) as usize;
        let body = if clen == 0 { len } else { clen };
        let end = pos + 16 + body;
        if offset < end {
            if name == "PROP" && clen == 0 && pos + 24 <= b.len() {
                let nl = u32::from_le_bytes([b[pos + 20], b[pos + 21], b[pos + 22], b[pos + 23]]) as usize;
                if pos + 24 + nl + 1 <= b.len() {
                    return format!("PROP {} type {:#x}", String::from_utf8_lossy(&b[pos + 24..pos + 24 + nl]), b[pos + 24 + nl]);
                }
            }
            return name;
        }
        pos = end;
    }
    "?".into()
}

fn seed_of(id: &str) -> u64 {
    id.bytes().fold(0xcbf29ce484222325u64, |h, b| (h ^ b as u64).wrapping_mul(0x100000001b3))
}

/// every instance spells each logical property at most once (no canonical + alias, no two aliases, no legacy + new)
pub fn one_spelling(f: &Forest) -> bool {
    f.nodes.iter().all(|n| {
        let mut seen = BTreeSet::new();
        n.props.iter().all(|(p, _)| match logical(&n.class, p) {
            Logical::Prop { canon, .. } => seen.insert(canon),
            Logical::Skip => false,
        })
    })
}

pub fn c07(id: &str, f: &Forest, r: &[(CompressionType, Enc)], out: &mut Vec<String>) {
    let mut rng = Rng::new(seed_of(id));
    // (a) the same logical DOM with fresh Refs and another property insertion order
    // round 2: additionally through a longer history (insert a scratch copy, destroy it, insert again)
    for round in 0..3 {
        let mut fresh: HashMap<u64, Ref> = HashMap::new();
        let mut prng = rng.fork();
        let dom2 = forest::build_dom_history(f, &mut |l| *fresh.entry(l).or_insert_with(Ref::new), Some(&mut prng), round == 2);
        let roots2: Vec<Ref> = f.roots.iter().map(|l| *fresh.entry(*l).or_insert_with(Ref::new)).collect();
        for (c, e) in r {
            let e2 = encode(&dom2, &roots2, *c);
            if !same_outcome(e, &e2) {
                let one_spelling = one_spelling(f);
                let key = if one_spelling { "rebuild-differs" } else { "rebuild-differs-two-spellings" };
                out.push(format!("{id} C07 {key} comp={c:?} round={round}: original {} vs rebuilt (fresh Refs, shuffled properties{}) {}", describe(e), if round == 2 { ", after inserting and destroying a scratch copy" } else { "" }, describe(&e2)));
                return;
            }
        }
    }
    // (a') the same DOM through a long-lived Serializer that has already written every earlier case of this process
    // (a value reused across serialize calls must not carry anything over): identical outcome to a fresh one
    {
        thread_local! {
            static REUSED: [rbx_binary::Serializer<'static>; 3] = [
                rbx_binary::Serializer::new().compression_type(CompressionType::None),
                rbx_binary::Serializer::new().compression_type(CompressionType::Lz4),
                rbx_binary::Serializer::new().compression_type(CompressionType::Zstd),
            ];
        }
        let mut fresh: HashMap<u64, Ref> = HashMap::new();
        let dom2 = forest::build_dom_history(f, &mut |l| *fresh.entry(l).or_insert_with(Ref::new), None, false);
        let roots2: Vec<Ref> = f.roots.iter().map(|l| *fresh.entry(*l).or_insert_with(Ref::new)).collect();
        for (c, e) in r {
            let k = match c {
                CompressionType::None => 0,
                CompressionType::Lz4 => 1,
                _ => 2,
            };
            let got = crate::binfile::guarded(|| {
                REUSED.with(|s| {
                    let mut buf = Vec::new();
                    s[k].serialize(&mut buf, &dom2, &roots2).map(|_| buf).map_err(|e| e.to_string())
                })
            });
            let same = match (&got, e) {
                (Ok(Ok(b)), Enc::Bytes(b0)) => b == b0,
                (Ok(Err(_)), Enc::Err(..)) => true,
                (Err(_), Enc::Panic(_)) => true,
                _ => false,
            };
            if !same && one_spelling(f) {
                out.push(format!("{id} C07 reused-serializer-differs comp={c:?}: a Serializer value that has written earlier files gives {} where a fresh one gives {}",
                    match &got { Ok(Ok(b)) => format!("{} bytes", b.len()), Ok(Err(m)) => format!("Err {}", cut(m)), Err(_) => "a panic".to_string() }, describe(e)));
                return;
            }
        }
    }
    if f.opt("rootdup").is_some() {
        // repeated / overlapping roots: determinism only (what such a file means is outside the round-trip properties)
        return;
    }
    // (b) save(load(save d)) = save d, and again
    for (c, e) in r {
        if let Enc::Bytes(b) = e {
            if let Dec::Dom(d1) = decode(b) {
                let e2 = encode(&d1, d1.root().children(), *c);
                match &e2 {
                    Enc::Bytes(b2) => {
                        if b2 != b {
                            // locate the difference on the uncompressed rendering of both DOMs
                            let (u1, u2) = (r.iter().find(|(k, _)| *k == CompressionType::None).map(|(_, e)| e.clone()), encode(&d1, d1.root().children(), CompressionType::None));
                            let mut wher = String::from("?");
                            if let (Some(Enc::Bytes(x)), Enc::Bytes(y)) = (u1, u2) {
                                let off = x.iter().zip(y.iter()).position(|(p, q)| p != q).unwrap_or(x.len().min(y.len()));
                                wher = chunk_at(&x, off);
                            }
                            let suffix = if wher.starts_with("PROP Tags") {
                                "tags"
                            } else if wher.starts_with("PROP UniqueId") {
                                "uniqueid"
                            } else if wher.ends_with("0x22") {
                                "content"
                            } else if wher.starts_with("PROP xmlRead_") {
                                "renamed"
                            } else if wher.starts_with("PROP AttributesSerialize") {
                                "attributes"
                            } else if wher == "SSTR" || wher == "header" || wher == "INST" {
                                "sstr"
                            } else {
                                "other"
                            };
                            // a planted type mismatch (a value whose type is not the property's declared type: option `hostile`) is
                            // coerced by the first save, like C01 the comparison with the first file does not apply; the fixed point
                            // after it (below) does
                            if !(suffix == "other" && f.opt("hostile").is_some()) {
                                out.push(format!("{id} C07 resave-differs-{suffix} comp={c:?}: save(load(save d)) has {} bytes, save d has {} bytes; first differing chunk (uncompressed): {wher}", b2.len(), b.len()));
                            }
                        }
                        if let Dec::Dom(d2) = decode(b2) {
                            let e3 = encode(&d2, d2.root().children(), *c);
                            if !same_outcome(&e2, &e3) {
                                out.push(format!("{id} C07 resave-not-fixed comp={c:?}: second re-save {} vs third {}", describe(&e2), describe(&e3)));
                            }
                        } else {
                            out.push(format!("{id} C07 resave-unreadable comp={c:?}: the re-saved file does not load"));
                        }
                    }
                    other => out.push(format!("{id} C07 resave-fails comp={c:?}: saving the loaded DOM gives {}", describe(other))),
                }
            }
        }
    }
}

fn permutations(n: usize) -> Vec<Vec<usize>> {
    fn go(cur: &mut Vec<usize>, used: &mut Vec<bool>, n: usize, out: &mut Vec<Vec<usize>>) {
        if cur.len() == n {
            out.push(cur.clone());
            return;
        }
        for i in 0..n {
            if !used[i] {
                used[i] = true;
                cur.push(i);
                go(cur, used, n, out);
                cur.pop();
                used[i] = false;
            }
        }
    }
    let mut out = Vec::new();
    go(&mut Vec::new(), &mut vec![false; n], n, &mut out);
    out
}

fn c08_key(f: &Forest) -> &'static str {
    let db = rbx_reflection_database::get();
    // a property the database does not know, given values of different types by the siblings: the column takes the type of the
    // first value met (recorded finding `mixed-types-*`; outside "different SUBSETS of properties")
    let mut first_ty: BTreeMap<&str, VariantType> = BTreeMap::new();
    for n in &f.nodes {
        for (p, v) in &n.props {
            if rbx_binary::verif::find_property_descriptors(db, n.class.as_str().into(), p.as_str().into()).is_none() {
                let t = first_ty.entry(p.as_str()).or_insert(v.ty());
                if *t != v.ty() {
                    return "mixed-types";
                }
            }
        }
    }
    // a legacy (migrating) spelling together with another spelling of the same target
    let mut legacy = false;
    let mut other = false;
    for n in &f.nodes {
        for (p, _) in &n.props {
            if let Some(d) = rbx_binary::verif::find_property_descriptors(db, n.class.as_str().into(), p.as_str().into()) {
                if let Some(s) = d.serialized {
                    if matches!(&s.kind, PropertyKind::Canonical { serialization: PropertySerialization::Migrate(_) }) {
                        legacy = true;
                    } else if d.canonical.name != *p || matches!(&d.canonical.kind, PropertyKind::Canonical { serialization: PropertySerialization::SerializesAs(_) }) {
                        other = true;
                    }
                }
            }
        }
    }
    if legacy && other {
        "migration-order"
    } else if legacy {
        "migration"
    } else {
        "columns"
    }
}

pub fn c08(id: &str, f: &Forest, out: &mut Vec<String>) {
    let n = f.nodes.len();
    if n < 2 || n > 4 || f.opt("hostile").is_some() {
        return;
    }
    if !f.nodes.iter().all(|x| x.parent == 0 && x.class == f.nodes[0].class) {
        return;
    }
    // each instance alone
    let mut alone = Vec::new();
    for x in &f.nodes {
        let mut g = Forest::default();
        g.nodes.push(x.clone());
        g.roots = vec![x.label];
        let mut ctx = RefCtx::new();
        let dom = forest::build_dom(&g, &mut ctx);
        let roots = vec![ctx.ref_of(x.label)];
        alone.push(encode(&dom, &roots, CompressionType::None));
    }
    let all_alone = alone.iter().all(|e| matches!(e, Enc::Bytes(_)));
    let key = c08_key(f);
    let mut outcomes: Vec<(Vec<usize>, Enc)> = Vec::new();
    for perm in permutations(n) {
        let mut g = Forest::default();
        for i in &perm {
            g.nodes.push(f.nodes[*i].clone());
        }
        g.roots = g.nodes.iter().map(|x| x.label).collect();
        let mut ctx = RefCtx::new();
        let dom = forest::build_dom(&g, &mut ctx);
        let roots: Vec<Ref> = g.roots.iter().map(|l| ctx.ref_of(*l)).collect();
        let e = encode(&dom, &roots, CompressionType::None);
        if let Enc::Bytes(b) = &e {
            if let Dec::Dom(d) = decode(b) {
                let fs: Vec<Finding> = compare_roundtrip(&g, &g.roots, &d)
                    .into_iter()
                    .filter(|x| x.key.starts_with("default-") || x.key.starts_with("missing-") || x.key == "gained-foreign" || x.key.starts_with("value-"))
                    .collect();
                if let Some(x) = fs.into_iter().next() {
                    out.push(format!("{id} C08 own-values-{} order={perm:?}: {}", x.key, x.text));
                    return;
                }
            }
        }
        outcomes.push((perm, e));
    }
    let oks: Vec<&(Vec<usize>, Enc)> = outcomes.iter().filter(|(_, e)| matches!(e, Enc::Bytes(_))).collect();
    let bads: Vec<&(Vec<usize>, Enc)> = outcomes.iter().filter(|(_, e)| !matches!(e, Enc::Bytes(_))).collect();
    if !oks.is_empty() && !bads.is_empty() {
        out.push(format!("{id} C08 {key}-order-dependent sibling order {:?} serializes, order {:?} gives {}", oks[0].0, bads[0].0, describe(&bads[0].1)));
    } else if all_alone && !bads.is_empty() {
        out.push(format!("{id} C08 {key}-fails-together each instance serializes alone, together (order {:?}) gives {}", bads[0].0, describe(&bads[0].1)));
    } else if !all_alone && !oks.is_empty() {
        let k = alone.iter().position(|e| !matches!(e, Enc::Bytes(_))).unwrap();
        out.push(format!("{id} C08 {key}-succeeds-together instance {} alone gives {}, yet the set serializes", f.nodes[k].label, describe(&alone[k])));
    }
}

// ------------------------------------------------------------------------------------------ C15 (binary paths)

/// C15 on the two binary paths, for cases generated with `--migrating` (same-class sets around one Migrate pair):
///   write path: DOM -> to_writer -> from_reader (the serializer migrates);
///   read path:  the same DOM serialized with an EMPTY database (so the PROP chunk carries the legacy name and
///               type) -> from_reader with the bundled database (the reader migrates).
/// Expected after either path, per instance: the legacy name is gone (`legacy-survives`); legacy only -> the new
/// property holds migration.perform(legacy) (`value` / `missing`; `unmigratable` when perform fails or the write
/// fails because of it); both -> the explicitly set new value wins (`explicit-loses`); new only -> unchanged.
pub fn c15(id: &str, f: &Forest, r: &[(CompressionType, Enc)], out: &mut Vec<String>) {
    if f.opt("migrating").is_none() || f.nodes.is_empty() {
        return;
    }
    let db = rbx_reflection_database::get();
    let class = f.nodes[0].class.clone();
    // the Migrate descriptors visible on the class
    let mut pairs: Vec<(String, String, &rbx_reflection::PropertyMigration)> = Vec::new();
    {
        let mut cur = db.classes.get(class.as_str());
        let mut guard = 0;
        while let Some(c) = cur {
            for (n, p) in c.properties.iter() {
                if let PropertyKind::Canonical { serialization: PropertySerialization::Migrate(m) } = &p.kind {
                    pairs.push((n.to_string(), m.new_property_name.clone(), m));
                }
            }
            guard += 1;
            if guard > 64 {
                break;
            }
            cur = c.superclass.as_ref().and_then(|s| db.classes.get(s.as_ref()));
        }
    }
    pairs.sort_by(|a, b| a.0.cmp(&b.0));
    // C15 compares modulo the value normalisations that C01 records separately (Font cached_face_id Some("") = None,
    // an EnumItem is written as its Enum value)
    let show = |v: &Variant| -> String {
        let v = match v {
            Variant::Font(f) if f.cached_face_id.as_deref() == Some("") => Variant::Font(Font { cached_face_id: None, ..f.clone() }),
            Variant::EnumItem(e) => Variant::Enum(Enum::from_u32(e.value)),
            other => other.clone(),
        };
        cut(&forest::value_with_labels(&map_refs(&v, &mut |_| Ref::none())))
    };
    let check = |path: &str, f: &Forest, e: &Enc, out: &mut Vec<String>| {
        let quantise = path == "write" || path.starts_with("read-serialized-name");
        let unmig_all: Vec<(String, bool)> = f
            .nodes
            .iter()
            .flat_map(|n| {
                pairs.iter().filter_map(move |(l, _, m)| {
                    n.props.iter().find(|(k, _)| k == l).and_then(|(_, v)| if m.perform(v).is_err() { Some((format!("{}.{l} = {}", n.class, cut(&forest::value_with_labels(v))), recorded_unmigratable(v))) } else { None })
                })
            })
            .collect();
        // failures outside the recorded class first: they decide the key
        let unexpected: Vec<String> = unmig_all.iter().filter(|(_, rec)| !*rec).map(|(t, _)| t.clone()).collect();
        let unmigratable: Vec<String> = unexpected.iter().cloned().chain(unmig_all.iter().filter(|(_, rec)| *rec).map(|(t, _)| t.clone())).collect();
        let unmig_file_key = if !unexpected.is_empty() { "migration-fails" } else { "unmigratable" };
        let bytes = match e {
            Enc::Bytes(b) => b,
            other => {
                if !unmigratable.is_empty() {
                    out.push(format!("{id} C15 {unmig_file_key} path={path} {} has no migration and writing gives {}", unmigratable[0], describe(other)));
                } else {
                    out.push(format!("{id} C15 value path={path} writing fails: {}", describe(other)));
                }
                return;
            }
        };
        let dom = match decode(bytes) {
            Dec::Dom(d) => d,
            Dec::Err(k, m) => {
                let key = if unmigratable.is_empty() { "value" } else { unmig_file_key };
                out.push(format!("{id} C15 {key} path={path} reading fails: {k} {}", cut(&m)));
                return;
            }
            Dec::Panic(m) => {
                out.push(format!("{id} C15 value path={path} reading panics: {}", cut(&m)));
                return;
            }
        };
        let order = f.preorder(&f.roots);
        let kids = dom.root().children();
        if kids.len() != order.len() {
            out.push(format!("{id} C15 value path={path} {} instances written, {} read", order.len(), kids.len()));
            return;
        }
        let mut seen = HashSet::new();
        for (k, l) in order.iter().enumerate() {
            let n = f.node(*l).unwrap();
            let y = dom.get_by_ref(kids[k]).unwrap();
            for (legacy, new_name, m) in &pairs {
                let lv = n.props.iter().find(|(k, _)| k == legacy).map(|(_, v)| v);
                let canon_new = match logical(&n.class, new_name) {
                    Logical::Prop { readback, .. } => readback,
                    Logical::Skip => new_name.clone(),
                };
                let (known, ser_ty) = match logical(&n.class, new_name) {
                    Logical::Prop { known, ser_ty, .. } => (known && quantise, ser_ty),
                    Logical::Skip => (quantise, None),
                };
                let nv = n.props.iter().find(|(k, _)| k == new_name).map(|(_, v)| v);
                let dv = y.properties.get(&canon_new.as_str().into());
                let mut emit = |key: &str, text: String, out: &mut Vec<String>| {
                    if seen.insert(key.to_string()) {
                        out.push(format!("{id} C15 {key} path={path} node {l} {}: {text}", n.class));
                    }
                };
                if lv.is_some() && y.properties.get(&legacy.as_str().into()).is_some() {
                    emit("legacy-survives", format!("legacy property {legacy} is still present after the round trip"), out);
                }
                match (lv, nv) {
                    (Some(l0), None) => match m.perform(l0) {
                        Ok(ev) => {
                            let ev = norm_value(&ev, known, ser_ty);
                            match dv {
                                None => emit("missing", format!("{legacy} = {} should migrate to {new_name} = {}, which is absent", show(l0), show(&ev)), out),
                                Some(d) => {
                                    if show(d) != show(&ev) {
                                        emit("value", format!("{legacy} = {} should migrate to {new_name} = {}, got {}", show(l0), show(&ev), show(d)), out)
                                    }
                                }
                            }
                        }
                        Err(_) => emit(unmig_key(l0), format!("{legacy} = {} has no migration to {new_name}; read back {new_name} = {}", show(l0), dv.map(|d| show(d)).unwrap_or_else(|| "absent".into())), out),
                    },
                    (Some(l0), Some(n0)) => {
                        let ev = norm_value(n0, known, ser_ty);
                        match dv {
                            Some(d) if show(d) == show(&ev) => {}
                            other => emit("explicit-loses", format!("explicit {new_name} = {} next to legacy {legacy} = {}: read back {}", show(&ev), show(l0), other.map(|d| show(d)).unwrap_or_else(|| "absent".into())), out),
                        }
                    }
                    (None, Some(n0)) => {
                        let ev = norm_value(n0, known, ser_ty);
                        match dv {
                            None => emit("missing", format!("{new_name} = {} is absent after the round trip", show(&ev)), out),
                            Some(d) => {
                                if show(d) != show(&ev) {
                                    emit("value", format!("{new_name} = {} read back as {}", show(&ev), show(d)), out)
                                }
                            }
                        }
                    }
                    (None, None) => {}
                }
            }
        }
    };
    // write path
    if let Some((_, e)) = r.iter().find(|(c, _)| *c == CompressionType::None) {
        check("write", f, e, out);
    }
    // read path: the legacy names reach the file because the writing database knows nothing; one file per
    // instance, so that no column default stands in for a property the instance does not carry
    let empty = rbx_reflection::ReflectionDatabase::new();
    for n in &f.nodes {
        let mut g = Forest::default();
        g.nodes.push(n.clone());
        g.roots = vec![n.label];
        let mut ctx = RefCtx::new();
        let dom = forest::build_dom(&g, &mut ctx);
        let roots: Vec<Ref> = vec![ctx.ref_of(n.label)];
        let e = match crate::binfile::guarded(|| {
            let mut buf = Vec::new();
            rbx_binary::Serializer::new().reflection_database(&empty).compression_type(CompressionType::None).serialize(&mut buf, &dom, &roots).map(|_| buf)
        }) {
            Ok(Ok(b)) => Enc::Bytes(b),
            Ok(Err(e)) => Enc::Err("io".into(), e.to_string()),
            Err(p) => Enc::Panic(p),
        };
        let before = out.len();
        check("read", &g, &e, out);
        if out.len() > before {
            break;
        }
        // the same file with its PROP chunks in the opposite order: "regardless of the order in which the two are encountered"
        if let Enc::Bytes(b) = &e {
            if let Some(rev) = reverse_props(b) {
                check("read-reversed", &g, &Enc::Bytes(rev), out);
                if out.len() > before {
                    break;
                }
            }
        }
        // ... and with the explicit new property spelled the way real files spell it: under its SERIALIZED name and type
        // (BasePart.Color is `Color3uint8` in files), legacy chunk before and after it
        for (legacy, new_name, _) in &pairs {
            if !(n.props.iter().any(|(k, _)| k == legacy) && n.props.iter().any(|(k, _)| k == new_name)) {
                continue;
            }
            let Some(ser) = rbx_binary::verif::find_property_descriptors(db, rbx_dom_weak::ustr(&n.class), rbx_dom_weak::ustr(new_name)).and_then(|d| d.serialized) else { continue };
            if ser.name == *new_name {
                continue;
            }
            let mut n2 = n.clone();
            for (k, v) in n2.props.iter_mut() {
                if k == new_name {
                    *k = ser.name.to_string();
                    if let Variant::Color3(c) = v {
                        *v = Variant::Color3uint8((*c).into());
                    }
                }
            }
            let mut g2 = Forest::default();
            g2.nodes.push(n2);
            g2.roots = vec![n.label];
            let mut ctx2 = RefCtx::new();
            let dom2 = forest::build_dom(&g2, &mut ctx2);
            let roots2: Vec<Ref> = vec![ctx2.ref_of(n.label)];
            if let Ok(Ok(b2)) = crate::binfile::guarded(|| {
                let mut buf = Vec::new();
                rbx_binary::Serializer::new().reflection_database(&empty).compression_type(CompressionType::None).serialize(&mut buf, &dom2, &roots2).map(|_| buf)
            }) {
                check("read-serialized-name", &g, &Enc::Bytes(b2.clone()), out);
                if let Some(rev) = reverse_props(&b2) {
                    check("read-serialized-name-reversed", &g, &Enc::Bytes(rev), out);
                }
            }
            if out.len() > before {
                break;
            }
        }
        if out.len() > before {
            break;
        }
    }
}

/// the same uncompressed file with its PROP chunks in the opposite order (None when the file does not de-frame)
fn reverse_props(bytes: &[u8]) -> Option<Vec<u8>> {
    let (header, chunks) = crate::binfile::deframe(bytes)?;
    let props: Vec<usize> = chunks.iter().enumerate().filter(|(_, (n, _))| n == b"PROP").map(|(i, _)| i).collect();
    if props.len() < 2 {
        return None;
    }
    let mut order: Vec<usize> = (0..chunks.len()).collect();
    for (a, b) in props.iter().zip(props.iter().rev()) {
        order[*a] = *b;
    }
    let mut out = header;
    for i in order {
        let (name, data) = &chunks[i];
        out.extend_from_slice(name);
        out.extend_from_slice(&0u32.to_le_bytes());
        out.extend_from_slice(&(data.len() as u32).to_le_bytes());
        out.extend_from_slice(&0u32.to_le_bytes());
        out.extend_from_slice(data);
    }
    Some(out)
}

/// the database default a class column must show for instances lacking the property: the entry of the NEAREST class in the
/// superclass chain that has one.  Walked here independently of `ReflectionDatabase::find_default_property`, which is
/// code under test.
pub fn nearest_default(db: &rbx_reflection::ReflectionDatabase<'static>, class: &str, prop: &str) -> Option<Variant> {
    let mut cur = db.classes.get(class);
    let mut steps = 0usize;
    while let Some(c) = cur {
        if let Some(v) = c.default_properties.get(prop) {
            return Some(v.clone());
        }
        cur = c.superclass.as_ref().and_then(|s| db.classes.get(s.as_ref()));
        steps += 1;
        if steps > db.classes.len() {
            break;
        }
    }
    None
}

/// the recorded class of C15's `unmigratable` finding: Enum.Font items above 45 (no FontToFontFace entry).  A legacy value
/// OUTSIDE this class that PropertyMigration::perform rejects is a different failure and gets the key `migration-fails`.
pub fn recorded_unmigratable(v: &Variant) -> bool {
    match v {
        Variant::Enum(e) => e.to_u32() > 45,
        Variant::EnumItem(e) => e.value > 45,
        _ => false,
    }
}
pub fn unmig_key(v: &Variant) -> &'static str {
    if recorded_unmigratable(v) { "unmigratable" } else { "migration-fails" }
}
