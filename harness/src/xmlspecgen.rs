//! xmlspecgen: an independent generator of Roblox XML documents written from /repo/docs/xml.md only.
use crate::rng::Rng;
pub fn gen_foreign_case(_rng: &mut Rng) -> Vec<String> {
    vec!["kind text".into(), "opt dec IgnoreUnknown".into(), "text -".into()]
}
