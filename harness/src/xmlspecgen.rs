//! xmlspecgen: an INDEPENDENT writer of Roblox XML documents, written from /repo/docs/xml.md only (it shares no code
//! with rbx_xml: no XmlType impls, no xml-rs).  It renders a logical DOM as text while exercising the freedoms the
//! document leaves to a writer: UUID-style referents, any property order, indentation, Meta / External elements,
//! extra attributes on `roblox`, forward references, ProtectedString, CDATA or escaped text, line-wrapped base64,
//! `url` / `null` content forms, alternative float spellings (`+INF`, exponents, leading `+`, trailing `.0`),
//! the SharedStrings dictionary before or after the Items, self-closing empty elements, an XML declaration, comments
//! between elements.  C05 reader direction: `rbx_xml::from_reader` must decode such a document to the DOM it describes.
use crate::rng::Rng;
use crate::val::{self};
use crate::xmlchannel::gen_xml_text;
use crate::xmlfile::*;
use crate::xmloracle::{cmp_dom, decoded_order, ExpNode};
use rbx_reflection::{DataType, PropertyKind, PropertySerialization};
use rbx_types::*;
use std::collections::{BTreeMap, HashMap};

// ------------------------------------------------------------------------------------------ rendering (docs/xml.md)

pub struct Style {
    pub indent: u64,          // 0 none, 1 tabs + \n, 2 two spaces + \n, 3 \r\n + tabs
    pub cdata_pct: u64,       // strings as CDATA
    pub wrap: usize,          // base64 line length, 0 = one line
    pub alt_floats: bool,
    pub self_close: bool,
    pub uuid_referents: bool,
    pub comments: bool,
}

fn esc_text(s: &str) -> String {
    s.replace('&', "&amp;").replace('<', "&lt;").replace('>', "&gt;")
}
fn esc_attr(s: &str) -> String {
    esc_text(s).replace('"', "&quot;").replace('\n', "&#10;").replace('\r', "&#13;").replace('\t', "&#9;")
}

const B64: &[u8; 64] = b"ABCDEFGHIJKLMNOPQRSTUVWXYZabcdefghijklmnopqrstuvwxyz0123456789+/";
/// RFC 2045 base64
pub fn base64(data: &[u8], wrap: usize, crlf: bool) -> String {
    let mut out = String::new();
    for c in data.chunks(3) {
        let b = [c[0], *c.get(1).unwrap_or(&0), *c.get(2).unwrap_or(&0)];
        out.push(B64[(b[0] >> 2) as usize] as char);
        out.push(B64[(((b[0] & 3) << 4) | (b[1] >> 4)) as usize] as char);
        out.push(if c.len() > 1 { B64[(((b[1] & 15) << 2) | (b[2] >> 6)) as usize] as char } else { '=' });
        out.push(if c.len() > 2 { B64[(b[2] & 63) as usize] as char } else { '=' });
    }
    if wrap == 0 || out.len() <= wrap {
        return out;
    }
    let nl = if crlf { "\r\n" } else { "\n" };
    out.as_bytes().chunks(wrap).map(|c| std::str::from_utf8(c).unwrap()).collect::<Vec<_>>().join(nl)
}

pub struct Renderer<'a> {
    pub rng: &'a mut Rng,
    pub st: Style,
    pub out: String,
    pub depth: usize,
}

impl<'a> Renderer<'a> {
    fn nl(&mut self) {
        match self.st.indent {
            1 => {
                self.out.push('\n');
                for _ in 0..self.depth {
                    self.out.push('\t');
                }
            }
            2 => {
                self.out.push('\n');
                for _ in 0..self.depth {
                    self.out.push_str("  ");
                }
            }
            3 => {
                self.out.push_str("\r\n");
                for _ in 0..self.depth {
                    self.out.push('\t');
                }
            }
            _ => {}
        }
        if self.st.comments && self.rng.chance(5) {
            self.out.push_str("<!-- a comment -->");
        }
    }
    pub fn open(&mut self, tag: &str, attrs: &[(&str, &str)]) {
        self.nl();
        self.out.push('<');
        self.out.push_str(tag);
        for (k, v) in attrs {
            self.out.push_str(&format!(" {k}=\"{}\"", esc_attr(v)));
        }
        self.out.push('>');
        self.depth += 1;
    }
    pub fn close(&mut self, tag: &str) {
        self.depth -= 1;
        self.nl();
        self.out.push_str(&format!("</{tag}>"));
    }
    /// an element whose content is character data (no whitespace may be added inside)
    pub fn leaf(&mut self, tag: &str, attrs: &[(&str, &str)], text: &str, may_cdata: bool) {
        self.nl();
        self.out.push('<');
        self.out.push_str(tag);
        for (k, v) in attrs {
            self.out.push_str(&format!(" {k}=\"{}\"", esc_attr(v)));
        }
        if text.is_empty() && self.st.self_close && self.rng.chance(50) {
            self.out.push_str("/>");
            return;
        }
        self.out.push('>');
        let only_ws = !text.is_empty() && text.chars().all(|c| matches!(c, ' ' | '\t' | '\n' | '\r'));
        let outer_ws = text.starts_with(|c: char| c.is_whitespace()) || text.ends_with(|c: char| c.is_whitespace());
        if may_cdata && !text.contains("]]>") && (only_ws || outer_ws || self.rng.chance(self.st.cdata_pct)) {
            // "Whitespace MUST be preserved": CDATA keeps text that an XML reader would otherwise treat as ignorable
            self.out.push_str(&format!("<![CDATA[{text}]]>"));
        } else {
            self.out.push_str(&esc_text(text).replace('\r', "&#13;"));
        }
        self.out.push_str(&format!("</{tag}>"));
    }
    pub fn float32(&mut self, x: f32) -> String {
        self.float(x as f64, format!("{}", x), format!("{:e}", x))
    }
    fn float(&mut self, x: f64, plain: String, exp: String) -> String {
        if x.is_nan() {
            return "NAN".into();
        }
        if x == f64::INFINITY {
            return if self.st.alt_floats && self.rng.chance(50) { "+INF".into() } else { "INF".into() };
        }
        if x == f64::NEG_INFINITY {
            return "-INF".into();
        }
        if !self.st.alt_floats {
            return plain;
        }
        match self.rng.below(6) {
            0 => exp,
            1 => exp.replace('e', "E"),
            2 if !plain.starts_with('-') => format!("+{plain}"),
            3 if !plain.contains('.') => format!("{plain}.0"),
            4 if !plain.contains('.') => format!("{plain}."),
            _ => plain,
        }
    }
    pub fn float64(&mut self, x: f64) -> String {
        self.float(x, format!("{}", x), format!("{:e}", x))
    }
    fn f32_leaf(&mut self, tag: &str, x: f32) {
        let t = self.float32(x);
        self.leaf(tag, &[], &t, false);
    }
    fn v3(&mut self, v: &Vector3) {
        self.f32_leaf("X", v.x);
        self.f32_leaf("Y", v.y);
        self.f32_leaf("Z", v.z);
    }
    fn cframe(&mut self, c: &CFrame) {
        self.v3(&c.position);
        let o = &c.orientation;
        for (t, x) in [("R00", o.x.x), ("R01", o.x.y), ("R02", o.x.z), ("R10", o.y.x), ("R11", o.y.y), ("R12", o.y.z), ("R20", o.z.x), ("R21", o.z.y), ("R22", o.z.z)] {
            self.f32_leaf(t, x);
        }
    }
    fn content_child(&mut self, uri: &str, tag: &str) {
        if uri.is_empty() {
            // "MUST include an opening and closing tag", "MUST be empty"
            self.nl();
            self.out.push_str("<null></null>");
        } else {
            self.leaf(tag, &[], uri, true);
        }
    }

    /// one type element (docs/xml.md "Type Elements"); `referent_of` gives the referent string of a label,
    /// `md5_of` the dictionary key of a shared string
    pub fn property(&mut self, name: &str, v: &Variant, referent_of: &dyn Fn(Ref) -> Option<String>, md5_of: &dyn Fn(&[u8]) -> String) -> bool {
        let a = [("name", name)];
        match v {
            Variant::Axes(x) => {
                self.open("Axes", &a);
                self.leaf("axes", &[], &x.bits().to_string(), false);
                self.close("Axes");
            }
            Variant::BinaryString(b) => {
                let t = base64(b.as_ref(), self.st.wrap, self.st.indent == 3);
                self.leaf("BinaryString", &a, &t, false);
            }
            Variant::Tags(t) => {
                let t = base64(&t.encode(), self.st.wrap, false);
                self.leaf("BinaryString", &a, &t, false);
            }
            Variant::Bool(b) => self.leaf("bool", &a, if *b { "true" } else { "false" }, false),
            Variant::BrickColor(b) => self.leaf("int", &a, &(*b as u16).to_string(), false),
            Variant::Color3(c) => {
                self.open("Color3", &a);
                self.f32_leaf("R", c.r);
                self.f32_leaf("G", c.g);
                self.f32_leaf("B", c.b);
                self.close("Color3");
            }
            Variant::Color3uint8(c) => {
                // "The upper 8 bits of the value SHOULD be filled with FF"
                let hi: u32 = if self.rng.chance(80) { 0xFF00_0000 } else { 0 };
                let p = hi | ((c.r as u32) << 16) | ((c.g as u32) << 8) | c.b as u32;
                self.leaf("Color3uint8", &a, &p.to_string(), false);
            }
            Variant::ColorSequence(s) => {
                let mut t = String::new();
                for k in &s.keypoints {
                    for x in [k.time, k.color.r, k.color.g, k.color.b] {
                        t.push_str(&self.float32(x));
                        t.push(' ');
                    }
                    t.push_str("0 ");
                }
                self.leaf("ColorSequence", &a, &t, false);
            }
            Variant::NumberSequence(s) => {
                let mut t = String::new();
                for k in &s.keypoints {
                    for x in [k.time, k.value, k.envelope] {
                        t.push_str(&self.float32(x));
                        t.push(' ');
                    }
                }
                self.leaf("NumberSequence", &a, &t, false);
            }
            Variant::NumberRange(r) => {
                let t = format!("{} {} ", self.float32(r.min), self.float32(r.max));
                self.leaf("NumberRange", &a, &t, false);
            }
            Variant::Content(c) => {
                self.open("Content", &a);
                match c.value() {
                    ContentType::Uri(u) => self.leaf("uri", &[], u, true),
                    ContentType::Object(r) => {
                        let t = referent_of(*r).unwrap_or_else(|| "null".into());
                        self.leaf("Ref", &[], &t, false);
                    }
                    _ => {
                        self.nl();
                        self.out.push_str("<null></null>");
                    }
                }
                self.close("Content");
            }
            Variant::ContentId(c) => {
                self.open("ContentId", &a);
                self.content_child(c.as_str(), "url");
                self.close("ContentId");
            }
            Variant::CFrame(c) => {
                self.open("CoordinateFrame", &a);
                self.cframe(c);
                self.close("CoordinateFrame");
            }
            Variant::OptionalCFrame(c) => {
                self.open("OptionalCoordinateFrame", &a);
                if let Some(c) = c {
                    self.open("CFrame", &[]);
                    self.cframe(c);
                    self.close("CFrame");
                }
                self.close("OptionalCoordinateFrame");
            }
            Variant::Float64(x) => {
                let t = self.float64(*x);
                self.leaf("double", &a, &t, false);
            }
            Variant::Float32(x) => {
                let t = self.float32(*x);
                self.leaf("float", &a, &t, false);
            }
            Variant::Faces(x) => {
                self.open("Faces", &a);
                self.leaf("faces", &[], &x.bits().to_string(), false);
                self.close("Faces");
            }
            Variant::Font(f) => {
                self.open("Font", &a);
                self.open("Family", &[]);
                self.content_child(&f.family, "url");
                self.close("Family");
                self.leaf("Weight", &[], &f.weight.as_u16().to_string(), false);
                self.leaf("Style", &[], if matches!(f.style, FontStyle::Italic) { "Italic" } else { "Normal" }, false);
                if let Some(c) = &f.cached_face_id {
                    self.open("CachedFaceId", &[]);
                    self.content_child(c, "url");
                    self.close("CachedFaceId");
                }
                self.close("Font");
            }
            Variant::Int32(x) => self.leaf("int", &a, &x.to_string(), false),
            Variant::Int64(x) => self.leaf("int64", &a, &x.to_string(), false),
            Variant::PhysicalProperties(p) => {
                self.open("PhysicalProperties", &a);
                match p {
                    PhysicalProperties::Custom(c) => {
                        self.leaf("CustomPhysics", &[], "true", false);
                        self.f32_leaf("Density", c.density);
                        self.f32_leaf("Friction", c.friction);
                        self.f32_leaf("Elasticity", c.elasticity);
                        self.f32_leaf("FrictionWeight", c.friction_weight);
                        self.f32_leaf("ElasticityWeight", c.elasticity_weight);
                    }
                    _ => self.leaf("CustomPhysics", &[], "false", false),
                }
                self.close("PhysicalProperties");
            }
            Variant::Ray(r) => {
                self.open("Ray", &a);
                self.open("origin", &[]);
                self.v3(&r.origin);
                self.close("origin");
                self.open("direction", &[]);
                self.v3(&r.direction);
                self.close("direction");
                self.close("Ray");
            }
            Variant::Rect(r) => {
                self.open("Rect2D", &a);
                self.open("min", &[]);
                self.f32_leaf("X", r.min.x);
                self.f32_leaf("Y", r.min.y);
                self.close("min");
                self.open("max", &[]);
                self.f32_leaf("X", r.max.x);
                self.f32_leaf("Y", r.max.y);
                self.close("max");
                self.close("Rect2D");
            }
            Variant::Ref(r) => {
                let t = if r.is_none() { "null".to_string() } else { referent_of(*r).unwrap_or_else(|| "RBXFFFFFFFFFFFFFFFFFFFFFFFFFFFFFFFF".into()) };
                self.leaf("Ref", &a, &t, false);
            }
            Variant::SharedString(s) => {
                let t = md5_of(s.data());
                self.leaf("SharedString", &a, &t, false);
            }
            Variant::String(s) => {
                let tag = if self.rng.chance(25) { "ProtectedString" } else { "string" };
                self.leaf(tag, &a, s, true);
            }
            Variant::Enum(e) => self.leaf("token", &a, &e.to_u32().to_string(), false),
            Variant::UDim(u) => {
                self.open("UDim", &a);
                self.f32_leaf("S", u.scale);
                self.leaf("O", &[], &u.offset.to_string(), false);
                self.close("UDim");
            }
            Variant::UDim2(u) => {
                self.open("UDim2", &a);
                self.f32_leaf("XS", u.x.scale);
                self.leaf("XO", &[], &u.x.offset.to_string(), false);
                self.f32_leaf("YS", u.y.scale);
                self.leaf("YO", &[], &u.y.offset.to_string(), false);
                self.close("UDim2");
            }
            Variant::UniqueId(u) => {
                // 16 bytes in hexadecimal: Random (u64), Time (u32), Index (u32)
                let t = format!("{:016x}{:08x}{:08x}", u.random() as u64, u.time(), u.index());
                self.leaf("UniqueId", &a, &t, false);
            }
            Variant::Vector2(v) => {
                self.open("Vector2", &a);
                self.f32_leaf("X", v.x);
                self.f32_leaf("Y", v.y);
                self.close("Vector2");
            }
            Variant::Vector3(v) => {
                self.open("Vector3", &a);
                self.v3(v);
                self.close("Vector3");
            }
            Variant::Vector3int16(v) => {
                self.open("Vector3int16", &a);
                self.leaf("X", &[], &v.x.to_string(), false);
                self.leaf("Y", &[], &v.y.to_string(), false);
                self.leaf("Z", &[], &v.z.to_string(), false);
                self.close("Vector3int16");
            }
            Variant::SecurityCapabilities(_) | Variant::Vector2int16(_) | Variant::Attributes(_) | Variant::MaterialColors(_) => return false, // not described by docs/xml.md
            _ => return false,
        }
        true
    }
}

pub struct DocOpts {
    pub shuffle_props: bool,
    pub meta: bool,
    pub external: bool,
    pub studio_attrs: bool,
    pub decl: bool,
    pub dict_first: bool,
}

/// the whole document for a logical forest (all top-level nodes are written)
pub fn render(rng: &mut Rng, f: &Forest, st: Style, o: &DocOpts) -> String {
    // referents: unique, never `null`
    let mut referents: HashMap<u64, String> = HashMap::new();
    for n in &f.nodes {
        let r = if st.uuid_referents {
            format!("RBX{:016X}{:016X}", rng.next(), n.label)
        } else {
            match rng.below(3) {
                0 => format!("{}", 1000 - n.label as i64),
                1 => format!("ref-{}", n.label),
                _ => format!("{:x}", n.label * 7919),
            }
        };
        referents.insert(n.label, r);
    }
    let syn: HashMap<Ref, u64> = (1..=(f.nodes.len() as u64 + 64)).map(|l| (val::synthetic_ref(l), l)).collect();
    let referent_of = |r: Ref| syn.get(&r).and_then(|l| referents.get(l)).cloned();
    // SharedString keys: "does not have to be the MD5 hash"
    let mut keys: BTreeMap<Vec<u8>, String> = BTreeMap::new();
    for n in &f.nodes {
        for (_, v) in &n.props {
            if let Variant::SharedString(s) = v {
                let k = keys.len();
                keys.entry(s.data().to_vec()).or_insert_with(|| base64(format!("key{k:013}").as_bytes(), 0, false));
            }
        }
    }
    let keys2 = keys.clone();
    let md5_of = move |c: &[u8]| keys2.get(c).cloned().unwrap_or_default();

    let mut r = Renderer { rng, st, out: String::new(), depth: 0 };
    if o.decl {
        r.out.push_str("<?xml version=\"1.0\" encoding=\"utf-8\"?>");
        if r.st.indent == 0 {
            r.out.push('\n');
        }
    }
    let mut root_attrs: Vec<(&str, &str)> = Vec::new();
    if o.studio_attrs {
        root_attrs.push(("xmlns:xmime", "http://www.w3.org/2005/05/xmlmime"));
        root_attrs.push(("xmlns:xsi", "http://www.w3.org/2001/XMLSchema-instance"));
        root_attrs.push(("xsi:noNamespaceSchemaLocation", "http://www.roblox.com/roblox.xsd"));
    }
    root_attrs.push(("version", "4"));
    r.open("roblox", &root_attrs);
    if o.meta {
        r.leaf("Meta", &[("name", "ExplicitAutoJoints")], "true", false);
    }
    if o.external {
        r.leaf("External", &[], "null", false);
        r.leaf("External", &[], "nil", false);
    }
    let dict = |r: &mut Renderer| {
        if !keys.is_empty() {
            r.open("SharedStrings", &[]);
            for (content, key) in &keys {
                let t = base64(content, r.st.wrap, false);
                r.leaf("SharedString", &[("md5", key)], &t, false);
            }
            r.close("SharedStrings");
        }
    };
    if o.dict_first {
        dict(&mut r);
    }
    fn item(r: &mut Renderer, f: &Forest, n: &Node, referents: &HashMap<u64, String>, referent_of: &dyn Fn(Ref) -> Option<String>, md5_of: &dyn Fn(&[u8]) -> String, shuffle: bool) {
        let referent = &referents[&n.label];
        if r.rng.chance(50) {
            r.open("Item", &[("class", &n.class), ("referent", referent)]);
        } else {
            r.open("Item", &[("referent", referent), ("class", &n.class)]);
        }
        let mut props: Vec<(String, Variant)> = n.props.clone();
        props.push(("Name".into(), Variant::String(n.name.clone())));
        if shuffle {
            r.rng.shuffle(&mut props);
        }
        r.open("Properties", &[]);
        for (k, v) in &props {
            r.property(k, v, referent_of, md5_of);
        }
        r.close("Properties");
        for c in f.nodes.iter().filter(|c| c.parent == n.label) {
            item(r, f, c, referents, referent_of, md5_of, shuffle);
        }
        r.close("Item");
    }
    for n in f.nodes.iter().filter(|n| n.parent == 0) {
        item(&mut r, f, n, &referents, &referent_of, &md5_of, o.shuffle_props);
    }
    if !o.dict_first {
        dict(&mut r);
    }
    r.close("roblox");
    if r.rng.chance(30) {
        r.out.push('\n');
    }
    r.out
}

// ------------------------------------------------------------------------------------------ logical DOMs

/// types docs/xml.md describes
const SPEC_TYPES: [VariantType; 34] = [
    VariantType::Axes, VariantType::BinaryString, VariantType::Bool, VariantType::BrickColor, VariantType::Color3, VariantType::Color3uint8,
    VariantType::ColorSequence, VariantType::Content, VariantType::ContentId, VariantType::CFrame, VariantType::Float64, VariantType::Faces,
    VariantType::Float32, VariantType::Font, VariantType::Int32, VariantType::Int64, VariantType::NumberRange, VariantType::NumberSequence,
    VariantType::OptionalCFrame, VariantType::PhysicalProperties, VariantType::Ray, VariantType::Rect, VariantType::Ref, VariantType::SharedString,
    VariantType::String, VariantType::Enum, VariantType::UDim, VariantType::UDim2, VariantType::UniqueId, VariantType::Vector2, VariantType::Vector3,
    VariantType::Vector3int16, VariantType::Tags, VariantType::Bool,
];

fn spec_value(rng: &mut Rng, ty: VariantType, n: u64) -> Variant {
    let mut v = crate::xmlgen::gen_value(rng, ty, n, true);
    // documented constraints on values
    match &mut v {
        Variant::ColorSequence(s) => {
            while s.keypoints.len() < 2 {
                s.keypoints.push(ColorSequenceKeypoint::new(1.0, Color3::new(0.5, 0.25, 1.0)));
            }
            s.keypoints[0].time = 0.0;
            let k = s.keypoints.len();
            s.keypoints[k - 1].time = 1.0;
        }
        Variant::NumberSequence(s) => {
            while s.keypoints.len() < 2 {
                s.keypoints.push(NumberSequenceKeypoint::new(1.0, 2.0, 0.0));
            }
            s.keypoints[0].time = 0.0;
            let k = s.keypoints.len();
            s.keypoints[k - 1].time = 1.0;
        }
        Variant::Content(c) => {
            if let ContentType::Object(_) = c.value() {
                v = Variant::Content(Content::none());
            }
        }
        Variant::Ref(r) => {
            // a Ref is empty or names an Item of the file
            let ok = (1..=n).any(|l| val::synthetic_ref(l) == *r);
            if !ok {
                v = Variant::Ref(Ref::none());
            }
        }
        _ => {}
    }
    v
}

/// a logical DOM over database classes whose properties are spelled the way Roblox serializes them
pub fn gen_logical(rng: &mut Rng) -> Forest {
    let n = rng.range(1, 7);
    let mut f = Forest::default();
    for i in 1..=n {
        let parent = if i == 1 || rng.chance(35) { 0 } else { rng.range(1, i - 1) };
        let class = rng.pick(&crate::xmlgen::KNOWN_CLASSES).to_string();
        let name = gen_xml_text(rng);
        let mut props: Vec<(String, Variant)> = Vec::new();
        let descs: Vec<_> = class_props(&class)
            .into_iter()
            .filter(|p| match &p.kind {
                PropertyKind::Canonical { serialization: PropertySerialization::Serializes } => p.name != "Name",
                _ => false,
            })
            .filter(|p| match &p.data_type {
                DataType::Value(t) => SPEC_TYPES.contains(t),
                DataType::Enum(_) => true,
                _ => false,
            })
            .collect();
        for _ in 0..rng.below(7) {
            if descs.is_empty() {
                break;
            }
            let p = *rng.pick(&descs);
            let ty = data_type_vt(&p.data_type);
            props.push((p.name.to_string(), spec_value(rng, ty, n)));
        }
        if rng.chance(25) {
            // a property the database does not know: dropped by a reader with default options
            let ty = *rng.pick(&SPEC_TYPES);
            props.push((rng.pick(&["FutureProperty", "zzNew", "Another"]).to_string(), spec_value(rng, ty, n)));
        }
        let mut seen = std::collections::BTreeSet::new();
        props.retain(|(k, _)| seen.insert(k.clone()));
        f.nodes.push(Node { label: i, parent, class, name, props });
    }
    f
}

pub fn gen_style(rng: &mut Rng) -> (Style, DocOpts) {
    (
        Style {
            indent: rng.below(4),
            cdata_pct: *rng.pick(&[0, 30, 100]),
            wrap: *rng.pick(&[0, 72, 76, 16]),
            alt_floats: rng.chance(60),
            self_close: rng.chance(50),
            uuid_referents: rng.chance(70),
            comments: rng.chance(30),
        },
        DocOpts { shuffle_props: rng.chance(80), meta: rng.chance(50), external: rng.chance(50), studio_attrs: rng.chance(50), decl: rng.chance(30), dict_first: rng.chance(40) },
    )
}

pub fn gen_foreign_case(rng: &mut Rng) -> Vec<String> {
    let f = gen_logical(rng);
    let (st, o) = gen_style(rng);
    let text = render(rng, &f, st, &o);
    let dec = if rng.chance(75) { "IgnoreUnknown" } else { "ReadUnknown" };
    text_case_lines(text.as_bytes(), dec, Some(&f), &[("stream".into(), "foreign".into())])
}

// ------------------------------------------------------------------------------------------ C05 reader oracle

pub fn check_foreign(id: &str, lines: &[String], d: &Dec, dec: &str, stats: &mut BTreeMap<String, u64>, out: &mut Vec<String>) {
    let f = match parse_forest(lines, "expect ") {
        Ok(f) => f,
        Err(_) => return,
    };
    *stats.entry("c05_reader_checked".into()).or_insert(0) += 1;
    let dd = match d {
        Dec::Ok(dd) => dd,
        Dec::Err(m) => {
            let neg = f.nodes.iter().any(|n| n.props.iter().any(|(_, v)| matches!(v, Variant::UniqueId(u) if u.random() < 0)));
            let key = if neg && decode_error_class(m) == "type" { "uniqueid-negative" } else { "reader-rejects" };
            out.push(format!("{id} C05 {key} a spec-conformant document is rejected: {}", m.chars().take(200).collect::<String>()));
            return;
        }
        Dec::Panic(m) => {
            out.push(format!("{id} C05 reader-panics a spec-conformant document makes the reader panic: {}", m.chars().take(200).collect::<String>()));
            return;
        }
    };
    // pre-order of the logical forest
    let mut order: Vec<u64> = Vec::new();
    fn walk(f: &Forest, l: u64, out: &mut Vec<u64>) {
        for n in f.nodes.iter().filter(|n| n.parent == l) {
            out.push(n.label);
            walk(f, n.label, out);
        }
    }
    walk(&f, 0, &mut order);
    let dorder = decoded_order(dd);
    if dorder.len() != order.len() {
        out.push(format!("{id} C05 tree the document describes {} instances, {} were decoded", order.len(), dorder.len()));
        return;
    }
    let pos: HashMap<u64, usize> = order.iter().enumerate().map(|(i, l)| (*l, i)).collect();
    let node: HashMap<u64, &Node> = f.nodes.iter().map(|n| (n.label, n)).collect();
    let syn: HashMap<Ref, u64> = (1..=(f.nodes.len() as u64 + 64)).map(|l| (val::synthetic_ref(l), l)).collect();
    let mut exp = Vec::new();
    for l in &order {
        let n = node[l];
        let mut props: BTreeMap<String, Option<Variant>> = BTreeMap::new();
        for (k, v) in &n.props {
            let known = rbx_xml::verif::find_canonical_property_descriptor(&n.class, k, db()).is_some();
            if !known && dec == "IgnoreUnknown" {
                continue;
            }
            let v2 = match v {
                Variant::Ref(r) => Variant::Ref(syn.get(r).and_then(|t| pos.get(t)).map(|p| dorder[*p]).unwrap_or_else(Ref::none)),
                Variant::Tags(t) if !known => Variant::BinaryString(t.encode().into()),
                Variant::BrickColor(b) if !known => Variant::Int32(*b as u16 as i32),
                other => other.clone(),
            };
            props.insert(k.clone(), Some(v2));
        }
        exp.push(ExpNode { parent: if n.parent == 0 { 0 } else { pos[&n.parent] as u64 + 1 }, class: n.class.clone(), name: Some(n.name.clone()), name_key: "name", props });
    }
    let before = out.len();
    cmp_dom(id, "C05", &exp, dd, &dorder, out);
    // classify the failures that belong to documented discrepancies
    for l in out[before..].iter_mut() {
        if l.contains(" prop-value ") && l.contains(" UId ") {
            *l = l.replacen(" prop-value ", " uniqueid-rotation ", 1);
        }
    }
}
