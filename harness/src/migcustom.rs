//! migcustom: C15 under a reflection database other than the bundled one ("configurations" in the property's
//! quantifier).  Every reader and writer takes the database as an option; the custom database here is the bundled one
//! plus, for every class that declares a migrating property, a subclass `Zz<Class>` that only the custom database
//! knows and that inherits the migration.  A code path that consults the bundled database instead of the one it was
//! handed behaves correctly on every class of the bundled database and wrongly on these.
//!
//! Per (subclass, migrating pair, legacy value, with/without explicit new value) four paths are run with the custom
//! database on both ends:
//!   xml-write   DOM with the legacy name  -> rbx_xml (custom db)    -> rbx_xml reader (custom db)
//!   bin-write   DOM with the legacy name  -> rbx_binary (custom db) -> rbx_binary reader (custom db)
//!   xml-read    file written with an EMPTY database (legacy name kept verbatim) -> rbx_xml reader (custom db)
//!   bin-read    file written with an EMPTY database                            -> rbx_binary reader (custom db)
//! Expected (as in xmlmig.rs): the new canonical property holds the explicit value if given, else
//! `PropertyMigration::perform(legacy)`; the legacy name is absent.
//!
//!   migcustom-run --seed N CASES ORACLE STATS [--only <case id>]
//! CASES: blocks `== <id>` + descriptive lines (replayable with --only); ORACLE: `<id> C15 <key> <message>`
use crate::rng::Rng;
use crate::val::{self, RefCtx};
use crate::xmlmig::{self, Pair};
use rbx_dom_weak::{InstanceBuilder, WeakDom};
use rbx_reflection::{ClassDescriptor, ReflectionDatabase};
use rbx_types::*;
use rbx_xml::verif::find_canonical_property_descriptor;
use std::collections::BTreeMap;
use std::io::Write;

fn tokens(v: &Variant) -> String {
    val::value_string(v, &mut RefCtx::new())
}

pub fn custom_database(pairs: &[Pair]) -> ReflectionDatabase<'static> {
    let mut db = rbx_reflection_database::get().clone();
    let mut classes: Vec<&str> = pairs.iter().map(|p| p.class.as_str()).collect();
    classes.sort();
    classes.dedup();
    for c in classes {
        let name = format!("Zz{c}");
        let mut class = ClassDescriptor::new(name.clone());
        class.superclass = Some(c.to_string().into());
        class.tags = db.classes[c].tags.clone();
        db.classes.insert(name.into(), class);
    }
    db
}

fn run_path(path: &str, class: &str, props: &[(String, Variant)], custom: &ReflectionDatabase<'static>, empty: &ReflectionDatabase<'static>) -> Result<WeakDom, String> {
    let mut b = InstanceBuilder::new(class).with_name("M");
    for (k, v) in props {
        b = b.with_property(k.as_str(), v.clone());
    }
    let dom = WeakDom::new(InstanceBuilder::new("Folder").with_child(b));
    let roots = dom.root().children().to_vec();
    let write_db = if path.ends_with("-write") { custom } else { empty };
    let mut buf = Vec::new();
    if path.starts_with("xml") {
        rbx_xml::to_writer(&mut buf, &dom, &roots, rbx_xml::EncodeOptions::new().reflection_database(write_db).property_behavior(rbx_xml::EncodePropertyBehavior::WriteUnknown))
            .map_err(|e| format!("enc-fail {e}"))?;
        rbx_xml::from_reader(buf.as_slice(), rbx_xml::DecodeOptions::new().reflection_database(custom).property_behavior(rbx_xml::DecodePropertyBehavior::ReadUnknown)).map_err(|e| format!("dec-fail {e}"))
    } else {
        rbx_binary::Serializer::new().reflection_database(write_db).serialize(&mut buf, &dom, &roots).map_err(|e| format!("enc-fail {e}"))?;
        rbx_binary::Deserializer::new().reflection_database(custom).deserialize(buf.as_slice()).map_err(|e| format!("dec-fail {e}"))
    }
}

/// optorder: the option builders are records with independent fields — the order in which the setters are called must
/// not matter.  Every builder with two setters is exercised in both orders under the custom database (only then does
/// a setter that resets the other field show): `<pid> option-order ...` lines for C02 (rbx_xml) and C01 (rbx_binary).
fn optorder() -> Vec<String> {
    use rbx_xml::{DecodeOptions, DecodePropertyBehavior, EncodeOptions, EncodePropertyBehavior};
    let pairs = xmlmig::pairs();
    let custom = custom_database(&pairs);
    let mut out = Vec::new();
    // a class only the custom database knows, a property under its alias spelling, one unknown property
    let class = "ZzBasePart";
    let build = || {
        let b = InstanceBuilder::new(class).with_name("M").with_property("size", Variant::Vector3(Vector3::new(1.0, 2.0, 3.0))).with_property("Zz9", Variant::Int32(7));
        WeakDom::new(InstanceBuilder::new("Folder").with_child(b))
    };
    let render = |d: &WeakDom| -> String {
        match d.root().children().first().and_then(|r| d.get_by_ref(*r)) {
            None => "no instance".to_string(),
            Some(i) => {
                let mut ks: Vec<String> = i.properties.iter().map(|(k, v)| format!("{k}={}", tokens(v))).collect();
                ks.sort();
                format!("{} {:?} {}", i.class, i.name, ks.join(" "))
            }
        }
    };
    let dom = build();
    let roots = dom.root().children().to_vec();
    // ---- rbx_xml EncodeOptions
    let mut texts = Vec::new();
    for order in 0..2 {
        let o = if order == 0 {
            EncodeOptions::new().reflection_database(&custom).property_behavior(EncodePropertyBehavior::WriteUnknown)
        } else {
            EncodeOptions::new().property_behavior(EncodePropertyBehavior::WriteUnknown).reflection_database(&custom)
        };
        let mut buf = Vec::new();
        let r = rbx_xml::to_writer(&mut buf, &dom, &roots, o).map_err(|e| e.to_string());
        texts.push(r.map(|_| buf));
    }
    if texts[0] != texts[1] {
        out.push("C02 option-order EncodeOptions: reflection_database then property_behavior writes something else than property_behavior then reflection_database (custom database, WriteUnknown)".to_string());
    }
    // ---- rbx_xml DecodeOptions
    if let Ok(text) = &texts[0] {
        let mut seen = Vec::new();
        for order in 0..2 {
            let o = if order == 0 {
                DecodeOptions::new().reflection_database(&custom).property_behavior(DecodePropertyBehavior::ReadUnknown)
            } else {
                DecodeOptions::new().property_behavior(DecodePropertyBehavior::ReadUnknown).reflection_database(&custom)
            };
            seen.push(match rbx_xml::from_reader(text.as_slice(), o) {
                Ok(d) => render(&d),
                Err(e) => format!("error {e}"),
            });
        }
        if seen[0] != seen[1] {
            out.push(format!("C02 option-order DecodeOptions: reflection_database then property_behavior decodes `{}`, the other order `{}` (custom database, ReadUnknown)", seen[0], seen[1]));
        }
        // and what either order must give: the alias under its canonical name, the unknown property kept
        for (k, s) in seen.iter().enumerate() {
            if !(s.contains("Size=") && s.contains("Zz9=") && !s.contains("size=")) {
                out.push(format!("C02 option-order DecodeOptions (order {k}): with the custom database and ReadUnknown the instance is decoded as `{s}` (expected Size under its canonical name and the unknown Zz9 kept)"));
            }
        }
    }
    // ---- rbx_binary Serializer (database, compression)
    let mut files = Vec::new();
    for order in 0..2 {
        let s = if order == 0 {
            rbx_binary::Serializer::new().reflection_database(&custom).compression_type(rbx_binary::CompressionType::None)
        } else {
            rbx_binary::Serializer::new().compression_type(rbx_binary::CompressionType::None).reflection_database(&custom)
        };
        let mut buf = Vec::new();
        let r = s.serialize(&mut buf, &dom, &roots).map_err(|e| e.to_string());
        files.push(r.map(|_| buf));
    }
    if files[0] != files[1] {
        out.push("C01 option-order Serializer: reflection_database then compression_type writes other bytes than compression_type then reflection_database (custom database, no compression)".to_string());
    }
    if let Ok(f) = &files[0] {
        match rbx_binary::Deserializer::new().reflection_database(&custom).deserialize(f.as_slice()) {
            Ok(d) => {
                let s = render(&d);
                if !(s.contains("Size=") && !s.contains("size=")) {
                    out.push(format!("C01 option-order Deserializer: with the custom database the instance is decoded as `{s}` (expected Size under its canonical name)"));
                }
            }
            Err(e) => out.push(format!("C01 option-order Deserializer: error {e}")),
        }
    }
    out
}

/// one process' verdicts on the alias spelling: `mca<k> OK|LOSES <description>` per (pair, value)
fn alias_child(seed: u64) {
    let mut rng = Rng::new(seed ^ 0xC15C_0515);
    let pairs = xmlmig::pairs();
    let custom = custom_database(&pairs);
    let empty = ReflectionDatabase::new();
    let mut k = 0;
    for p in &pairs {
        let class = format!("Zz{}", p.class);
        let values: Vec<Variant> = xmlmig::legacy_values(&mut rng, p, 2).into_iter().filter(|v| p.mig.perform(v).is_ok()).collect();
        let Some((name, w)) = xmlmig::explicit_value(&mut rng, p) else { continue };
        let new_canon = find_canonical_property_descriptor(&class, &p.new, &custom).map(|d| d.name.to_string()).unwrap_or_else(|| p.new.clone());
        if name == new_canon {
            continue;
        }
        for v in values {
            k += 1;
            let props = vec![(p.old.clone(), v.clone()), (name.clone(), w.clone())];
            let what = format!("{class}.{} = {} next to {name} = {} (an alias of {new_canon})", p.old, tokens(&v), tokens(&w));
            let verdict = match std::panic::catch_unwind(std::panic::AssertUnwindSafe(|| run_path("bin-write", &class, &props, &custom, &empty))) {
                Ok(Ok(dom)) => match dom.root().children().first().and_then(|r| dom.get_by_ref(*r)).and_then(|i| i.properties.get(&new_canon.as_str().into())) {
                    Some(got) if tokens(got) == tokens(&w) => "OK",
                    _ => "LOSES",
                },
                _ => "LOSES",
            };
            println!("mca{k} {verdict} {what}");
        }
    }
}

pub fn cli(args: &[String]) -> bool {
    if args.get(1).map(|s| s.as_str()) == Some("optorder-run") {
        let lines = match std::panic::catch_unwind(optorder) {
            Ok(l) => l,
            Err(_) => vec!["C02 option-order panic: the option-order probe panicked".to_string()],
        };
        for l in &lines {
            // `<case> <pid> <key> <message>`
            let (pid, rest) = l.split_once(' ').unwrap();
            println!("optorder {pid} {rest}");
        }
        println!("optorder done {}", lines.len());
        return true;
    }
    if args.get(1).map(|s| s.as_str()) == Some("migcustom-alias-child") {
        alias_child(args[2].parse().unwrap());
        return true;
    }
    if args.get(1).map(|s| s.as_str()) != Some("migcustom-run") {
        return false;
    }
    let mut seed = 1u64;
    let mut only: Option<String> = None;
    let mut pos = Vec::new();
    let mut i = 2;
    while i < args.len() {
        match args[i].as_str() {
            "--seed" => {
                seed = args[i + 1].parse().unwrap();
                i += 2;
            }
            "--only" => {
                only = Some(args[i + 1].clone());
                i += 2;
            }
            _ => {
                pos.push(args[i].clone());
                i += 1;
            }
        }
    }
    let mut cases = std::io::BufWriter::new(std::fs::File::create(&pos[0]).unwrap());
    let mut orc = std::io::BufWriter::new(std::fs::File::create(&pos[1]).unwrap());
    let mut stats: BTreeMap<String, u64> = BTreeMap::new();
    let mut rng = Rng::new(seed ^ 0xC15C_0515);
    let pairs = xmlmig::pairs();
    // MC_PLAIN=1: control run on the declaring classes themselves (still through the custom database)
    let plain = std::env::var("MC_PLAIN").is_ok();
    let custom = custom_database(&pairs);
    let empty = ReflectionDatabase::new();
    let mut n = 0u64;
    for p in &pairs {
        let class = if plain { p.class.clone() } else { format!("Zz{}", p.class) };
        let values: Vec<Variant> = xmlmig::legacy_values(&mut rng, p, 6).into_iter().filter(|v| p.mig.perform(v).is_ok()).collect();
        let explicit = xmlmig::explicit_value(&mut rng, p);
        let new_canon = find_canonical_property_descriptor(&class, &p.new, &custom).map(|d| d.name.to_string()).unwrap_or_else(|| p.new.clone());
        for v in values {
            let migrated = p.mig.perform(&v).unwrap();
            for with_explicit in [false, true] {
                let mut props = vec![(p.old.clone(), v.clone())];
                if with_explicit {
                    match &explicit {
                        Some((name, w)) => props.push((name.clone(), w.clone())),
                        None => continue,
                    }
                }
                let expected = if with_explicit { explicit.as_ref().unwrap().1.clone() } else { migrated.clone() };
                for path in ["xml-write", "bin-write", "xml-read", "bin-read"] {
                    // the binary writer looks a value up under the canonical name first and then under the aliases it
                    // met, in the iteration order of a hash set whose keys are drawn per process: the explicit value
                    // is spelled canonically here, and the alias spelling is probed over several processes below
                    let mut props = props.clone();
                    if path == "bin-write" && with_explicit {
                        props[1].0 = new_canon.clone();
                    }
                    n += 1;
                    let id = format!("mc{n}");
                    if let Some(o) = &only {
                        if *o != id {
                            continue;
                        }
                    }
                    writeln!(cases, "== {id}\nseed {seed}\npath {path}\nclass {class} (custom database: bundled + subclass of {})\nlegacy {} = {}\nexplicit {}\nexpected {new_canon} = {}",
                        p.class, p.old, tokens(&v), if with_explicit { format!("{} = {}", explicit.as_ref().unwrap().0, tokens(&expected)) } else { "-".into() }, tokens(&expected)).unwrap();
                    *stats.entry(format!("c15_custom_{path}")).or_insert(0) += 1;
                    let what = format!("{class}.{} = {} ({path} path, custom database{})", p.old, tokens(&v), if with_explicit { ", explicit new value present" } else { "" });
                    let r = std::panic::catch_unwind(std::panic::AssertUnwindSafe(|| run_path(path, &class, &props, &custom, &empty)));
                    let dom = match r {
                        Err(_) => {
                            writeln!(orc, "{id} C15 custom-db-panic {what}: panic").unwrap();
                            continue;
                        }
                        Ok(Err(m)) => {
                            writeln!(orc, "{id} C15 custom-db-{} {what}: {}", m.split(' ').next().unwrap(), m.chars().take(200).collect::<String>()).unwrap();
                            continue;
                        }
                        Ok(Ok(d)) => d,
                    };
                    let Some(inst) = dom.root().children().first().and_then(|r| dom.get_by_ref(*r)) else {
                        writeln!(orc, "{id} C15 custom-db-dec-fail {what}: no instance decoded").unwrap();
                        continue;
                    };
                    if inst.properties.contains_key(&p.old.as_str().into()) {
                        writeln!(orc, "{id} C15 custom-db-legacy-survives {what}: the decoded instance still has the legacy property {}", p.old).unwrap();
                    }
                    match inst.properties.get(&new_canon.as_str().into()) {
                        None => writeln!(orc, "{id} C15 custom-db-missing {what}: the decoded instance has no {new_canon}; it has {:?}", inst.properties.keys().map(|k| k.as_str()).collect::<Vec<_>>()).unwrap(),
                        Some(got) if tokens(got) != tokens(&expected) => {
                            let key = if with_explicit { "custom-db-explicit-loses" } else { "custom-db-value" };
                            writeln!(orc, "{id} C15 {key} {what}: {new_canon} decoded as {}, expected {}", tokens(got), tokens(&expected)).unwrap();
                        }
                        _ => {}
                    }
                }
            }
        }
    }
    // ---- binary write path, explicit value under an alias spelling, in several processes
    if only.is_none() || only.as_deref().map(|o| o.starts_with("mca")).unwrap_or(false) {
        let exe = std::env::current_exe().unwrap();
        let mut verdicts: BTreeMap<String, (u64, u64, String)> = BTreeMap::new();
        let children: Vec<_> = (0..8).filter_map(|_| std::process::Command::new(&exe).args(["migcustom-alias-child", &seed.to_string()]).stdout(std::process::Stdio::piped()).stderr(std::process::Stdio::null()).spawn().ok()).collect();
        for c in children {
            if let Ok(o) = c.wait_with_output() {
                for l in String::from_utf8_lossy(&o.stdout).lines() {
                    let w: Vec<&str> = l.splitn(3, ' ').collect();
                    if w.len() == 3 {
                        let e = verdicts.entry(w[0].to_string()).or_insert((0, 0, String::new()));
                        e.0 += 1;
                        if w[1] != "OK" {
                            e.1 += 1;
                            e.2 = w[2].to_string();
                        }
                    }
                }
            }
        }
        for (id, (runs, lost, msg)) in &verdicts {
            if let Some(o) = &only {
                if o != id {
                    continue;
                }
            }
            n += 1;
            *stats.entry("c15_custom_bin-write-alias".into()).or_insert(0) += 1;
            writeln!(cases, "== {id}\nseed {seed}\npath bin-write, explicit value under an alias spelling, {runs} processes\n{msg}").unwrap();
            if *lost > 0 {
                writeln!(orc, "{id} C15 bin-alias-explicit-loses {msg}: the legacy value won in {lost} of {runs} processes").unwrap();
            }
        }
    }
    stats.insert("cases".into(), n);
    let mut st = std::fs::File::create(&pos[2]).unwrap();
    let body: Vec<String> = stats.iter().map(|(k, v)| format!("\"{k}\": {v}")).collect();
    writeln!(st, "{{{}}}", body.join(", ")).unwrap();
    true
}
