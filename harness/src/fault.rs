//! fault: the implementation-side part of property C13 (decoders never panic or hang; truncation
//! and I/O faults surface as errors).  Nothing here is compared with a Coq model: reader delivery,
//! sink failure, the XML decoder (xml-rs) and process-level behaviour (stack overflow, allocation
//! failure) have no Gallina counterpart, so they are exercised on the real crates.
//!
//!   fault-run --seed S --tier quick|thorough OBS ORACLE STATS     all sweeps (parent; spawns workers)
//!   fault-child JOBS RESULTS SKIP                                  worker process (internal)
//!   fault-replay <format> <hex | @file>                            re-executes one stored input
//!
//! Architecture.  A *job* is a short text line; `materialize` turns it deterministically into a pair
//! (replay format, payload bytes) and `exec` runs that pair on the implementation.  All jobs run in
//! worker processes (re-exec of this binary) so that a stack overflow or a failed allocation, which
//! abort the process, are observed as a signal exit of the worker and attributed to the job that was
//! in progress.  Inside a worker the job thread (8 MiB stack, like a main thread) is watched by the
//! main thread: no progress for HANG_SECS => `hang` is recorded and the worker exits.
//! Every decode runs under `catch_unwind` with a panic hook that records file:line + message, and
//! under a counting global allocator that records the largest request / the peak of live bytes of
//! the job thread; requests above ALLOC_CAP are refused (null => the process aborts), and RLIMIT_AS
//! is a backstop for allocations made by C code.
//!
//! Replay formats (payload):
//!   bin | xml | xmlu | attr            bytes to decode (xmlu = DecodePropertyBehavior::ReadUnknown)
//!   trunc-<bin|xml|attr>               strict prefix of a valid file: additionally `Ok` is a failure
//!   deliv-<bin|xml|xmlu|attr>          mode(1) seed(8, BE) bytes: decode through a delivering reader,
//!                                      outcome must equal the slice reader's
//!   sink-<bin-none|bin-lz4|bin-zstd|xml|attr>   mode(1) file(1) k(4, BE) seed(8, BE): serialize fixed
//!                                      file `file` into a sink that fails after k bytes
//!   nest-xml | nest-bin | nestser-xml | nestser-bin   depth(4, BE)
use std::alloc::{GlobalAlloc, Layout, System};
use std::cell::{Cell, RefCell};
use std::collections::{BTreeMap, HashMap, HashSet};
use std::io::{self, Read, Write};
use std::panic::{catch_unwind, AssertUnwindSafe};
use std::sync::atomic::{AtomicBool, AtomicI32, AtomicU64, AtomicUsize, Ordering};
use std::sync::{Arc, Mutex};
use std::time::{Duration, Instant};

use rbx_dom_weak::types::*;
use rbx_dom_weak::{InstanceBuilder, WeakDom};

use crate::rng::Rng;
use crate::util::*;
use crate::val;

const HANG_SECS: u64 = 20;
const ALLOC_CAP: usize = 1 << 30; // single requests above this are refused in workers
const ALLOC_BASE: usize = 4 << 20; // allowed: ALLOC_BASE + ALLOC_FACTOR * input length
const ALLOC_FACTOR: usize = 4096;
const RLIMIT_AS_BYTES: u64 = 6 << 30;
const JOB_STACK: usize = 8 << 20;

// ================================================================================ counting allocator

pub struct CountingAlloc;

static CAP: AtomicUsize = AtomicUsize::new(usize::MAX);
static NOTE_FD: AtomicI32 = AtomicI32::new(-1);
static CUR_JOB: AtomicUsize = AtomicUsize::new(0);

thread_local! {
    static TRACK: Cell<bool> = const { Cell::new(false) };
    static IN_HOOK: Cell<bool> = const { Cell::new(false) };
    static LIVE: Cell<isize> = const { Cell::new(0) };
    static PEAK: Cell<isize> = const { Cell::new(0) };
    static MAXREQ: Cell<usize> = const { Cell::new(0) };
    static THRESH: Cell<usize> = const { Cell::new(usize::MAX) };
    static SITE: RefCell<Option<(usize, String)>> = const { RefCell::new(None) };
    static LAST_PANIC: RefCell<Option<(String, u32, String)>> = const { RefCell::new(None) };
}

fn site_from_backtrace() -> String {
    let bt = std::backtrace::Backtrace::force_capture();
    let text = format!("{bt}");
    // first frame inside one of the rbx crates; failing that, the first frame inside a codec dependency
    for pats in [&[("rbx_binary::", "bin"), ("rbx_xml::", "xml"), ("rbx_types::", "types"), ("rbx_dom_weak::", "dom")][..], &[("xml::", "xmlrs"), ("lz4::", "lz4"), ("zstd::", "zstd")][..]] {
        for line in text.lines() {
            let l = line.trim();
            // frame lines look like `12: rbx_binary::chunk::Chunk::decode`
            let sym = match l.split_once(": ") {
                Some((n, s)) if !n.is_empty() && n.chars().all(|c| c.is_ascii_digit()) => s,
                _ => continue,
            };
            if sym.contains("rbxverif::") {
                continue;
            }
            for (pat, short) in pats {
                if let Some(p) = sym.find(pat) {
                    // strip generics, keep the last two path components
                    let mut s = String::new();
                    let mut depth = 0;
                    for c in sym[p..].chars() {
                        match c {
                            '<' => depth += 1,
                            '>' => depth -= 1,
                            _ if depth == 0 => s.push(c),
                            _ => {}
                        }
                    }
                    let comps: Vec<&str> = s.split("::").filter(|c| !c.is_empty() && !c.starts_with('{') && !(c.len() == 17 && c.starts_with('h'))).collect();
                    let n = comps.len();
                    let tail = if n >= 2 { format!("{}-{}", comps[n - 2], comps[n - 1]) } else { comps.join("-") };
                    return format!("{short}-alloc-{}", slug_d(&tail.to_lowercase(), 48));
                }
            }
        }
    }
    "alloc-unattributed".to_string()
}

#[inline]
fn on_alloc(size: usize) -> bool {
    // returns false if the request must be refused
    let tracking = TRACK.try_with(|t| t.get()).unwrap_or(false);
    if tracking {
        let live = LIVE.with(|l| {
            let v = l.get() + size as isize;
            l.set(v);
            v
        });
        PEAK.with(|p| if live > p.get() { p.set(live) });
        MAXREQ.with(|m| if size > m.get() { m.set(size) });
        let thr = THRESH.with(|t| t.get());
        if (size > thr || live > thr as isize) && !IN_HOOK.with(|h| h.get()) {
            IN_HOOK.with(|h| h.set(true));
            TRACK.with(|t| t.set(false));
            let first = SITE.with(|s| s.borrow().is_none());
            if first {
                let site = site_from_backtrace();
                SITE.with(|s| *s.borrow_mut() = Some((size.max(live as usize), site)));
            }
            TRACK.with(|t| t.set(true));
            IN_HOOK.with(|h| h.set(false));
        }
    }
    let cap = CAP.load(Ordering::Relaxed);
    if size > cap {
        let inhook = IN_HOOK.try_with(|h| h.get()).unwrap_or(true);
        if !inhook {
            let _ = IN_HOOK.try_with(|h| h.set(true));
            let _ = TRACK.try_with(|t| t.set(false));
            let site = site_from_backtrace();
            let line = format!("N\t{}\talloc-cap\t{}\t{}\n", CUR_JOB.load(Ordering::Relaxed), size, site);
            let fd = NOTE_FD.load(Ordering::Relaxed);
            if fd >= 0 {
                unsafe {
                    libc::write(fd, line.as_ptr() as *const libc::c_void, line.len());
                }
            }
            let _ = IN_HOOK.try_with(|h| h.set(false));
        }
        return false;
    }
    true
}

#[inline]
fn on_dealloc(size: usize) {
    if TRACK.try_with(|t| t.get()).unwrap_or(false) {
        LIVE.with(|l| l.set(l.get() - size as isize));
    }
}

unsafe impl GlobalAlloc for CountingAlloc {
    unsafe fn alloc(&self, layout: Layout) -> *mut u8 {
        if !on_alloc(layout.size()) {
            return std::ptr::null_mut();
        }
        System.alloc(layout)
    }
    unsafe fn alloc_zeroed(&self, layout: Layout) -> *mut u8 {
        if !on_alloc(layout.size()) {
            return std::ptr::null_mut();
        }
        System.alloc_zeroed(layout)
    }
    unsafe fn dealloc(&self, ptr: *mut u8, layout: Layout) {
        on_dealloc(layout.size());
        System.dealloc(ptr, layout)
    }
    unsafe fn realloc(&self, ptr: *mut u8, layout: Layout, new_size: usize) -> *mut u8 {
        if new_size > layout.size() {
            if !on_alloc(new_size - layout.size()) {
                return std::ptr::null_mut();
            }
        } else {
            on_dealloc(layout.size() - new_size);
        }
        System.realloc(ptr, layout, new_size)
    }
}

#[global_allocator]
static GLOBAL: CountingAlloc = CountingAlloc;

// ================================================================================ small helpers

fn slug(s: &str, max: usize) -> String {
    slug_x(s, max, false)
}
fn slug_d(s: &str, max: usize) -> String {
    slug_x(s, max, true)
}
fn slug_x(s: &str, max: usize, digits: bool) -> String {
    let mut out = String::new();
    let mut dash = true;
    for c in s.chars() {
        if c.is_ascii_alphabetic() || c == '_' || (digits && c.is_ascii_digit()) {
            out.push(c.to_ascii_lowercase());
            dash = false;
        } else if !dash {
            out.push('-');
            dash = true;
        }
        if out.len() >= max {
            break;
        }
    }
    while out.ends_with('-') {
        out.pop();
    }
    out
}

fn fnv(bytes: &[u8]) -> u64 {
    let mut h: u64 = 0xcbf29ce484222325;
    for b in bytes {
        h ^= *b as u64;
        h = h.wrapping_mul(0x100000001b3);
    }
    h
}

fn one_line(s: &str, max: usize) -> String {
    let mut t: String = s.chars().map(|c| if c == '\n' || c == '\t' || c == '\r' { ' ' } else if c.is_control() { '?' } else { c }).collect();
    if t.len() > max {
        let mut k = max;
        while !t.is_char_boundary(k) {
            k -= 1;
        }
        t.truncate(k);
        t.push_str("...");
    }
    t
}

fn be32(v: u32) -> [u8; 4] {
    v.to_be_bytes()
}
fn rd_be32(b: &[u8]) -> u32 {
    u32::from_be_bytes([b[0], b[1], b[2], b[3]])
}
fn rd_be64(b: &[u8]) -> u64 {
    let mut a = [0u8; 8];
    a.copy_from_slice(&b[..8]);
    u64::from_be_bytes(a)
}

// ================================================================================ panic sites

fn install_hook() {
    std::panic::set_hook(Box::new(|info| {
        let (file, line) = info.location().map(|l| (l.file().to_string(), l.line())).unwrap_or(("?".into(), 0));
        let msg = if let Some(s) = info.payload().downcast_ref::<&str>() {
            s.to_string()
        } else if let Some(s) = info.payload().downcast_ref::<String>() {
            s.clone()
        } else {
            "<non-string panic payload>".to_string()
        };
        let _ = LAST_PANIC.try_with(|p| *p.borrow_mut() = Some((file, line, msg)));
    }));
}

fn source_line(file: &str, line: u32) -> Option<String> {
    let cands = [file.to_string(), format!("/repo/{file}")];
    for c in cands {
        if let Ok(text) = std::fs::read_to_string(&c) {
            return text.lines().nth(line.saturating_sub(1) as usize).map(|s| s.trim().to_string());
        }
    }
    None
}

/// Stable key of a panic site: from the text of the source line (robust against line shifts) and the
/// message; `file:line` only when the source cannot be read.
fn panic_key(file: &str, line: u32, msg: &str) -> String {
    let src = source_line(file, line).unwrap_or_default();
    let table: [(&str, &str, &str, &str); 14] = [
        // (file suffix, needle in source line, needle in message, key)
        ("chunk.rs", "assert_eq!(data.len()", "", "bin-chunk-assert-len"),
        ("chunk.rs", "compressed_data[0..4]", "", "bin-chunk-slice-0-4"),
        ("chunk.rs", "", "reserved space was not zero", "bin-chunk-reserved"),
        ("state.rs", "get_mut(&parent_ref)", "", "bin-prnt-unknown-parent"),
        ("state.rs", "instances_by_ref.remove(&referent)", "", "bin-finish-missing-instance"),
        ("state.rs", "uris.pop_back()", "", "bin-content-uri-unwrap"),
        ("state.rs", "objects.pop_back()", "", "bin-content-object-unwrap"),
        ("state.rs", "read_le_u32().unwrap()", "", "bin-content-external-unwrap"),
        ("state.rs", "get_mut(referent).unwrap()", "", "bin-prop-missing-instance"),
        ("", "", "capacity overflow", "std-capacity-overflow"),
        ("", "", "Hash table capacity overflow", "std-hashtable-capacity-overflow"),
        ("content.rs", "todo!()", "", "xml-content-object-todo"),
        ("core.rs", "*referent += last", "", "bin-referent-add-overflow"),
        ("unique_id.rs", "from_str_radix(&s[", "", "types-uniqueid-fromstr-char-boundary"),
    ];
    for (f, s, m, key) in table {
        if file.ends_with(f) && (s.is_empty() || src.contains(s)) && (m.is_empty() || msg.contains(m)) && !(s.is_empty() && m.is_empty()) {
            return key.to_string();
        }
    }
    let krate = if file.contains("rbx_binary") {
        "bin"
    } else if file.contains("rbx_xml") {
        "xml"
    } else if file.contains("rbx_types") {
        "types"
    } else if file.contains("rbx_dom_weak") {
        "dom"
    } else if file.contains("/rustc/") || file.contains("library/") {
        "std"
    } else {
        "dep"
    };
    let stem = file.rsplit('/').next().unwrap_or(file).trim_end_matches(".rs");
    if !src.is_empty() && krate != "std" && krate != "dep" {
        format!("{krate}-{stem}-{}", slug(&src, 44))
    } else {
        format!("{krate}-{stem}-{}", slug(msg, 44))
    }
}

// ================================================================================ outcomes

#[derive(Clone, Debug, PartialEq)]
pub enum Out {
    Ok(String),
    Err(String),
    Panic { file: String, line: u32, msg: String },
}

impl Out {
    fn cls(&self) -> String {
        match self {
            Out::Ok(_) => "ok".into(),
            Out::Err(m) => {
                let mut s = String::new();
                let mut lastdigit = false;
                for c in one_line(m, 60).chars() {
                    if c.is_ascii_digit() {
                        if !lastdigit {
                            s.push('#');
                        }
                        lastdigit = true;
                    } else {
                        s.push(if c == ' ' || c == '=' || c == ',' { '_' } else { c });
                        lastdigit = false;
                    }
                }
                format!("err:{s}")
            }
            Out::Panic { file, line, msg } => format!("panic:{}", panic_key(file, *line, msg)),
        }
    }
    fn show(&self) -> String {
        match self {
            Out::Ok(d) => format!("Ok {d}"),
            Out::Err(m) => format!("Err {}", one_line(m, 300)),
            Out::Panic { file, line, msg } => format!("PANIC at {file}:{line}: {}", one_line(msg, 300)),
        }
    }
}

struct Tracked {
    out: Out,
    maxreq: usize,
    peak: usize,
    site: Option<(usize, String)>,
}

/// runs `f` under catch_unwind with allocation tracking of the current thread
fn tracked<F: FnOnce() -> Result<String, String>>(input_len: usize, f: F) -> Tracked {
    LAST_PANIC.with(|p| *p.borrow_mut() = None);
    SITE.with(|s| *s.borrow_mut() = None);
    LIVE.with(|l| l.set(0));
    PEAK.with(|l| l.set(0));
    MAXREQ.with(|l| l.set(0));
    THRESH.with(|t| t.set(ALLOC_BASE + ALLOC_FACTOR * input_len));
    TRACK.with(|t| t.set(true));
    let r = catch_unwind(AssertUnwindSafe(f));
    TRACK.with(|t| t.set(false));
    let out = match r {
        Ok(Ok(d)) => Out::Ok(d),
        Ok(Err(e)) => Out::Err(e),
        Err(_) => {
            let (file, line, msg) = LAST_PANIC.with(|p| p.borrow_mut().take()).unwrap_or(("?".into(), 0, "?".into()));
            Out::Panic { file, line, msg }
        }
    };
    Tracked { out, maxreq: MAXREQ.with(|m| m.get()), peak: PEAK.with(|m| m.get()).max(0) as usize, site: SITE.with(|s| s.borrow_mut().take()) }
}

// ================================================================================ readers and sinks

/// modes: 0 one byte per read, 1 random 1..=17, 2 random 1..=5000, 3 = 1 + Interrupted, 4 = 0 + Interrupted
pub struct Deliver<'a> {
    data: &'a [u8],
    pos: usize,
    mode: u8,
    rng: Rng,
    pending: u8,
    pub reads: u64,
    pub interrupts: u64,
}

impl<'a> Deliver<'a> {
    pub fn new(data: &'a [u8], mode: u8, seed: u64) -> Self {
        Deliver { data, pos: 0, mode, rng: Rng::new(seed), pending: if mode >= 3 { 1 } else { 0 }, reads: 0, interrupts: 0 }
    }
}

impl Read for Deliver<'_> {
    fn read(&mut self, buf: &mut [u8]) -> io::Result<usize> {
        if buf.is_empty() {
            return Ok(0);
        }
        if self.pending > 0 {
            self.pending -= 1;
            self.interrupts += 1;
            return Err(io::Error::new(io::ErrorKind::Interrupted, "verif: interrupted"));
        }
        let want = match self.mode {
            0 | 4 => 1,
            1 | 3 => 1 + self.rng.below(17) as usize,
            _ => 1 + self.rng.below(5000) as usize,
        };
        let n = want.min(buf.len()).min(self.data.len() - self.pos);
        buf[..n].copy_from_slice(&self.data[self.pos..self.pos + n]);
        self.pos += n;
        self.reads += 1;
        if self.mode >= 3 && self.rng.chance(50) {
            self.pending = 1 + self.rng.below(2) as u8;
        }
        Ok(n)
    }
}

/// modes: 0 error after `cap` bytes, 1 Ok(0) after `cap` bytes, 2 never fails but accepts 1..=7 bytes per call
pub struct Sink {
    cap: usize,
    mode: u8,
    rng: Rng,
    pub got: Vec<u8>,
    pub failed: bool,
}

impl Sink {
    pub fn new(cap: usize, mode: u8, seed: u64) -> Self {
        Sink { cap, mode, rng: Rng::new(seed), got: Vec::new(), failed: false }
    }
}

impl Write for Sink {
    fn write(&mut self, buf: &[u8]) -> io::Result<usize> {
        if buf.is_empty() {
            return Ok(0);
        }
        if self.mode == 2 {
            let n = (1 + self.rng.below(7) as usize).min(buf.len());
            self.got.extend_from_slice(&buf[..n]);
            return Ok(n);
        }
        let room = self.cap.saturating_sub(self.got.len());
        if room == 0 {
            self.failed = true;
            return if self.mode == 0 { Err(io::Error::new(io::ErrorKind::Other, "verif: sink failed")) } else { Ok(0) };
        }
        let n = room.min(buf.len());
        self.got.extend_from_slice(&buf[..n]);
        Ok(n)
    }
    fn flush(&mut self) -> io::Result<()> {
        Ok(())
    }
}

// ================================================================================ digests

pub fn dom_digest(dom: &WeakDom) -> String {
    let mut ctx = val::RefCtx::new();
    let mut order = Vec::new();
    let mut stack = vec![dom.root_ref()];
    while let Some(r) = stack.pop() {
        order.push(r);
        if let Some(inst) = dom.get_by_ref(r) {
            for c in inst.children().iter().rev() {
                stack.push(*c);
            }
        }
    }
    for (i, r) in order.iter().enumerate() {
        ctx.bind(i as u64 + 1, *r);
    }
    let mut h: u64 = 0xcbf29ce484222325;
    let mut feed = |s: &str| {
        for b in s.as_bytes() {
            h ^= *b as u64;
            h = h.wrapping_mul(0x100000001b3);
        }
        h ^= 0xff;
        h = h.wrapping_mul(0x100000001b3);
    };
    for r in &order {
        let inst = match dom.get_by_ref(*r) {
            Some(i) => i,
            None => {
                feed("<dangling child>");
                continue;
            }
        };
        feed(inst.class.as_str());
        feed(&inst.name);
        feed(&format!("p{} c{}", ctx.label_of(inst.parent()), inst.children().len()));
        let mut props: Vec<(&str, &Variant)> = inst.properties.iter().map(|(k, v)| (k.as_str(), v)).collect();
        props.sort_by(|a, b| a.0.cmp(b.0));
        for (k, v) in props {
            feed(k);
            feed(&val::value_string(v, &mut ctx));
        }
    }
    format!("n={} h={:016x}", order.len() - 1, h)
}

pub fn attrs_digest(a: &Attributes) -> String {
    let mut ctx = val::RefCtx::new();
    let mut s = String::new();
    let mut n = 0;
    for (k, v) in a.iter() {
        s.push_str(k);
        s.push('\u{1}');
        s.push_str(&val::value_string(v, &mut ctx));
        s.push('\u{2}');
        n += 1;
    }
    format!("n={} h={:016x}", n, fnv(s.as_bytes()))
}

// ================================================================================ the fixed set of valid files

pub const FFMTS: [&str; 5] = ["bin-none", "bin-lz4", "bin-zstd", "xml", "attr"];

fn dfmt_of(ffmt: &str) -> &'static str {
    if ffmt.starts_with("bin") {
        "bin"
    } else if ffmt == "xml" {
        "xml"
    } else if ffmt == "xmlu" {
        "xmlu"
    } else {
        "attr"
    }
}

fn cf(x: f32, y: f32, z: f32) -> CFrame {
    CFrame::new(Vector3::new(x, y, z), Matrix3::new(Vector3::new(0.0, 0.0, 1.0), Vector3::new(0.0, 1.0, 0.0), Vector3::new(-1.0, 0.0, 0.0)))
}
fn cf_odd(x: f32) -> CFrame {
    CFrame::new(Vector3::new(x, -2.5, 1e6), Matrix3::new(Vector3::new(0.6, 0.0, 0.8), Vector3::new(0.0, 1.0, 0.0), Vector3::new(-0.8, 0.0, 0.6)))
}

fn wrap(children: Vec<InstanceBuilder>) -> WeakDom {
    WeakDom::new(InstanceBuilder::new("DataModel").with_children(children))
}

fn sample_attributes() -> Attributes {
    Attributes::new()
        .with("Speed", 12.5f64)
        .with("Label", "hello <world> & \"friends\"")
        .with("Enabled", true)
        .with("Tint", Color3::new(0.25, 0.5, 1.0))
        .with("Offset", Vector3::new(1.0, -2.0, 3.5))
}

pub fn fixed_doms() -> Vec<(String, WeakDom)> {
    let mut out: Vec<(String, WeakDom)> = Vec::new();
    // 0: one empty Folder
    out.push(("folder".into(), wrap(vec![InstanceBuilder::new("Folder")])));
    // 1: Folder with two children
    out.push((
        "folders".into(),
        wrap(vec![InstanceBuilder::new("Folder").with_name("Top").with_children(vec![
            InstanceBuilder::new("Folder").with_name("A"),
            InstanceBuilder::new("Folder").with_name("B \u{e9}\u{4e16}\u{1F600}"),
        ])]),
    ));
    // 2: a Part with the usual properties
    out.push((
        "part".into(),
        wrap(vec![InstanceBuilder::new("Part")
            .with_name("Brick")
            .with_property("Anchored", true)
            .with_property("Size", Vector3::new(4.0, 1.2, 2.0))
            .with_property("CFrame", cf(1.0, 2.0, 3.0))
            .with_property("Color", Color3uint8::new(163, 162, 165))
            .with_property("Transparency", 0.5f32)
            .with_property("Material", Enum::from_u32(256))
            .with_property("CustomPhysicalProperties", PhysicalProperties::Custom(CustomPhysicalProperties { density: 0.7, friction: 0.3, elasticity: 0.5, friction_weight: 1.0, elasticity_weight: 1.0 }))]),
    ));
    // 3: value objects, one per scalar type, with an ObjectValue pointing at a sibling
    {
        let target = InstanceBuilder::new("StringValue").with_name("S").with_property("Value", "text with ]]> and \u{0007f} & <tags>");
        let tref = target.referent();
        out.push((
            "values".into(),
            wrap(vec![InstanceBuilder::new("Folder").with_name("Values").with_children(vec![
                target,
                InstanceBuilder::new("IntValue").with_name("I").with_property("Value", -1234567890123i64),
                InstanceBuilder::new("NumberValue").with_name("N").with_property("Value", 6.02214076e23f64),
                InstanceBuilder::new("BoolValue").with_name("B").with_property("Value", true),
                InstanceBuilder::new("Vector3Value").with_name("V").with_property("Value", Vector3::new(-0.0, f32::INFINITY, 1e-40)),
                InstanceBuilder::new("CFrameValue").with_name("C").with_property("Value", cf_odd(7.0)),
                InstanceBuilder::new("Color3Value").with_name("K").with_property("Value", Color3::new(0.1, 0.2, 0.3)),
                InstanceBuilder::new("BrickColorValue").with_name("BC").with_property("Value", BrickColor::from_number(194).unwrap()),
                InstanceBuilder::new("RayValue").with_name("R").with_property("Value", Ray::new(Vector3::new(1.0, 2.0, 3.0), Vector3::new(4.0, 5.0, 6.0))),
                InstanceBuilder::new("ObjectValue").with_name("O").with_property("Value", tref),
                InstanceBuilder::new("ObjectValue").with_name("Onull").with_property("Value", Ref::none()),
            ])]),
        ));
    }
    // 4: Model with PrimaryPart and nesting of depth 5
    {
        let part = InstanceBuilder::new("Part").with_name("Primary").with_property("CFrame", cf(0.0, 10.0, 0.0));
        let pref = part.referent();
        let deep = InstanceBuilder::new("Folder").with_name("d1").with_child(InstanceBuilder::new("Folder").with_name("d2").with_child(
            InstanceBuilder::new("Folder").with_name("d3").with_child(InstanceBuilder::new("Model").with_name("d4").with_child(InstanceBuilder::new("Part").with_name("d5"))),
        ));
        out.push((
            "model".into(),
            wrap(vec![InstanceBuilder::new("Model")
                .with_name("Rig")
                .with_property("PrimaryPart", pref)
                .with_property("WorldPivotData", Some(cf_odd(1.0)))
                .with_children(vec![part, deep])]),
        ));
    }
    // 5: GUI objects
    out.push((
        "gui".into(),
        wrap(vec![InstanceBuilder::new("ScreenGui").with_name("Gui").with_children(vec![
            InstanceBuilder::new("Frame")
                .with_name("F")
                .with_property("Size", UDim2::new(UDim::new(0.5, 10), UDim::new(1.0, -20)))
                .with_property("Position", UDim2::new(UDim::new(0.0, 0), UDim::new(0.25, 7)))
                .with_property("BackgroundColor3", Color3::new(1.0, 0.0, 0.5))
                .with_property("BorderSizePixel", 3i32)
                .with_child(InstanceBuilder::new("UICorner").with_property("CornerRadius", UDim::new(0.0, 8))),
            InstanceBuilder::new("TextLabel")
                .with_name("T")
                .with_property("Text", "Hello\nWorld\t\u{1F600}")
                .with_property("FontFace", Font::new("rbxasset://fonts/families/SourceSansPro.json", FontWeight::Bold, FontStyle::Italic))
                .with_property("TextColor3", Color3::new(0.0, 0.0, 0.0)),
            InstanceBuilder::new("ImageLabel")
                .with_name("Img")
                .with_property("SliceCenter", Rect::new(Vector2::new(1.0, 2.0), Vector2::new(30.0, 40.0)))
                .with_property("ImageRectOffset", Vector2::new(5.0, 6.0))
                .with_property("ImageContent", Content::from_uri("rbxassetid://12345")),
        ])]),
    ));
    // 6: sequences and ranges
    out.push((
        "particles".into(),
        wrap(vec![InstanceBuilder::new("Part").with_name("Host").with_child(
            InstanceBuilder::new("ParticleEmitter")
                .with_name("PE")
                .with_property(
                    "Color",
                    ColorSequence { keypoints: vec![ColorSequenceKeypoint::new(0.0, Color3::new(1.0, 0.0, 0.0)), ColorSequenceKeypoint::new(0.5, Color3::new(0.0, 1.0, 0.0)), ColorSequenceKeypoint::new(1.0, Color3::new(0.0, 0.0, 1.0))] },
                )
                .with_property("Size", NumberSequence { keypoints: vec![NumberSequenceKeypoint::new(0.0, 1.0, 0.0), NumberSequenceKeypoint::new(1.0, 5.0, 0.5)] })
                .with_property("Lifetime", NumberRange::new(2.0, 7.5))
                .with_property("Texture", ContentId::from("rbxasset://textures/particles/sparkles_main.dds")),
        )]),
    ));
    // 7: SharedStrings (one shared by two instances, one private)
    {
        let a = SharedString::new(b"shared payload \x00\x01\x02 of some length, repeated: abcabcabcabcabcabc".to_vec());
        let b = SharedString::new(vec![0xff, 0xfe, 0x00, 0x80]);
        out.push((
            "shared".into(),
            wrap(vec![
                InstanceBuilder::new("MeshPart").with_name("M1").with_property("PhysicalConfigData", a.clone()),
                InstanceBuilder::new("MeshPart").with_name("M2").with_property("PhysicalConfigData", a),
                InstanceBuilder::new("UnionOperation").with_name("U").with_property("PhysicalConfigData", b),
            ]),
        ));
    }
    // 8: script source, tags, attributes, unique id, capabilities
    {
        let mut tags = Tags::new();
        tags.push("alpha");
        tags.push("beta gamma");
        out.push((
            "script".into(),
            wrap(vec![InstanceBuilder::new("Folder").with_name("Code").with_children(vec![
                InstanceBuilder::new("Script")
                    .with_name("Main")
                    .with_property("Source", "-- comment <![CDATA[ ]]> &amp;\nlocal x = \"a\" .. 'b'\nprint(x < 1 and x > 2)\n")
                    .with_property("Tags", tags)
                    .with_property("Attributes", sample_attributes())
                    .with_property("UniqueId", UniqueId::new(7, 1234567, 0x1122334455667788)),
                InstanceBuilder::new("ModuleScript").with_name("Mod").with_property("Source", "return {}").with_property("Capabilities", SecurityCapabilities::from_bits(0x8000_0000_0000_0401)),
            ])]),
        ));
    }
    // 9: terrain-ish binary payloads, faces/axes, int16 vectors
    {
        let mut mc = MaterialColors::new();
        mc.set_color(TerrainMaterials::Grass, Color3uint8::new(1, 2, 3));
        mc.set_color(TerrainMaterials::Pavement, Color3uint8::new(250, 251, 252));
        out.push((
            "terrain".into(),
            wrap(vec![
                InstanceBuilder::new("Terrain").with_name("Terrain").with_property("MaterialColors", mc).with_property("SmoothGrid", BinaryString::from((0u8..=70).collect::<Vec<u8>>())),
                InstanceBuilder::new("Handles").with_name("H").with_property("Faces", Faces::from_bits(0b101010).unwrap()),
                InstanceBuilder::new("ArcHandles").with_name("AH").with_property("Axes", Axes::from_bits(0b101).unwrap()),
                InstanceBuilder::new("TerrainRegion").with_name("TR").with_property("ExtentsMax", Vector3int16::new(32767, -32768, 5)).with_property("ExtentsMin", Vector3int16::new(0, 1, -1)),
            ]),
        ));
    }
    // 10: a class and properties the reflection database does not know
    out.push((
        "unknown".into(),
        wrap(vec![InstanceBuilder::new("VerifUnknownClass")
            .with_name("Thing")
            .with_property("VerifString", "s")
            .with_property("VerifBool", false)
            .with_property("VerifInt32", i32::MIN)
            .with_property("VerifInt64", i64::MAX)
            .with_property("VerifFloat32", f32::MIN_POSITIVE)
            .with_property("VerifFloat64", -0.0f64)
            .with_property("VerifVector2", Vector2::new(1.5, -1.5))
            .with_property("VerifUDim", UDim::new(0.5, -3))
            .with_property("VerifRect", Rect::new(Vector2::new(0.0, 0.0), Vector2::new(1.0, 1.0)))
            .with_property("VerifEnum", Enum::from_u32(u32::MAX))
            .with_property("VerifOptCFrameNone", Variant::OptionalCFrame(None))]),
    ));
    // 11: three roots of one class with different property sets (columns filled from defaults)
    out.push((
        "roots".into(),
        wrap(vec![
            InstanceBuilder::new("Part").with_name("P1").with_property("Anchored", true),
            InstanceBuilder::new("Part").with_name("P2").with_property("Transparency", 1.0f32),
            InstanceBuilder::new("Part").with_name("P3").with_property("CanCollide", false).with_property("Size", Vector3::new(1.0, 1.0, 1.0)),
        ]),
    ));
    // 12: a wider tree of mixed classes
    {
        let mut kids = Vec::new();
        for i in 0..6 {
            let mut f = InstanceBuilder::new(if i % 2 == 0 { "Folder" } else { "Model" }).with_name(format!("n{i}"));
            for j in 0..(i % 4) {
                f.add_child(InstanceBuilder::new(["Part", "StringValue", "Folder"][j % 3]).with_name(format!("n{i}_{j}")));
            }
            kids.push(f);
        }
        out.push(("wide".into(), wrap(kids)));
    }
    out
}

pub fn fixed_attrs() -> Vec<(String, Attributes)> {
    let mut out = Vec::new();
    out.push(("empty".to_string(), Attributes::new()));
    out.push(("string".to_string(), Attributes::new().with("k", "value")));
    out.push(("sample".to_string(), sample_attributes()));
    out.push((
        "scalars".to_string(),
        Attributes::new().with("b", false).with("f32", 1.5f32).with("f64", -2.25f64).with("", "empty key").with("\u{e9}\u{1F600}", "unicode key"),
    ));
    out.push((
        "dims".to_string(),
        Attributes::new()
            .with("udim", UDim::new(0.5, 7))
            .with("udim2", UDim2::new(UDim::new(0.0, 1), UDim::new(1.0, -1)))
            .with("v2", Vector2::new(1.0, 2.0))
            .with("v3", Vector3::new(1.0, 2.0, 3.0))
            .with("rect", Rect::new(Vector2::new(0.0, 1.0), Vector2::new(2.0, 3.0)))
            .with("range", NumberRange::new(1.0, 9.0)),
    ));
    out.push((
        "colors".to_string(),
        Attributes::new()
            .with("c3", Color3::new(0.5, 0.25, 0.125))
            .with("brick", BrickColor::from_number(21).unwrap())
            .with("cseq", ColorSequence { keypoints: vec![ColorSequenceKeypoint::new(0.0, Color3::new(1.0, 1.0, 1.0)), ColorSequenceKeypoint::new(1.0, Color3::new(0.0, 0.0, 0.0))] })
            .with("nseq", NumberSequence { keypoints: vec![NumberSequenceKeypoint::new(0.0, 0.0, 0.0), NumberSequenceKeypoint::new(1.0, 1.0, 0.1)] }),
    ));
    out.push(("cframes".to_string(), Attributes::new().with("axis", cf(1.0, 2.0, 3.0)).with("free", cf_odd(4.0))));
    out.push((
        "font".to_string(),
        Attributes::new().with("font", Font::new("rbxasset://fonts/families/Arial.json", FontWeight::Regular, FontStyle::Normal)).with("item", EnumItem { ty: "Material".to_string(), value: 256 }),
    ));
    out
}

fn compression(ffmt: &str) -> rbx_binary::CompressionType {
    match ffmt {
        "bin-none" => rbx_binary::CompressionType::None,
        "bin-zstd" => rbx_binary::CompressionType::Zstd,
        _ => rbx_binary::CompressionType::Lz4,
    }
}

pub fn encode_dom<W: Write>(ffmt: &str, dom: &WeakDom, w: W) -> Result<(), String> {
    let roots = dom.root().children();
    if ffmt.starts_with("bin") {
        rbx_binary::Serializer::new().compression_type(compression(ffmt)).serialize(w, dom, roots).map_err(|e| e.to_string())
    } else {
        rbx_xml::to_writer_default(w, dom, roots).map_err(|e| e.to_string())
    }
}

pub struct Fixed {
    pub doms: Vec<(String, WeakDom)>,
    pub attrs: Vec<(String, Attributes)>,
    pub files: HashMap<&'static str, Vec<Vec<u8>>>,
    pub problems: Vec<String>,
}

impl Fixed {
    /// builds the DOMs/maps and their valid encodings; anything that does not encode, or whose encoding
    /// does not decode, is a set-up problem (reported, not silently dropped)
    pub fn build() -> Fixed {
        let doms = fixed_doms();
        let attrs = fixed_attrs();
        let mut files: HashMap<&'static str, Vec<Vec<u8>>> = HashMap::new();
        let mut problems = Vec::new();
        for ffmt in FFMTS {
            let mut v = Vec::new();
            if ffmt == "attr" {
                for (name, a) in &attrs {
                    let mut buf = Vec::new();
                    match catch_unwind(AssertUnwindSafe(|| a.to_writer(&mut buf).map_err(|e| e.to_string()))) {
                        Ok(Ok(())) => {}
                        Ok(Err(e)) => problems.push(format!("attr/{name}: does not encode: {e}")),
                        Err(_) => problems.push(format!("attr/{name}: encoder panicked")),
                    }
                    v.push(buf);
                }
            } else {
                for (name, d) in &doms {
                    let mut buf = Vec::new();
                    match catch_unwind(AssertUnwindSafe(|| encode_dom(ffmt, d, &mut buf))) {
                        Ok(Ok(())) => {}
                        Ok(Err(e)) => problems.push(format!("{ffmt}/{name}: does not encode: {e}")),
                        Err(_) => problems.push(format!("{ffmt}/{name}: encoder panicked")),
                    }
                    if ffmt == "xml" {
                        // whitespace after the closing tag is not part of the document
                        while buf.last().map_or(false, |b| b.is_ascii_whitespace()) {
                            buf.pop();
                        }
                    }
                    v.push(buf);
                }
            }
            files.insert(ffmt, v);
        }
        let fx = Fixed { doms, attrs, files, problems };
        let mut more = Vec::new();
        for ffmt in FFMTS {
            for (i, b) in fx.files[ffmt].iter().enumerate() {
                let t = tracked(b.len(), || decode_plain(dfmt_of(ffmt), b));
                match &t.out {
                    Out::Ok(_) => {}
                    o => more.push(format!("{ffmt}/{}: valid encoding does not decode: {}", fx.name(ffmt, i), o.show())),
                }
            }
        }
        let mut fx = fx;
        fx.problems.extend(more);
        fx
    }
    pub fn name(&self, ffmt: &str, i: usize) -> &str {
        if ffmt == "attr" {
            &self.attrs[i].0
        } else {
            &self.doms[i].0
        }
    }
    pub fn count(&self, ffmt: &str) -> usize {
        self.files[ffmt].len()
    }
}

// ================================================================================ decoding / encoding under test

fn decode_with<R: Read>(dfmt: &str, r: R) -> Result<String, String> {
    match dfmt {
        "bin" => rbx_binary::from_reader(r).map(|d| dom_digest(&d)).map_err(|e| e.to_string()),
        "xml" => rbx_xml::from_reader_default(r).map(|d| dom_digest(&d)).map_err(|e| e.to_string()),
        "xmlu" => rbx_xml::from_reader(r, rbx_xml::DecodeOptions::new().property_behavior(rbx_xml::DecodePropertyBehavior::ReadUnknown))
            .map(|d| dom_digest(&d))
            .map_err(|e| e.to_string()),
        "attr" => Attributes::from_reader(r).map(|a| attrs_digest(&a)).map_err(|e| e.to_string()),
        other => Err(format!("harness: unknown decode format {other}")),
    }
}

fn decode_plain(dfmt: &str, bytes: &[u8]) -> Result<String, String> {
    decode_with(dfmt, bytes)
}

// ================================================================================ binary container

#[derive(Clone)]
pub struct BinFile {
    pub header: Vec<u8>,                 // 32 bytes
    pub chunks: Vec<([u8; 4], Vec<u8>)>, // name, decompressed payload
    pub raw_spans: Vec<(usize, usize)>,  // start of each chunk header in the raw file, total chunk size
}

pub fn bin_parse(raw: &[u8]) -> BinFile {
    let mut f = BinFile { header: raw[..32].to_vec(), chunks: Vec::new(), raw_spans: Vec::new() };
    let mut pos = 32;
    while pos + 16 <= raw.len() {
        let mut name = [0u8; 4];
        name.copy_from_slice(&raw[pos..pos + 4]);
        let clen = u32::from_le_bytes(raw[pos + 4..pos + 8].try_into().unwrap()) as usize;
        let len = u32::from_le_bytes(raw[pos + 8..pos + 12].try_into().unwrap()) as usize;
        let stored = if clen == 0 { len } else { clen };
        let total = 16 + stored;
        let chunk = rbx_binary::verif::Chunk::decode(&raw[pos..pos + total]).expect("fixed file: chunk decodes");
        f.chunks.push((name, chunk.data));
        f.raw_spans.push((pos, total));
        pos += total;
    }
    f
}

fn static_name(name: [u8; 4]) -> &'static [u8] {
    match &name {
        b"META" => b"META",
        b"SSTR" => b"SSTR",
        b"INST" => b"INST",
        b"PROP" => b"PROP",
        b"PRNT" => b"PRNT",
        b"END\0" => b"END\0",
        _ => Box::leak(Box::new(name)),
    }
}

pub fn bin_chunk(name: [u8; 4], data: &[u8], ffmt: &str) -> Vec<u8> {
    let mut out = Vec::new();
    // END is always written uncompressed by the serializer
    let ct = if &name == b"END\0" { rbx_binary::CompressionType::None } else { compression(ffmt) };
    let mut b = rbx_binary::verif::ChunkBuilder::new(static_name(name), ct);
    b.write_all(data).unwrap();
    b.dump(&mut out).unwrap();
    out
}

pub fn bin_build(f: &BinFile, ffmt: &str) -> Vec<u8> {
    let mut out = f.header.clone();
    for (name, data) in &f.chunks {
        out.extend(bin_chunk(*name, data, ffmt));
    }
    out
}

pub const LEN_VALUES: usize = 7;
fn len_value(old: u32, vi: usize) -> u32 {
    match vi {
        0 => 0,
        1 => 1,
        2 => old.wrapping_sub(1),
        3 => old.wrapping_add(1),
        4 => 0x0100_0000,
        5 => 0x7fff_ffff,
        _ => 0xffff_ffff,
    }
}

fn edit_u32(b: &mut [u8], off: usize, vi: usize) {
    if off + 4 > b.len() {
        return;
    }
    let old = u32::from_le_bytes(b[off..off + 4].try_into().unwrap());
    b[off..off + 4].copy_from_slice(&len_value(old, vi).to_le_bytes());
}

const CHUNK_NAMES: [[u8; 4]; 7] = [*b"META", *b"SSTR", *b"INST", *b"PROP", *b"PRNT", *b"END\0", *b"XXXX"];

fn flip_bits(b: &mut Vec<u8>, rng: &mut Rng) {
    if b.is_empty() {
        return;
    }
    for _ in 0..rng.range(1, 3) {
        let i = rng.below(b.len() as u64) as usize;
        b[i] ^= 1 << rng.below(8);
    }
}

fn subst_bytes(b: &mut Vec<u8>, rng: &mut Rng) {
    if b.is_empty() {
        return;
    }
    for _ in 0..rng.range(1, 4) {
        let i = rng.below(b.len() as u64) as usize;
        b[i] = match rng.below(6) {
            0 => 0,
            1 => 0xff,
            2 => 0x7f,
            3 => 0x80,
            _ => rng.next() as u8,
        };
    }
}

// ---------------------------------------------------------------- hand-made binary files

fn zigzag(x: i32) -> u32 {
    ((x << 1) ^ (x >> 31)) as u32
}
fn interleave_i32(vals: &[i32]) -> Vec<u8> {
    let mut out = Vec::new();
    for byte in 0..4 {
        for v in vals {
            out.push(zigzag(*v).to_be_bytes()[byte]);
        }
    }
    out
}
fn referents(vals: &[i32]) -> Vec<u8> {
    let mut d = Vec::new();
    let mut last = 0i32;
    for v in vals {
        d.push(v.wrapping_sub(last));
        last = *v;
    }
    interleave_i32(&d)
}
fn bstr(s: &[u8]) -> Vec<u8> {
    let mut o = (s.len() as u32).to_le_bytes().to_vec();
    o.extend_from_slice(s);
    o
}
fn raw_header(types: u32, insts: u32) -> Vec<u8> {
    let mut h = b"<roblox!".to_vec();
    h.extend([0x89, 0xff, 0x0d, 0x0a, 0x1a, 0x0a]);
    h.extend(0u16.to_le_bytes());
    h.extend(types.to_le_bytes());
    h.extend(insts.to_le_bytes());
    h.extend([0u8; 8]);
    h
}
fn raw_chunk(name: &[u8; 4], clen: u32, len: u32, reserved: u32, data: &[u8]) -> Vec<u8> {
    let mut o = name.to_vec();
    o.extend(clen.to_le_bytes());
    o.extend(len.to_le_bytes());
    o.extend(reserved.to_le_bytes());
    o.extend_from_slice(data);
    o
}
fn plain_chunk(name: &[u8; 4], data: &[u8]) -> Vec<u8> {
    raw_chunk(name, 0, data.len() as u32, 0, data)
}
fn inst_chunk(type_id: u32, class: &str, refs: &[i32]) -> Vec<u8> {
    let mut d = type_id.to_le_bytes().to_vec();
    d.extend(bstr(class.as_bytes()));
    d.push(0);
    d.extend((refs.len() as u32).to_le_bytes());
    d.extend(referents(refs));
    plain_chunk(b"INST", &d)
}
fn name_chunk(type_id: u32, names: &[&str]) -> Vec<u8> {
    let mut d = type_id.to_le_bytes().to_vec();
    d.extend(bstr(b"Name"));
    d.push(0x01);
    for n in names {
        d.extend(bstr(n.as_bytes()));
    }
    plain_chunk(b"PROP", &d)
}
fn prnt_chunk(version: u8, count: u32, subj: &[i32], par: &[i32]) -> Vec<u8> {
    let mut d = vec![version];
    d.extend(count.to_le_bytes());
    d.extend(referents(subj));
    d.extend(referents(par));
    plain_chunk(b"PRNT", &d)
}
fn end_chunk() -> Vec<u8> {
    plain_chunk(b"END\0", b"</roblox>")
}
fn cat(parts: &[Vec<u8>]) -> Vec<u8> {
    parts.concat()
}

pub const CRAFT_COUNT: usize = 37;
pub fn crafted_bin(n: usize) -> (&'static str, Vec<u8>) {
    let h = raw_header(1, 2);
    let inst = inst_chunk(0, "Folder", &[0, 1]);
    let names = name_chunk(0, &["a", "b"]);
    let good_prnt = prnt_chunk(0, 2, &[0, 1], &[-1, 0]);
    let e = end_chunk();
    match n {
        0 => ("valid-two-folders", cat(&[h, inst, names, good_prnt, e])),
        1 => ("prnt-unknown-parent", cat(&[h, inst, names, prnt_chunk(0, 2, &[0, 1], &[-1, 7]), e])),
        2 => ("prnt-duplicate-subject", cat(&[h, inst, names, prnt_chunk(0, 2, &[0, 0], &[-1, -1]), e])),
        3 => ("prnt-unknown-subject", cat(&[h, inst, names, prnt_chunk(0, 2, &[0, 9], &[-1, -1]), e])),
        4 => ("prnt-self-parent", cat(&[h, inst, names, prnt_chunk(0, 2, &[0, 1], &[0, -1]), e])),
        5 => ("prnt-two-cycle", cat(&[h, inst, names, prnt_chunk(0, 2, &[0, 1], &[1, 0]), e])),
        6 => ("no-prnt", cat(&[h, inst, names, e])),
        7 => ("duplicate-type-id", cat(&[h, inst, inst_chunk(0, "Model", &[2, 3]), names, good_prnt, e])),
        8 => ("duplicate-referent", cat(&[h, inst, inst_chunk(1, "Model", &[1, 2]), names, good_prnt, e])),
        9 => ("prop-unknown-type-id", cat(&[h, inst, name_chunk(5, &["a", "b"]), good_prnt, e])),
        10 => ("prop-before-inst", cat(&[h, names, inst, good_prnt, e])),
        11 => ("no-end", cat(&[h, inst, names, good_prnt])),
        12 => ("garbage-after-end", cat(&[h, inst, names, good_prnt, e, vec![0xde, 0xad, 0xbe, 0xef]])),
        13 => ("inst-count-zero", cat(&[h, inst_chunk(0, "Folder", &[]), good_prnt, e])),
        14 => {
            let mut d = 0u32.to_le_bytes().to_vec();
            d.extend(bstr(b"Folder"));
            d.push(0);
            d.extend(3u32.to_le_bytes());
            d.extend([0, 0, 0]);
            ("inst-referents-short", cat(&[h, plain_chunk(b"INST", &d), e]))
        }
        15 => ("name-array-short", cat(&[h, inst, name_chunk(0, &["a"]), good_prnt, e])),
        16 => ("header-instances-ffffffff", cat(&[raw_header(1, 0xffff_ffff), inst, names, good_prnt, e])),
        17 => ("header-types-ffffffff", cat(&[raw_header(0xffff_ffff, 2), inst, names, good_prnt, e])),
        18 => ("chunk-len-ffffffff", cat(&[h, raw_chunk(b"INST", 0, 0xffff_ffff, 0, &[1, 2, 3]), e])),
        19 => ("chunk-clen-ffffffff", cat(&[h, raw_chunk(b"INST", 0xffff_ffff, 16, 0, &[1, 2, 3, 4, 5]), e])),
        20 => ("chunk-clen-3", cat(&[h, raw_chunk(b"INST", 3, 16, 0, &[1, 2, 3])])),
        21 => ("chunk-reserved-1", cat(&[h, raw_chunk(b"INST", 0, 0, 1, &[]), e])),
        22 => ("two-prnt-chunks", cat(&[h, inst, names, good_prnt.clone(), good_prnt, e])),
        23 => {
            let mut d = 0u32.to_le_bytes().to_vec();
            d.extend(bstr(b"Whatever"));
            ("prop-ends-after-name", cat(&[h, inst, names, plain_chunk(b"PROP", &d), good_prnt, e]))
        }
        24 => {
            let mut d = 0u32.to_le_bytes().to_vec();
            d.extend(bstr(b"Whatever"));
            d.push(0xee);
            d.extend([1, 2, 3]);
            ("prop-unknown-type-byte", cat(&[h, inst, names, plain_chunk(b"PROP", &d), good_prnt, e]))
        }
        25 => ("sstr-version-1", cat(&[h, plain_chunk(b"SSTR", &[1, 0, 0, 0, 0, 0, 0, 0]), inst, names, good_prnt, e])),
        26 => ("sstr-count-huge", cat(&[h, plain_chunk(b"SSTR", &[0, 0, 0, 0, 0xff, 0xff, 0xff, 0x7f, 1, 2]), inst, names, good_prnt, e])),
        27 => ("meta-count-huge", cat(&[h, plain_chunk(b"META", &[0xff, 0xff, 0xff, 0xff]), inst, names, good_prnt, e])),
        28 => ("prnt-version-1", cat(&[h, inst, names, prnt_chunk(1, 2, &[0, 1], &[-1, 0]), e])),
        29 => ("prnt-count-7fffffff", cat(&[h, inst, names, prnt_chunk(0, 0x7fff_ffff, &[0, 1], &[-1, 0]), e])),
        30 => {
            let mut d = 0u32.to_le_bytes().to_vec();
            d.extend(bstr(b"Folder"));
            d.push(0);
            d.extend(0x7fff_ffffu32.to_le_bytes());
            ("inst-count-7fffffff", cat(&[h, plain_chunk(b"INST", &d), e]))
        }
        31 => {
            // a string whose length prefix says 4 GiB
            let mut d = 0u32.to_le_bytes().to_vec();
            d.extend(0xffff_ffffu32.to_le_bytes());
            d.extend(b"Fold");
            ("inst-class-name-length-ffffffff", cat(&[h, plain_chunk(b"INST", &d), e]))
        }
        32 => ("lz4-claims-7fffffff", cat(&[h, raw_chunk(b"INST", 5, 0x7fff_ffff, 0, &[0x10, 0x41, 0x01, 0x00, 0x00]), e])),
        34 | 35 | 36 => {
            // Content column (type 0x22) whose source types ask for more URIs / objects than are listed
            let inst2 = inst_chunk(0, "ImageLabel", &[0, 1]);
            let mut d = 0u32.to_le_bytes().to_vec();
            d.extend(bstr(b"ImageContent"));
            d.push(0x22);
            d.extend(interleave_i32(if n == 35 { &[2, 0] } else { &[1, 0] }));
            d.extend(0u32.to_le_bytes()); // uri count
            d.extend(0u32.to_le_bytes()); // object count
            if n != 36 {
                d.extend(0u32.to_le_bytes()); // external count
            }
            let label = ["content-uri-missing", "content-object-missing", "content-external-count-missing"][n - 34];
            (label, cat(&[h, inst2, names, plain_chunk(b"PROP", &d), good_prnt, e]))
        }
        _ => ("zstd-claims-7fffffff", cat(&[h, raw_chunk(b"INST", 9, 0x7fff_ffff, 0, &[0x28, 0xb5, 0x2f, 0xfd, 0x20, 0x00, 0x01, 0x00, 0x00]), e])),
    }
}

// ================================================================================ XML text surgery

#[derive(Clone, Copy, PartialEq, Debug)]
pub enum Seg {
    Tag,
    Text,
}

/// splits an XML document written by rbx_xml into tag and text segments (CDATA counts as text)
pub fn xml_segments(x: &[u8]) -> Vec<(Seg, usize, usize)> {
    let mut out = Vec::new();
    let mut i = 0;
    while i < x.len() {
        if x[i] == b'<' {
            if x[i..].starts_with(b"<![CDATA[") {
                let end = find(x, i, b"]]>").map(|p| p + 3).unwrap_or(x.len());
                out.push((Seg::Text, i, end));
                i = end;
            } else {
                let end = find(x, i, b">").map(|p| p + 1).unwrap_or(x.len());
                out.push((Seg::Tag, i, end));
                i = end;
            }
        } else {
            let end = find(x, i, b"<").unwrap_or(x.len());
            if x[i..end].iter().any(|b| !b.is_ascii_whitespace()) {
                out.push((Seg::Text, i, end));
            }
            i = end;
        }
    }
    out
}

fn find(x: &[u8], from: usize, pat: &[u8]) -> Option<usize> {
    if pat.is_empty() || x.len() < pat.len() {
        return None;
    }
    (from..=x.len() - pat.len()).find(|&i| &x[i..i + pat.len()] == pat)
}

/// attribute value spans (inside the quotes) of every tag
pub fn xml_attr_spans(x: &[u8]) -> Vec<(usize, usize)> {
    let mut out = Vec::new();
    for (k, s, e) in xml_segments(x) {
        if k != Seg::Tag {
            continue;
        }
        let mut i = s;
        while i < e {
            if x[i] == b'"' {
                let close = (i + 1..e).find(|&j| x[j] == b'"').unwrap_or(e);
                out.push((i + 1, close));
                i = close + 1;
            } else {
                i += 1;
            }
        }
    }
    out
}

pub fn nasty_texts() -> Vec<Vec<u8>> {
    let mut v: Vec<Vec<u8>> = [
        "", " ", "0", "-1", "1e999", "NaN", "INF", "-INF", "99999999999999999999999999", "true", "null", "%%%%", "A", "AAAAA===", "RBX0", "&bogus;", "&#xFFFFFFFF;", "&#0;",
        "<Item>", "</Item>", "]]>", "<![CDATA[", "<![CDATA[x]]>", "0123456789abcdef0123456789abcde", "0123456789abcdef0123456789abcdef0", "0123456789abcdef0123456789abcdef",
        "\u{e9}\u{e9}\u{e9}\u{e9}\u{e9}\u{e9}\u{e9}\u{e9}\u{e9}\u{e9}\u{e9}\u{e9}\u{e9}\u{e9}\u{e9}\u{e9}", "a\u{e9}\u{e9}\u{e9}\u{e9}\u{e9}\u{e9}\u{e9}\u{e9}\u{e9}\u{e9}\u{e9}\u{e9}\u{e9}\u{e9}\u{e9}a",
        "1, 2", "1 2 3", "<X>1</X>", "<X>1</X><Y>2</Y><Z>3</Z>", "<R>1</R><G>2</G><B>3</B>", "<null></null>", "<url>x</url>", "<Family><url>x</url></Family><Weight>9999</Weight><Style>Bogus</Style>",
        "4294967296", "-2147483649", "0x10", "1.0.0", "+", "-", ".", "e", "\u{feff}1",
    ]
    .iter()
    .map(|s| s.as_bytes().to_vec())
    .collect();
    v.push(vec![0xff, 0xfe]);
    v.push(vec![0x00]);
    v.push(vec![b'A'; 70000]);
    v.push(vec![b'9'; 400]);
    v
}

pub fn nasty_attrs() -> Vec<Vec<u8>> {
    let mut v: Vec<Vec<u8>> = ["", "RBX", "null", "0", "\u{e9}", "x\" y=\"z", "&bogus;", "&lt;", "Item", "Name", "4", "99999999999", "RBX0123456789abcdef0123456789abcdef"].iter().map(|s| s.as_bytes().to_vec()).collect();
    v.push(vec![b'n'; 70000]);
    v.push(vec![0xff]);
    v
}

pub const TAG_RENAMES: [&str; 14] = ["Item", "Properties", "string", "bogus", "Ref", "SharedString", "BinaryString", "UniqueId", "CoordinateFrame", "OptionalCoordinateFrame", "Content", "SharedStrings", "roblox", "Font"];
/// tag ops: 0 delete, 1 duplicate, 2 swap with the next tag, 3.. rename to TAG_RENAMES[op-3]
pub const TAG_OPS: usize = 3 + TAG_RENAMES.len();

fn xml_tag_op(x: &[u8], tag: usize, op: usize) -> Vec<u8> {
    let tags: Vec<(usize, usize)> = xml_segments(x).into_iter().filter(|s| s.0 == Seg::Tag).map(|s| (s.1, s.2)).collect();
    if tags.is_empty() {
        return x.to_vec();
    }
    let (s, e) = tags[tag % tags.len()];
    let mut out = Vec::new();
    match op {
        0 => {
            out.extend_from_slice(&x[..s]);
            out.extend_from_slice(&x[e..]);
        }
        1 => {
            out.extend_from_slice(&x[..e]);
            out.extend_from_slice(&x[s..]);
        }
        2 => {
            let (s2, e2) = tags[(tag + 1) % tags.len()];
            if s2 < e {
                return x.to_vec();
            }
            out.extend_from_slice(&x[..s]);
            out.extend_from_slice(&x[s2..e2]);
            out.extend_from_slice(&x[e..s2]);
            out.extend_from_slice(&x[s..e]);
            out.extend_from_slice(&x[e2..]);
        }
        _ => {
            // replace the tag's name, keep `</`, attributes and `/>`
            let newname = TAG_RENAMES[(op - 3) % TAG_RENAMES.len()].as_bytes();
            let mut ns = s + 1;
            if ns < e && x[ns] == b'/' {
                ns += 1;
            }
            let mut ne = ns;
            while ne < e && !(x[ne].is_ascii_whitespace() || x[ne] == b'>' || x[ne] == b'/') {
                ne += 1;
            }
            out.extend_from_slice(&x[..ns]);
            out.extend_from_slice(newname);
            out.extend_from_slice(&x[ne..]);
        }
    }
    out
}

pub const XDOC_COUNT: usize = 22;
pub fn xml_special(n: usize) -> (&'static str, Vec<u8>) {
    let s = |t: &str| t.as_bytes().to_vec();
    match n {
        0 => ("empty", vec![]),
        1 => ("bom-only", vec![0xef, 0xbb, 0xbf]),
        2 => ("no-root", s("just text")),
        3 => ("unclosed-roblox", s("<roblox version=\"4\">")),
        4 => ("empty-roblox", s("<roblox version=\"4\"></roblox>")),
        5 => ("no-version", s("<roblox></roblox>")),
        6 => ("item-without-class", s("<roblox version=\"4\"><Item></Item></roblox>")),
        7 => ("item-without-properties", s("<roblox version=\"4\"><Item class=\"Folder\" referent=\"A\"></Item></roblox>")),
        8 => {
            let mut d = String::from("<?xml version=\"1.0\"?><!DOCTYPE lolz [<!ENTITY lol \"lol\">");
            for i in 1..10 {
                let prev = if i == 1 { "lol".to_string() } else { format!("lol{}", i - 1) };
                d.push_str(&format!("<!ENTITY lol{i} \"{}\">", format!("&{prev};").repeat(10)));
            }
            d.push_str("]><roblox version=\"4\"><Item class=\"StringValue\" referent=\"A\"><Properties><string name=\"Value\">&lol9;</string></Properties></Item></roblox>");
            ("billion-laughs", d.into_bytes())
        }
        9 => ("external-entity", s("<?xml version=\"1.0\"?><!DOCTYPE r [<!ENTITY x SYSTEM \"file:///etc/hostname\">]><roblox version=\"4\"><Item class=\"StringValue\" referent=\"A\"><Properties><string name=\"Value\">&x;</string></Properties></Item></roblox>")),
        10 => ("ref-to-missing", s("<roblox version=\"4\"><Item class=\"ObjectValue\" referent=\"A\"><Properties><Ref name=\"Value\">RBXMISSING</Ref></Properties></Item></roblox>")),
        11 => ("sharedstring-unknown-key", s("<roblox version=\"4\"><Item class=\"MeshPart\" referent=\"A\"><Properties><SharedString name=\"PhysicalConfigData\">AAAAAAAAAAAAAAAAAAAAAA==</SharedString></Properties></Item></roblox>")),
        12 => ("sharedstrings-bad-base64", s("<roblox version=\"4\"><SharedStrings><SharedString md5=\"%%%\">%%%</SharedString></SharedStrings></roblox>")),
        13 => ("properties-in-property", s("<roblox version=\"4\"><Item class=\"Folder\" referent=\"A\"><Properties><string name=\"Name\"><Properties><string name=\"Name\">x</string></Properties></string></Properties></Item></roblox>")),
        14 => ("duplicate-referents", s("<roblox version=\"4\"><Item class=\"Folder\" referent=\"A\"><Properties></Properties></Item><Item class=\"Folder\" referent=\"A\"><Properties></Properties></Item></roblox>")),
        15 => {
            let mut d = String::from("<roblox version=\"4\"><Item class=\"Folder\" referent=\"A\"");
            for i in 0..20000 {
                d.push_str(&format!(" a{i}=\"v\""));
            }
            d.push_str("><Properties></Properties></Item></roblox>");
            ("many-attributes", d.into_bytes())
        }
        16 => {
            let name = "T".repeat(200000);
            ("long-tag-name", format!("<roblox version=\"4\"><{name}></{name}></roblox>").into_bytes())
        }
        17 => {
            // UTF-16 LE with BOM
            let mut d = vec![0xff, 0xfe];
            for u in "<roblox version=\"4\"></roblox>".encode_utf16() {
                d.extend(u.to_le_bytes());
            }
            ("utf16", d)
        }
        18 => ("nul-bytes", { let mut d = s("<roblox version=\"4\">"); d.extend([0, 0, 0]); d.extend(s("</roblox>")); d }),
        19 => ("unclosed-cdata", s("<roblox version=\"4\"><Item class=\"Script\" referent=\"A\"><Properties><ProtectedString name=\"Source\"><![CDATA[abc</ProtectedString></Properties></Item></roblox>")),
        20 => ("processing-instruction", s("<?xml version=\"1.0\" encoding=\"bogus-9\"?><?pi data?><roblox version=\"4\"></roblox>")),
        _ => ("mismatched-close", s("<roblox version=\"4\"><Item class=\"Folder\" referent=\"A\"><Properties></Item></Properties></roblox>")),
    }
}

// ================================================================================ nesting

fn nested_xml(depth: usize) -> Vec<u8> {
    let mut s = String::with_capacity(depth * 80 + 64);
    s.push_str("<roblox version=\"4\">");
    for i in 0..depth {
        s.push_str(&format!("<Item class=\"Folder\" referent=\"RBX{i}\"><Properties></Properties>"));
    }
    for _ in 0..depth {
        s.push_str("</Item>");
    }
    s.push_str("</roblox>");
    s.into_bytes()
}

fn nested_dom(depth: usize) -> WeakDom {
    let mut dom = WeakDom::new(InstanceBuilder::new("DataModel"));
    let mut cur = dom.root_ref();
    for _ in 0..depth {
        cur = dom.insert(cur, InstanceBuilder::new("Folder"));
    }
    dom
}

fn nested_bin(depth: usize) -> Vec<u8> {
    // PRNT chain 0 <- 1 <- 2 ... written by hand (does not depend on the serializer)
    let refs: Vec<i32> = (0..depth as i32).collect();
    let parents: Vec<i32> = (0..depth as i32).map(|i| i - 1).collect();
    let names: Vec<&str> = (0..depth).map(|_| "f").collect();
    cat(&[raw_header(1, depth as u32), inst_chunk(0, "Folder", &refs), name_chunk(0, &names), prnt_chunk(0, depth as u32, &refs, &parents), end_chunk()])
}

// ================================================================================ jobs -> inputs

fn file_fmt(ffmt: &str) -> &str {
    if ffmt == "xmlu" {
        "xml"
    } else {
        ffmt
    }
}

pub const SPLICE_OPS: usize = 10;

fn splice(fx: &Fixed, ffmt: &str, file: usize, op: usize, a: usize, b: usize) -> Vec<u8> {
    let raw = &fx.files[ffmt][file];
    let mut f = bin_parse(raw);
    let n = f.chunks.len();
    let a = a % n;
    match op {
        0 => {
            f.chunks.remove(a);
        }
        1 => {
            let c = f.chunks[a].clone();
            f.chunks.insert(a, c);
        }
        2 => f.chunks.swap(a, b % n),
        3 => f.chunks[a].0 = CHUNK_NAMES[b % CHUNK_NAMES.len()],
        4 => {
            let l = f.chunks[a].1.len();
            f.chunks[a].1.truncate(l.saturating_sub(1 + b));
        }
        5 => {
            let c = f.chunks.remove(a);
            f.chunks.push(c);
        }
        6 => {
            let p = f.chunks[b % n].1.clone();
            f.chunks[a].1 = p;
        }
        7 => {
            let other = bin_parse(&fx.files[ffmt][(file + 1) % fx.count(ffmt)]);
            let c = other.chunks[b % other.chunks.len()].clone();
            f.chunks.insert(a, c);
        }
        8 => {
            // raw cut inside the stored payload, header fields untouched
            let (s, total) = f.raw_spans[a];
            let cut = (1 + b).min(total - 16);
            let mut out = raw[..s + total - cut].to_vec();
            out.extend_from_slice(&raw[s + total..]);
            return out;
        }
        _ => f.chunks[a].1.clear(),
    }
    bin_build(&f, ffmt)
}

fn random_input(dfmt: &str, kind: u64, rng: &mut Rng) -> Vec<u8> {
    let n = rng.below(200) as usize;
    let mut body: Vec<u8> = (0..n).map(|_| rng.next() as u8).collect();
    match (dfmt, kind % 4) {
        ("bin", 1) => {
            let mut h = raw_header(rng.below(4) as u32, rng.below(4) as u32);
            h.extend(body);
            h
        }
        ("bin", 2) | ("bin", 3) => {
            // valid header, then chunks with valid names and random payloads
            let mut out = raw_header(rng.below(3) as u32, rng.below(3) as u32);
            for _ in 0..rng.range(1, 4) {
                let name = CHUNK_NAMES[rng.below(6) as usize];
                let m = rng.below(40) as usize;
                let p: Vec<u8> = (0..m).map(|_| if rng.chance(60) { rng.below(4) as u8 } else { rng.next() as u8 }).collect();
                out.extend(plain_chunk(&name, &p));
            }
            if kind % 4 == 3 {
                out.extend(end_chunk());
            }
            out
        }
        ("attr", 1) | ("attr", 2) => {
            // plausible blob: count, then (key, type, bytes)
            let mut out = (rng.below(4) as u32).to_le_bytes().to_vec();
            for _ in 0..rng.below(4) {
                out.extend(bstr(b"k"));
                out.push(rng.below(0x22) as u8);
                let m = rng.below(30) as usize;
                out.extend((0..m).map(|_| if rng.chance(50) { rng.below(3) as u8 } else { rng.next() as u8 }));
            }
            out
        }
        ("xml", 1) | ("xmlu", 1) => {
            let mut out = b"<roblox version=\"4\">".to_vec();
            for b in body.iter_mut() {
                *b = b"<>/\"= ItemPropertiesstringname&;#x0123 \n"[(*b as usize) % 40];
            }
            out.extend(body);
            out
        }
        _ => body,
    }
}

/// job line -> (replay format, payload)
pub fn materialize(job: &str, fx: &Fixed) -> Result<(String, Vec<u8>), String> {
    let t: Vec<&str> = job.split_whitespace().collect();
    let num = |i: usize| -> Result<u64, String> { t.get(i).ok_or("short job")?.parse::<u64>().map_err(|e| format!("job field {i}: {e}")) };
    let kind = *t.first().ok_or("empty job")?;
    match kind {
        "replay" => Ok((t.get(1).ok_or("replay: format")?.to_string(), val::unhex(t.get(2).copied().unwrap_or("-"))?)),
        "trunc" => {
            let ffmt = t[1];
            let b = &fx.files[ffmt][num(2)? as usize];
            Ok((format!("trunc-{}", dfmt_of(ffmt)), b[..(num(3)? as usize).min(b.len())].to_vec()))
        }
        "deliv" => {
            let ffmt = t[1];
            let mut b = fx.files[file_fmt(ffmt)][num(2)? as usize].clone();
            let mseed = num(3)?;
            if mseed != 0 {
                let mut rng = Rng::new(mseed);
                if rng.chance(50) {
                    flip_bits(&mut b, &mut rng)
                } else {
                    subst_bytes(&mut b, &mut rng)
                }
                if rng.chance(25) {
                    let k = rng.below(b.len() as u64 + 1) as usize;
                    b.truncate(k);
                }
            }
            let mut p = vec![num(4)? as u8];
            p.extend(num(5)?.to_be_bytes());
            p.extend(b);
            Ok((format!("deliv-{}", dfmt_of(ffmt)), p))
        }
        "sink" => {
            let mut p = vec![num(3)? as u8, num(2)? as u8];
            p.extend(be32(num(4)? as u32));
            p.extend((num(4)? ^ 0x51ed).to_be_bytes());
            Ok((format!("sink-{}", t[1]), p))
        }
        "flip" | "subst" => {
            let ffmt = t[1];
            let mut b = fx.files[file_fmt(ffmt)][num(2)? as usize].clone();
            let mut rng = Rng::new(num(3)?);
            if kind == "flip" {
                flip_bits(&mut b, &mut rng)
            } else {
                subst_bytes(&mut b, &mut rng)
            }
            Ok((dfmt_of(ffmt).to_string(), b))
        }
        "len" => {
            let ffmt = t[1];
            let raw = &fx.files[ffmt][num(2)? as usize];
            let off = num(4)? as usize;
            let vi = num(5)? as usize;
            if t[3] == "raw" {
                let mut b = raw.clone();
                edit_u32(&mut b, off, vi);
                Ok((dfmt_of(ffmt).to_string(), b))
            } else {
                let ci: usize = t[3][1..].parse().map_err(|_| "len: chunk index")?;
                let mut f = bin_parse(raw);
                edit_u32(&mut f.chunks[ci].1, off, vi);
                Ok(("bin".to_string(), bin_build(&f, ffmt)))
            }
        }
        "splice" => Ok(("bin".to_string(), splice(fx, t[1], num(2)? as usize, num(3)? as usize, num(4)? as usize, num(5)? as usize))),
        "rand" => {
            let mut rng = Rng::new(num(3)?);
            Ok((t[1].to_string(), random_input(t[1], num(2)?, &mut rng)))
        }
        "craft" => Ok(("bin".to_string(), crafted_bin(num(2)? as usize).1)),
        "xtext" | "xattr" | "xtag" => {
            let x = &fx.files["xml"][num(2)? as usize];
            let idx = num(3)? as usize;
            let which = num(4)? as usize;
            let out = match kind {
                "xtext" => {
                    let texts: Vec<(usize, usize)> = xml_segments(x).into_iter().filter(|s| s.0 == Seg::Text).map(|s| (s.1, s.2)).collect();
                    if texts.is_empty() {
                        x.clone()
                    } else {
                        let (s, e) = texts[idx % texts.len()];
                        let n = nasty_texts();
                        [&x[..s], &n[which % n.len()][..], &x[e..]].concat()
                    }
                }
                "xattr" => {
                    let spans = xml_attr_spans(x);
                    if spans.is_empty() {
                        x.clone()
                    } else {
                        let (s, e) = spans[idx % spans.len()];
                        let n = nasty_attrs();
                        [&x[..s], &n[which % n.len()][..], &x[e..]].concat()
                    }
                }
                _ => xml_tag_op(x, idx, which),
            };
            Ok((t[1].to_string(), out))
        }
        "xdoc" => Ok((t[1].to_string(), xml_special(num(2)? as usize).1)),
        "nest" | "nestser" => Ok((format!("{kind}-{}", t[1]), be32(num(2)? as u32).to_vec())),
        other => Err(format!("unknown job kind {other}")),
    }
}

// ================================================================================ executing one input

pub struct Exec {
    pub cls: String,
    pub show: String,
    pub fails: Vec<(String, String)>,
    pub input_len: usize,
}

fn check_common(t: &Tracked, input_len: usize, what: &str, fails: &mut Vec<(String, String)>) {
    if let Out::Panic { file, line, msg } = &t.out {
        fails.push((panic_key(file, *line, msg), format!("{what} panicked at {file}:{line}: {}", one_line(msg, 200))));
    }
    if let Some((size, site)) = &t.site {
        fails.push((
            site.clone(),
            format!("{what} requested {size} bytes (largest single request {}, peak live {}) for an input of {input_len} bytes; allowed {} + {}*len", t.maxreq, t.peak, ALLOC_BASE, ALLOC_FACTOR),
        ));
    }
}

pub fn exec(fmt: &str, p: &[u8], fx: &Fixed) -> Exec {
    let mut fails = Vec::new();
    if let Some(dfmt) = fmt.strip_prefix("trunc-") {
        let t = tracked(p.len(), || decode_plain(dfmt, p));
        check_common(&t, p.len(), "decoding a strict prefix of a valid file", &mut fails);
        // zero bytes are, by design, the encoding of the empty attribute map (property C14): the 0-byte prefix of
        // an attribute blob is therefore a valid blob, not an undetected truncation
        let by_design = dfmt.starts_with("attr") && p.is_empty();
        if let (Out::Ok(d), false) = (&t.out, by_design) {
            let key = if p.is_empty() { format!("{dfmt}-empty-input-accepted") } else { format!("{dfmt}-prefix-accepted") };
            fails.push((key, format!("a strict prefix ({} bytes) of a valid file decodes to Ok ({d})", p.len())));
        }
        return Exec { cls: t.out.cls(), show: t.out.show(), fails, input_len: p.len() };
    }
    if let Some(dfmt) = fmt.strip_prefix("deliv-") {
        if p.len() < 9 {
            return Exec { cls: "harness-error".into(), show: "short deliv payload".into(), fails, input_len: 0 };
        }
        let (mode, seed, b) = (p[0], rd_be64(&p[1..9]), &p[9..]);
        let plain = tracked(b.len(), || decode_plain(dfmt, b));
        let mut stats = (0u64, 0u64);
        let deliv = tracked(b.len(), || {
            let mut r = Deliver::new(b, mode, seed);
            let res = decode_with(dfmt, &mut r);
            stats = (r.reads, r.interrupts);
            res
        });
        check_common(&plain, b.len(), "decoding (slice reader)", &mut fails);
        check_common(&deliv, b.len(), "decoding (delivering reader)", &mut fails);
        let same = match (&plain.out, &deliv.out) {
            (Out::Panic { file: f1, line: l1, .. }, Out::Panic { file: f2, line: l2, .. }) => f1 == f2 && l1 == l2,
            (a, b) => a == b,
        };
        if !same {
            let kind = if mode >= 3 { "interrupted" } else { "short-reads" };
            fails.push((
                format!("{dfmt}-delivery-{kind}-differs"),
                format!("reader mode {mode} ({} reads, {} Interrupted): slice reader gives `{}`, delivering reader gives `{}`", stats.0, stats.1, plain.out.show(), deliv.out.show()),
            ));
        }
        let cls = if same { plain.out.cls() } else { format!("{}!differs", plain.out.cls()) };
        return Exec { cls, show: format!("slice: {} / delivered: {}", plain.out.show(), deliv.out.show()), fails, input_len: b.len() };
    }
    if let Some(ffmt) = fmt.strip_prefix("sink-") {
        if p.len() < 14 || !FFMTS.contains(&ffmt) || (p[1] as usize) >= fx.count(ffmt) {
            return Exec { cls: "harness-error".into(), show: "bad sink payload".into(), fails, input_len: 0 };
        }
        let (mode, file, k, seed) = (p[0], p[1] as usize, rd_be32(&p[2..6]) as usize, rd_be64(&p[6..14]));
        let full = &fx.files[ffmt][file];
        let t = tracked(full.len(), || {
            let mut s = Sink::new(k, mode, seed);
            let r = if ffmt == "attr" { fx.attrs[file].1.to_writer(&mut s).map_err(|e| e.to_string()) } else { encode_dom(ffmt, &fx.doms[file].1, &mut s) };
            r.map(|_| {
                let mut got = s.got.clone();
                if ffmt == "xml" {
                    while got.last().map_or(false, |b| b.is_ascii_whitespace()) {
                        got.pop();
                    }
                }
                if &got == full {
                    "complete".to_string()
                } else {
                    format!("incomplete:{}of{}", s.got.len(), full.len())
                }
            })
        });
        check_common(&t, full.len(), "serializing into a failing sink", &mut fails);
        let name = fx.name(ffmt, file);
        match (&t.out, mode) {
            (Out::Ok(d), 0) | (Out::Ok(d), 1) => fails.push((
                format!("{ffmt}-sink-{}-reported-ok", if mode == 0 { "error" } else { "zero" }),
                format!("file `{name}`: the sink {} after {k} of {} bytes and the serializer returned Ok ({d})", if mode == 0 { "returned an io::Error" } else { "returned Ok(0)" }, full.len()),
            )),
            (Out::Ok(d), _) if d != "complete" => fails.push((format!("{ffmt}-sink-short-writes-lost"), format!("file `{name}`: sink accepting 1..7 bytes per write: serializer returned Ok but the output is {d}"))),
            (Out::Err(e), 2) => fails.push((format!("{ffmt}-sink-short-writes-error"), format!("file `{name}`: sink accepting 1..7 bytes per write never fails, yet the serializer returned Err({})", one_line(e, 120)))),
            _ => {}
        }
        return Exec { cls: t.out.cls(), show: t.out.show(), fails, input_len: full.len() };
    }
    if let Some(kind) = fmt.strip_prefix("nest-").or(fmt.strip_prefix("nestser-")) {
        if p.len() < 4 {
            return Exec { cls: "harness-error".into(), show: "bad nest payload".into(), fails, input_len: 0 };
        }
        let depth = rd_be32(p) as usize;
        let ser = fmt.starts_with("nestser-");
        let t = if ser {
            let dom = nested_dom(depth);
            let ffmt = if kind == "xml" { "xml" } else { "bin-none" };
            let est = depth * 100 + 100;
            let t = tracked(est, || {
                let mut buf = Vec::new();
                encode_dom(ffmt, &dom, &mut buf).map(|_| format!("bytes={}", buf.len()))
            });
            t
        } else {
            let b = if kind == "xml" { nested_xml(depth) } else { nested_bin(depth) };
            let dfmt = if kind == "xml" { "xml" } else { "bin" };
            tracked(b.len(), || decode_plain(dfmt, &b))
        };
        check_common(&t, depth * 100, &format!("{} {depth} nested instances", if ser { "serializing" } else { "decoding" }), &mut fails);
        if let Out::Err(e) = &t.out {
            fails.push((format!("{fmt}-rejected"), format!("{depth} nested instances: Err({})", one_line(e, 160))));
        }
        return Exec { cls: t.out.cls(), show: t.out.show(), fails, input_len: depth };
    }
    if let Some(what) = fmt.strip_prefix("selftest-") {
        // exercises the harness's own detection paths (never generated by fault-run)
        let t = tracked(p.len(), || match what {
            "hang" => loop {
                std::thread::sleep(Duration::from_millis(50));
            },
            "panic" => panic!("selftest panic"),
            "overflow" => {
                fn rec(n: u64) -> u64 {
                    let a = [n; 64];
                    if n == 0 { 0 } else { rec(n - 1) + std::hint::black_box(a)[3] }
                }
                Ok(format!("{}", rec(u64::MAX / 2)))
            }
            "alloc" => {
                let v: Vec<u8> = Vec::with_capacity(3 << 30);
                Ok(format!("{}", v.capacity()))
            }
            _ => Err("unknown selftest".into()),
        });
        check_common(&t, p.len(), "selftest", &mut fails);
        return Exec { cls: t.out.cls(), show: t.out.show(), fails, input_len: p.len() };
    }
    if ["bin", "xml", "xmlu", "attr"].contains(&fmt) {
        let t = tracked(p.len(), || decode_plain(fmt, p));
        check_common(&t, p.len(), "decoding", &mut fails);
        return Exec { cls: t.out.cls(), show: t.out.show(), fails, input_len: p.len() };
    }
    Exec { cls: "harness-error".into(), show: format!("unknown replay format {fmt}"), fails, input_len: 0 }
}

// ================================================================================ worker (fork server)

static PROGRESS_MS: AtomicU64 = AtomicU64::new(0);
static DONE: AtomicBool = AtomicBool::new(false);

fn hang_secs() -> u64 {
    std::env::var("FAULT_HANG_SECS").ok().and_then(|s| s.parse().ok()).unwrap_or(HANG_SECS)
}

fn raw_write(fd: i32, s: &str) {
    let mut b = s.as_bytes();
    while !b.is_empty() {
        let n = unsafe { libc::write(fd, b.as_ptr() as *const libc::c_void, b.len()) };
        if n <= 0 {
            break;
        }
        b = &b[n as usize..];
    }
}

/// runs jobs[skip..] on a watched job thread; never returns (exit 0 done, 86 hang, 3 harness error)
fn child_run(jobs: &'static [String], fx: &'static Fixed, skip: usize, fd: i32, cur: &'static AtomicU64) -> ! {
    let t0 = Instant::now();
    PROGRESS_MS.store(0, Ordering::SeqCst);
    CAP.store(ALLOC_CAP, Ordering::SeqCst);
    NOTE_FD.store(fd, Ordering::SeqCst);
    unsafe {
        let lim = libc::rlimit { rlim_cur: RLIMIT_AS_BYTES, rlim_max: RLIMIT_AS_BYTES };
        libc::setrlimit(libc::RLIMIT_AS, &lim);
    }
    let handle = std::thread::Builder::new()
        .name("job".into())
        .stack_size(JOB_STACK)
        .spawn(move || {
            let mut minlen: HashMap<String, usize> = HashMap::new();
            for i in skip..jobs.len() {
                cur.store(i as u64, Ordering::SeqCst);
                CUR_JOB.store(i, Ordering::SeqCst);
                PROGRESS_MS.store(t0.elapsed().as_millis() as u64, Ordering::SeqCst);
                let mut text = String::new();
                match materialize(&jobs[i], fx) {
                    Err(e) => text.push_str(&format!("R\t{i}\tharness-error:{}\t0\t0\n", one_line(&e, 80))),
                    Ok((fmt, payload)) => {
                        let r = exec(&fmt, &payload, fx);
                        for (key, msg) in &r.fails {
                            let best = minlen.entry(key.clone()).or_insert(usize::MAX);
                            let hex = if payload.len() < *best {
                                *best = payload.len();
                                val::hex(&payload)
                            } else {
                                "-".to_string()
                            };
                            text.push_str(&format!("F\t{i}\t{key}\t{}\t{fmt}\t{hex}\t{}\n", one_line(msg, 600), payload.len()));
                        }
                        text.push_str(&format!("R\t{i}\t{}\t{:016x}\t{}\n", r.cls, fnv(&payload) ^ fnv(fmt.as_bytes()), r.input_len));
                    }
                }
                raw_write(fd, &text);
            }
            DONE.store(true, Ordering::SeqCst);
        })
        .expect("spawn job thread");
    loop {
        std::thread::sleep(Duration::from_millis(5));
        if DONE.load(Ordering::SeqCst) {
            unsafe { libc::_exit(0) }
        }
        if handle.is_finished() {
            raw_write(2, "fault-child: job thread ended unexpectedly\n");
            unsafe { libc::_exit(3) }
        }
        let idle = (t0.elapsed().as_millis() as u64).saturating_sub(PROGRESS_MS.load(Ordering::SeqCst));
        if idle > hang_secs() * 1000 {
            raw_write(fd, &format!("H\t{}\n", cur.load(Ordering::SeqCst)));
            unsafe { libc::_exit(86) }
        }
    }
}

/// `fault-child JOBS RESULTS STDERR`: fork server.  Builds the fixed set once, then forks a child per
/// crash; records `C idx signal stderr-excerpt` for the job a child died in.
fn worker(jobs_path: &str, res_path: &str, err_path: &str) -> i32 {
    install_hook();
    unsafe {
        let lim = libc::rlimit { rlim_cur: 0, rlim_max: 0 };
        libc::setrlimit(libc::RLIMIT_CORE, &lim);
    }
    let jobs: &'static [String] = Box::leak(std::fs::read_to_string(jobs_path).expect("read jobs").lines().map(|s| s.to_string()).collect::<Vec<_>>().into_boxed_slice());
    let fx: &'static Fixed = Box::leak(Box::new(Fixed::build()));
    if !fx.problems.is_empty() {
        eprintln!("fault-child: fixed set problems: {:?}", fx.problems);
        return 3;
    }
    let _ = site_from_backtrace(); // warm the symbol cache before forking
    let res = std::fs::OpenOptions::new().create(true).append(true).open(res_path).expect("open results");
    use std::os::unix::io::AsRawFd;
    let fd = res.as_raw_fd();
    let cur: &'static AtomicU64 = unsafe {
        let p = libc::mmap(std::ptr::null_mut(), 4096, libc::PROT_READ | libc::PROT_WRITE, libc::MAP_SHARED | libc::MAP_ANONYMOUS, -1, 0);
        assert!(p != libc::MAP_FAILED);
        &*(p as *const AtomicU64)
    };
    let mut skip = 0usize;
    while skip < jobs.len() {
        let err_off = std::fs::metadata(err_path).map(|m| m.len()).unwrap_or(0);
        cur.store(skip as u64, Ordering::SeqCst);
        let pid = unsafe { libc::fork() };
        if pid < 0 {
            eprintln!("fault-child: fork failed");
            return 3;
        }
        if pid == 0 {
            child_run(jobs, fx, skip, fd, cur);
        }
        let mut status: i32 = 0;
        unsafe {
            libc::waitpid(pid, &mut status, 0);
        }
        let at = cur.load(Ordering::SeqCst) as usize;
        if libc::WIFEXITED(status) {
            match libc::WEXITSTATUS(status) {
                0 => break,
                86 => skip = at + 1,
                code => {
                    raw_write(fd, &format!("C\t{at}\texit{code}\t{}\n", stderr_excerpt(err_path, err_off)));
                    skip = at + 1;
                }
            }
        } else {
            let sig = if libc::WIFSIGNALED(status) { libc::WTERMSIG(status) } else { -1 };
            raw_write(fd, &format!("C\t{at}\tsig{sig}\t{}\n", stderr_excerpt(err_path, err_off)));
            skip = at + 1;
        }
    }
    0
}

fn stderr_excerpt(path: &str, from: u64) -> String {
    let all = std::fs::read(path).unwrap_or_default();
    let tail = String::from_utf8_lossy(&all[(from as usize).min(all.len())..]).to_string();
    let tail = tail.split("stack backtrace").next().unwrap_or("").to_string();
    // thread ids differ from run to run
    let mut out = String::new();
    let mut inparen = false;
    for c in tail.chars() {
        if c == '(' {
            inparen = true;
        }
        if !(inparen && c.is_ascii_digit()) {
            out.push(c);
        }
        if c == ')' {
            inparen = false;
        }
    }
    one_line(out.trim(), 300)
}

// ================================================================================ parent: running job lists

#[derive(Default, Clone)]
pub struct JobRes {
    pub cls: String,
    pub hash: u64,
    pub len: usize,
    pub fails: Vec<Fail>,
}
#[derive(Clone)]
pub struct Fail {
    pub key: String,
    pub msg: String,
    pub fmt: String,
    pub hex: Option<String>,
    pub len: usize,
}

fn classify_crash(fmt: &str, how: &str, stderr: &str, note: Option<&(usize, String)>) -> (String, String, String) {
    // -> (cls, key, message)
    let side = if fmt.starts_with("nestser-") || fmt.starts_with("sink-") { "serializer" } else { "decoder" };
    let short = if fmt.contains("xml") {
        "xml"
    } else if fmt.contains("bin") {
        "bin"
    } else {
        "attr"
    };
    if stderr.contains("overflowed its stack") {
        let key = if side == "serializer" { format!("{short}-ser-stack-overflow") } else { format!("{short}-stack-overflow") };
        return ("abort:stack-overflow".into(), key, format!("the {side} overflowed the 8 MiB stack and the process aborted ({how}): {}", one_line(stderr, 160)));
    }
    if stderr.contains("memory allocation of") || note.is_some() {
        let (size, site) = note.cloned().unwrap_or((0, "alloc-unattributed".into()));
        return ("abort:alloc".into(), site, format!("the {side} requested {size} bytes in one allocation (refused by the probe: limit {} bytes) and the process aborted ({how}): {}", ALLOC_CAP, one_line(stderr, 120)));
    }
    (format!("abort:{how}"), format!("{short}-abort-{how}"), format!("the process died ({how}) inside the {side}: {}", one_line(stderr, 200)))
}

/// runs all jobs on `nworkers` worker processes; returns one result per job (in order)
pub fn run_jobs(jobs: &[String], nworkers: usize, dir: &str, tag: &str, fx: &Fixed) -> Result<Vec<JobRes>, String> {
    let exe = std::env::current_exe().map_err(|e| e.to_string())?;
    let w = nworkers.max(1).min(jobs.len().max(1));
    let mut maps: Vec<Vec<usize>> = vec![Vec::new(); w];
    for i in 0..jobs.len() {
        maps[i % w].push(i);
    }
    let mut children = Vec::new();
    for k in 0..w {
        let jp = format!("{dir}/{tag}.w{k}.jobs");
        let rp = format!("{dir}/{tag}.w{k}.res");
        let ep = format!("{dir}/{tag}.w{k}.err");
        let text: String = maps[k].iter().map(|&i| format!("{}\n", jobs[i])).collect();
        std::fs::write(&jp, text).map_err(|e| e.to_string())?;
        let _ = std::fs::remove_file(&rp);
        let errf = std::fs::OpenOptions::new().create(true).write(true).truncate(true).append(false).open(&ep).map_err(|e| e.to_string())?;
        let errf = {
            drop(errf);
            std::fs::OpenOptions::new().append(true).open(&ep).map_err(|e| e.to_string())?
        };
        let child = std::process::Command::new(&exe)
            .args(["fault-child", &jp, &rp, &ep])
            .stdin(std::process::Stdio::null())
            .stdout(std::process::Stdio::null())
            .stderr(errf)
            .spawn()
            .map_err(|e| e.to_string())?;
        children.push((child, rp, ep));
    }
    let mut out: Vec<JobRes> = vec![JobRes::default(); jobs.len()];
    for (k, (mut child, rp, ep)) in children.into_iter().enumerate() {
        let st = child.wait().map_err(|e| e.to_string())?;
        if !st.success() {
            return Err(format!("worker {k} of {tag} failed ({st}): {}", stderr_excerpt(&ep, 0)));
        }
        let text = std::fs::read_to_string(&rp).map_err(|e| format!("{rp}: {e}"))?;
        let mut notes: HashMap<usize, (usize, String)> = HashMap::new();
        for line in text.lines() {
            let f: Vec<&str> = line.split('\t').collect();
            if f.len() < 2 {
                continue;
            }
            let li: usize = match f[1].parse() {
                Ok(v) => v,
                Err(_) => continue,
            };
            if li >= maps[k].len() {
                continue;
            }
            let gi = maps[k][li];
            match f[0] {
                "R" if f.len() >= 5 => {
                    out[gi].cls = f[2].to_string();
                    out[gi].hash = u64::from_str_radix(f[3], 16).unwrap_or(0);
                    out[gi].len = f[4].parse().unwrap_or(0);
                }
                "F" if f.len() >= 7 => out[gi].fails.push(Fail { key: f[2].into(), msg: f[3].into(), fmt: f[4].into(), hex: if f[5] == "-" && f[6] != "0" { None } else { Some(f[5].into()) }, len: f[6].parse().unwrap_or(0) }),
                "N" if f.len() >= 5 => {
                    notes.insert(li, (f[3].parse().unwrap_or(0), f[4].to_string()));
                }
                "H" | "C" => {
                    let (fmt, payload) = materialize(&jobs[gi], fx)?;
                    let (cls, key, msg) = if f[0] == "H" {
                        let short = if fmt.contains("xml") { "xml" } else if fmt.contains("bin") { "bin" } else { "attr" };
                        ("hang".to_string(), format!("{short}-hang"), format!("no result after {} s (watchdog); the worker was abandoned", hang_secs()))
                    } else {
                        classify_crash(&fmt, f.get(2).copied().unwrap_or("?"), f.get(3).copied().unwrap_or(""), notes.get(&li))
                    };
                    out[gi].cls = cls;
                    out[gi].hash = fnv(&payload) ^ fnv(fmt.as_bytes());
                    out[gi].len = payload.len();
                    out[gi].fails.push(Fail { key, msg, fmt, hex: Some(val::hex(&payload)), len: payload.len() });
                }
                _ => {}
            }
        }
    }
    for (i, r) in out.iter().enumerate() {
        if r.cls.is_empty() {
            return Err(format!("job `{}` of {tag} has no result", jobs[i]));
        }
    }
    Ok(out)
}

// ================================================================================ parent: job lists per tier

pub struct Plan {
    pub jobs: Vec<String>,
    pub exhaustive: BTreeMap<String, bool>, // "fmt/sweep" -> every point of the sweep's domain is enumerated
}

fn sweep_of(job: &str) -> String {
    let t: Vec<&str> = job.split_whitespace().collect();
    let mut sweep = t.first().copied().unwrap_or("?");
    if sweep == "sink" {
        // mode 0 (io::Error) is swept over every offset; Ok(0) and short-write sinks are sampled
        sweep = match t.get(3).copied() {
            Some("1") => "sinkzero",
            Some("2") => "sinkshort",
            _ => "sink",
        };
    }
    format!("{}/{}", t.get(1).copied().unwrap_or("?"), sweep)
}

pub fn plan(fx: &Fixed, tier: &str, seed: u64) -> Plan {
    let thorough = tier == "thorough";
    let mut rng = Rng::new(seed ^ 0xC13);
    let mut jobs: Vec<String> = Vec::new();
    let mut ex: BTreeMap<String, bool> = BTreeMap::new();
    let mut mark = |jobs: &Vec<String>, from: usize, exhaustive: bool| {
        for j in &jobs[from..] {
            let e = ex.entry(sweep_of(j)).or_insert(exhaustive);
            *e = *e && exhaustive;
        }
    };
    // ---- a. truncation at every offset; c. failing sink at every offset
    let from = jobs.len();
    for ffmt in FFMTS {
        for (fi, b) in fx.files[ffmt].iter().enumerate() {
            for k in 0..b.len() {
                jobs.push(format!("trunc {ffmt} {fi} {k}"));
                jobs.push(format!("sink {ffmt} {fi} 0 {k}"));
            }
        }
    }
    mark(&jobs, from, true);
    let from = jobs.len();
    for ffmt in FFMTS {
        for (fi, b) in fx.files[ffmt].iter().enumerate() {
            let step = if thorough { 1 } else { 5 };
            let start = if thorough { 0 } else { rng.below(step) as usize };
            for k in (start..b.len()).step_by(step as usize) {
                jobs.push(format!("sink {ffmt} {fi} 1 {k}"));
            }
            for s in 0..(if thorough { 8 } else { 2 }) {
                jobs.push(format!("sink {ffmt} {fi} 2 {}", rng.below(1 << 30) + s));
            }
        }
    }
    mark(&jobs, from, false);
    // ---- b. reader delivery
    let from = jobs.len();
    let dfmts = ["bin-none", "bin-lz4", "bin-zstd", "xml", "xmlu", "attr"];
    for ffmt in dfmts {
        let n = fx.count(file_fmt(ffmt));
        for fi in 0..n {
            for mode in 0..5 {
                for _ in 0..(if thorough { 4 } else { 1 }) {
                    jobs.push(format!("deliv {ffmt} {fi} 0 {mode} {}", rng.below(1 << 40)));
                }
            }
        }
        for _ in 0..(if thorough { 4000 } else { 250 }) {
            jobs.push(format!("deliv {ffmt} {} {} {} {}", rng.below(n as u64), 1 + rng.below(1 << 40), rng.below(5), rng.below(1 << 40)));
        }
    }
    mark(&jobs, from, false);
    // ---- d. mutation streams
    let from = jobs.len();
    for ffmt in dfmts {
        let n = fx.count(file_fmt(ffmt)) as u64;
        for kind in ["flip", "subst"] {
            for _ in 0..(if thorough { 150000 } else { 1500 }) {
                jobs.push(format!("{kind} {ffmt} {} {}", rng.below(n), rng.below(1 << 48)));
            }
        }
    }
    for dfmt in ["bin", "attr", "xml", "xmlu"] {
        for _ in 0..(if thorough { 300000 } else { 3000 }) {
            jobs.push(format!("rand {dfmt} {} {}", rng.below(4), rng.below(1 << 48)));
        }
    }
    mark(&jobs, from, false);
    // length-field edits: container fields and every payload offset
    for ffmt in ["bin-none", "bin-lz4", "bin-zstd"] {
        let from = jobs.len();
        for (fi, raw) in fx.files[ffmt].iter().enumerate() {
            let f = bin_parse(raw);
            let mut offs = vec![16usize, 20];
            for (s, _) in &f.raw_spans {
                offs.extend([s + 4, s + 8, s + 12]);
            }
            for o in offs {
                for vi in 0..LEN_VALUES {
                    jobs.push(format!("len {ffmt} {fi} raw {o} {vi}"));
                }
            }
        }
        mark(&jobs, from, true);
        let from = jobs.len();
        let full = thorough || ffmt == "bin-none";
        for (fi, raw) in fx.files[ffmt].iter().enumerate() {
            let f = bin_parse(raw);
            for (ci, (_, data)) in f.chunks.iter().enumerate() {
                for o in 0..data.len().saturating_sub(3) {
                    for vi in 0..LEN_VALUES {
                        if full || rng.below(12) == 0 {
                            jobs.push(format!("len {ffmt} {fi} c{ci} {o} {vi}"));
                        }
                    }
                }
            }
        }
        // (raw and payload edits share the sweep name; exhaustive only if both are)
        mark(&jobs, from, full);
    }
    let from = jobs.len();
    for (fi, raw) in fx.files["attr"].iter().enumerate() {
        for o in 0..raw.len().saturating_sub(3) {
            for vi in 0..LEN_VALUES {
                jobs.push(format!("len attr {fi} raw {o} {vi}"));
            }
        }
    }
    // chunk splicing / reordering / duplication
    for ffmt in ["bin-none", "bin-lz4", "bin-zstd"] {
        for (fi, raw) in fx.files[ffmt].iter().enumerate() {
            let n = bin_parse(raw).chunks.len();
            for a in 0..n {
                for op in [0, 1, 5, 9] {
                    jobs.push(format!("splice {ffmt} {fi} {op} {a} 0"));
                }
                for b in 0..n {
                    jobs.push(format!("splice {ffmt} {fi} 2 {a} {b}"));
                    jobs.push(format!("splice {ffmt} {fi} 6 {a} {b}"));
                }
                for b in 0..CHUNK_NAMES.len() {
                    jobs.push(format!("splice {ffmt} {fi} 3 {a} {b}"));
                }
                for b in [0, 1, 2, 3, 4, 7, 15, 31] {
                    jobs.push(format!("splice {ffmt} {fi} 4 {a} {b}"));
                    jobs.push(format!("splice {ffmt} {fi} 8 {a} {b}"));
                }
                for b in 0..6 {
                    jobs.push(format!("splice {ffmt} {fi} 7 {a} {b}"));
                }
            }
        }
    }
    for n in 0..CRAFT_COUNT {
        jobs.push(format!("craft bin {n}"));
    }
    // XML edits: every text node x every nasty text, every attribute value x every nasty value, every tag x every op
    let (nt, na) = (nasty_texts().len(), nasty_attrs().len());
    for (fi, x) in fx.files["xml"].iter().enumerate() {
        let segs = xml_segments(x);
        let texts = segs.iter().filter(|s| s.0 == Seg::Text).count();
        let tags = segs.iter().filter(|s| s.0 == Seg::Tag).count();
        let attrs = xml_attr_spans(x).len();
        let mut flip = fi;
        for (kind, count, opts) in [("xtext", texts, nt), ("xattr", attrs, na), ("xtag", tags, TAG_OPS)] {
            for i in 0..count {
                for o in 0..opts {
                    if thorough {
                        jobs.push(format!("{kind} xml {fi} {i} {o}"));
                        jobs.push(format!("{kind} xmlu {fi} {i} {o}"));
                    } else {
                        flip += 1;
                        jobs.push(format!("{kind} {} {fi} {i} {o}", if flip % 2 == 0 { "xml" } else { "xmlu" }));
                    }
                }
            }
        }
    }
    for n in 0..XDOC_COUNT {
        jobs.push(format!("xdoc xml {n}"));
        jobs.push(format!("xdoc xmlu {n}"));
    }
    mark(&jobs, from, true);
    // deep nesting
    let from = jobs.len();
    for d in [200, 1000, 5000, 10000, 20000, 50000] {
        jobs.push(format!("nest xml {d}"));
        jobs.push(format!("nestser xml {d}"));
    }
    for d in [200, 1000, 5000, 20000, 200000] {
        jobs.push(format!("nest bin {d}"));
        jobs.push(format!("nestser bin {d}"));
    }
    mark(&jobs, from, false);
    Plan { jobs, exhaustive: ex }
}

// ================================================================================ parent: fault-run

fn json_str(s: &str) -> String {
    serde_json::to_string(s).unwrap()
}

fn fault_run(args: &[String]) -> i32 {
    let t0 = Instant::now();
    install_hook();
    let seed = arg_num(args, "--seed", 1);
    let tier = arg_val(args, "--tier").unwrap_or("quick".into());
    let pos: Vec<&String> = {
        let mut v = Vec::new();
        let mut i = 2;
        while i < args.len() {
            if args[i] == "--seed" || args[i] == "--tier" || args[i] == "--workers" {
                i += 2;
            } else {
                v.push(&args[i]);
                i += 1;
            }
        }
        v
    };
    if pos.len() < 3 {
        eprintln!("usage: fault-run --seed S --tier quick|thorough OBS ORACLE STATS");
        return 2;
    }
    let (obs_p, orc_p, st_p) = (pos[0], pos[1], pos[2]);
    let nworkers = arg_num(args, "--workers", std::thread::available_parallelism().map(|n| n.get() as u64).unwrap_or(4).min(16)) as usize;
    let fx = Fixed::build();
    if !fx.problems.is_empty() {
        for p in &fx.problems {
            eprintln!("fault-run: fixed set: {p}");
        }
        return 3;
    }
    let plan = plan(&fx, &tier, seed);
    let dir = format!("{}.work", st_p);
    let _ = std::fs::remove_dir_all(&dir);
    std::fs::create_dir_all(&dir).expect("work dir");
    let res = match run_jobs(&plan.jobs, nworkers, &dir, "run", &fx) {
        Ok(r) => r,
        Err(e) => {
            eprintln!("fault-run: {e}");
            return 3;
        }
    };
    // ---- aggregate
    struct Sweep {
        jobs: u64,
        fails: u64,
        classes: BTreeMap<String, u64>,
        distinct: HashSet<u64>,
    }
    struct KeyInfo {
        count: u64,
        best: Option<(usize, String, String, String, String)>, // len, fmt, hex, case, msg
        first_msg: String,
        sweeps: BTreeMap<String, u64>,
    }
    let mut sweeps: BTreeMap<String, Sweep> = BTreeMap::new();
    let mut keys: BTreeMap<String, KeyInfo> = BTreeMap::new();
    let mut distinct: HashSet<u64> = HashSet::new();
    for (job, r) in plan.jobs.iter().zip(&res) {
        let sw = sweep_of(job);
        let s = sweeps.entry(sw.clone()).or_insert(Sweep { jobs: 0, fails: 0, classes: BTreeMap::new(), distinct: HashSet::new() });
        s.jobs += 1;
        *s.classes.entry(r.cls.clone()).or_insert(0) += 1;
        s.distinct.insert(r.hash);
        if r.len > 0 {
            distinct.insert(r.hash);
        }
        if !r.fails.is_empty() {
            s.fails += 1;
        }
        for f in &r.fails {
            let k = keys.entry(f.key.clone()).or_insert(KeyInfo { count: 0, best: None, first_msg: f.msg.clone(), sweeps: BTreeMap::new() });
            k.count += 1;
            *k.sweeps.entry(sw.clone()).or_insert(0) += 1;
            if let Some(hex) = &f.hex {
                if k.best.as_ref().map_or(true, |b| f.len < b.0) {
                    k.best = Some((f.len, f.fmt.clone(), hex.clone(), job.replace(' ', ":"), f.msg.clone()));
                }
            }
        }
    }
    let mut obs = String::new();
    for (name, s) in &sweeps {
        let (fmt, sweep) = name.split_once('/').unwrap();
        let total = |p: &str| s.classes.iter().filter(|(k, _)| k.starts_with(p)).map(|(_, v)| *v).sum::<u64>();
        obs.push_str(&format!(
            "{fmt} {sweep} jobs={} distinct={} ok={} err={} panic={} hang={} abort={} failing={} exhaustive={} |",
            s.jobs,
            s.distinct.len(),
            total("ok"),
            total("err:"),
            total("panic:"),
            total("hang"),
            total("abort:"),
            s.fails,
            if *plan.exhaustive.get(name).unwrap_or(&false) { "yes" } else { "no" }
        ));
        let mut cl: Vec<(&String, &u64)> = s.classes.iter().collect();
        cl.sort_by(|a, b| b.1.cmp(a.1).then(a.0.cmp(b.0)));
        for (c, n) in cl.iter().take(12) {
            obs.push_str(&format!(" {c}={n}"));
        }
        obs.push('\n');
    }
    std::fs::write(obs_p, obs).expect("write OBS");
    let mut orc = String::new();
    let mut kjson = Vec::new();
    for (key, k) in &keys {
        let (len, fmt, hex, case, msg) = k.best.clone().unwrap_or((0, "?".into(), "-".into(), "?".into(), k.first_msg.clone()));
        orc.push_str(&format!("{case} C13 {key} {} [count={} smallest-input={} bytes format={}]\n", one_line(&msg, 500), k.count, len, fmt));
        let sw: Vec<String> = k.sweeps.iter().map(|(s, n)| format!("{}:{}", json_str(s), n)).collect();
        kjson.push(format!(
            "{}:{{\"count\":{},\"format\":{},\"len\":{},\"case\":{},\"message\":{},\"sweeps\":{{{}}},\"hex\":{}}}",
            json_str(key),
            k.count,
            json_str(&fmt),
            len,
            json_str(&case),
            json_str(&msg),
            sw.join(","),
            json_str(&hex)
        ));
    }
    std::fs::write(orc_p, orc).expect("write ORACLE");
    let sjson: Vec<String> = sweeps
        .iter()
        .map(|(name, s)| {
            let cl: Vec<String> = s.classes.iter().map(|(c, n)| format!("{}:{}", json_str(c), n)).collect();
            format!(
                "{}:{{\"jobs\":{},\"distinct\":{},\"failing\":{},\"exhaustive\":{},\"classes\":{{{}}}}}",
                json_str(name),
                s.jobs,
                s.distinct.len(),
                s.fails,
                plan.exhaustive.get(name).unwrap_or(&false),
                cl.join(",")
            )
        })
        .collect();
    let files: Vec<String> = FFMTS
        .iter()
        .map(|f| format!("{}:[{}]", json_str(f), fx.files[f].iter().enumerate().map(|(i, b)| format!("[{},{}]", json_str(fx.name(f, i)), b.len())).collect::<Vec<_>>().join(",")))
        .collect();
    let stats = format!(
        "{{\"seed\":{seed},\"tier\":{},\"workers\":{nworkers},\"wall_s\":{:.1},\"evaluations\":{},\"distinct_nontrivial\":{},\"failing_keys\":{},\"fixed_set\":{{{}}},\"sweeps\":{{{}}},\"keys\":{{{}}}}}\n",
        json_str(&tier),
        t0.elapsed().as_secs_f64(),
        plan.jobs.len(),
        distinct.len(),
        keys.len(),
        files.join(","),
        sjson.join(","),
        kjson.join(",")
    );
    std::fs::write(st_p, stats).expect("write STATS");
    if std::env::var("FAULT_KEEP").is_err() {
        let _ = std::fs::remove_dir_all(&dir);
    }
    0
}

fn fault_replay(args: &[String]) -> i32 {
    install_hook();
    if args.len() < 4 {
        eprintln!("usage: fault-replay <format> <hex | @file>");
        return 2;
    }
    let fmt = &args[2];
    let hex = if let Some(p) = args[3].strip_prefix('@') { std::fs::read_to_string(p).expect("read hex file").trim().to_string() } else { args[3].clone() };
    let fx = Fixed::build();
    if !fx.problems.is_empty() {
        eprintln!("fault-replay: fixed set problems: {:?}", fx.problems);
        return 3;
    }
    let dir = std::env::temp_dir().join(format!("rbxverif-fault-{}", std::process::id()));
    std::fs::create_dir_all(&dir).unwrap();
    let jobs = vec![format!("replay {fmt} {hex}")];
    let r = run_jobs(&jobs, 1, dir.to_str().unwrap(), "replay", &fx);
    let _ = std::fs::remove_dir_all(&dir);
    match r {
        Err(e) => {
            println!("harness error: {e}");
            3
        }
        Ok(res) => {
            println!("format: {fmt}   input: {} bytes", res[0].len);
            println!("outcome: {}", res[0].cls);
            for f in &res[0].fails {
                println!("FAIL C13 {} {}", f.key, f.msg);
            }
            if res[0].fails.is_empty() {
                println!("verdict: pass");
                0
            } else {
                1
            }
        }
    }
}

pub fn cli(args: &[String]) -> bool {
    let cmd = args.get(1).map(|s| s.as_str()).unwrap_or("");
    let code = match cmd {
        "fault-run" => fault_run(args),
        "fault-child" => worker(&args[2], &args[3], &args[4]),
        "fault-replay" => fault_replay(args),
        "fault-fixed" => {
            // prints the fixed set (name, sizes) and any set-up problem
            install_hook();
            let fx = Fixed::build();
            for f in FFMTS {
                for (i, b) in fx.files[f].iter().enumerate() {
                    println!("{f} {i} {} {} bytes", fx.name(f, i), b.len());
                }
            }
            for p in &fx.problems {
                println!("PROBLEM {p}");
            }
            if let Some(p) = args.get(2) {
                let (f, i) = p.split_once('/').unwrap();
                std::io::stdout().write_all(&fx.files[f][i.parse::<usize>().unwrap()]).unwrap();
            }
            if fx.problems.is_empty() { 0 } else { 3 }
        }
        _ => return false,
    };
    if code != 0 {
        std::process::exit(code);
    }
    true
}
