//! xmlfile: correspondence of the Coq model of rbx_xml (coq/Model/XmlFile.v: xml_encode / xml_decode above
//! XmlEvents.channel) with the real crate, and the implementation-side oracles of C02 C05 C06 C07 C12 C15.
//!
//! Case kinds (first line of a case):
//!   `kind dom`   a forest case (notes/forest-format.md) with `opt enc <behaviour>` / `opt dec <behaviour>`;
//!                implementation: rbx_xml::to_writer -> text -> real XmlEventReader events -> rbx_xml::from_reader;
//!                model: xml_encode -> channel -> xml_decode.
//!   `kind text`  `text <hex of a document>` + `rev <read event>` lines (the events the real XmlEventReader delivers for
//!                the text, computed by the generator; the run re-derives and compares them) + optional
//!                `expect`-prefixed node/prop lines (the logical DOM a foreign document describes: C05 reader oracle).
//!   both carry `t <table> <key> <value>` lines: the float-text / quantisation tables the model asks for
//!   (s32/s64 bits -> Display text, p32/p64 text -> FromStr bits or E, q f32 bits -> quantised byte, u byte -> bits of b/255).
//! Observation of a dom case:  `ENC OK` + read-event lines | `ENC ERR <class>` | `ENC PANIC`, then
//!   `DEC DOM` node/prop lines `ENDDOM` | `DEC ERR <class>` | `DEC PANIC`;   of a text case: `REVS OK|DIFF`, then DEC as above.
//! Error classes: decode xml float int base64 migration type version eof event attr unknown content name convert;
//!   encode unknown type convert attr xml.
//! Oracle lines: `<case> <Cxx> <key> <message>`.
use crate::rng::Rng;
use crate::util::*;
use crate::val::{self, hex, unhex, RefCtx, Toks};
use crate::xmlchannel::{gen_xml_text, revent_lines};
use rbx_dom_weak::{InstanceBuilder, WeakDom};
use rbx_reflection::{DataType, PropertyKind, PropertySerialization, ReflectionDatabase};
use rbx_types::*;
use rbx_xml::{DecodeOptions, DecodePropertyBehavior, EncodeOptions, EncodePropertyBehavior};
use std::collections::{BTreeMap, BTreeSet, HashMap};
use std::io::Write;

// ------------------------------------------------------------------------------------------ forest

#[derive(Clone, Debug)]
pub struct Node {
    pub label: u64,
    pub parent: u64,
    pub class: String,
    pub name: String,
    pub props: Vec<(String, Variant)>,
}

#[derive(Clone, Debug, Default)]
pub struct Forest {
    pub opts: Vec<(String, String)>,
    pub nodes: Vec<Node>,
    pub roots: Vec<u64>,
}

impl Forest {
    pub fn opt(&self, k: &str) -> Option<&str> {
        self.opts.iter().find(|(a, _)| a == k).map(|(_, b)| b.as_str())
    }
}

fn utf8(h: &str) -> Result<String, String> {
    String::from_utf8(unhex(h)?).map_err(|e| e.to_string())
}

/// node/prop/roots/opt lines -> Forest (other lines are ignored); `prefix` selects e.g. the `expect` lines
pub fn parse_forest(lines: &[String], prefix: &str) -> Result<Forest, String> {
    let mut f = Forest::default();
    let mut ctx = RefCtx::new();
    for l in lines {
        let l = match l.strip_prefix(prefix) {
            Some(r) => r,
            None => continue,
        };
        let mut w = l.splitn(2, ' ');
        let head = w.next().unwrap_or("");
        let rest = w.next().unwrap_or("");
        match head {
            "opt" => {
                let mut p = rest.splitn(2, ' ');
                f.opts.push((p.next().unwrap_or("").to_string(), p.next().unwrap_or("").to_string()));
            }
            "node" => {
                let p: Vec<&str> = rest.split_whitespace().collect();
                if p.len() < 5 {
                    return Err(format!("bad node line `{l}`"));
                }
                f.nodes.push(Node {
                    label: u64::from_str_radix(p[0], 16).map_err(|e| e.to_string())?,
                    parent: u64::from_str_radix(p[1], 16).map_err(|e| e.to_string())?,
                    class: utf8(p[2])?,
                    name: utf8(p[3])?,
                    props: Vec::new(),
                });
            }
            "prop" => {
                let mut t = Toks::new(rest);
                let name = t.utf8()?;
                let v = val::parse(&mut t, &mut ctx)?;
                f.nodes.last_mut().ok_or("prop before node")?.props.push((name, v));
            }
            "roots" => {
                for p in rest.split_whitespace() {
                    f.roots.push(u64::from_str_radix(p, 16).map_err(|e| e.to_string())?);
                }
            }
            _ => {}
        }
    }
    Ok(f)
}

pub fn forest_lines(f: &Forest, prefix: &str) -> Vec<String> {
    let mut out = Vec::new();
    let mut ctx = RefCtx::new();
    // Ref values are the synthetic refs of their labels: print exactly those labels
    for l in 1..=(f.nodes.iter().map(|n| n.label).max().unwrap_or(0) + 64) {
        ctx.bind(l, val::synthetic_ref(l));
    }
    for (k, v) in &f.opts {
        out.push(format!("{prefix}opt {k} {v}"));
    }
    for n in &f.nodes {
        out.push(format!("{prefix}node {:x} {:x} {} {} {:x}", n.label, n.parent, hex(n.class.as_bytes()), hex(n.name.as_bytes()), n.props.len()));
        for (k, v) in &n.props {
            out.push(format!("{prefix}prop {} {}", hex(k.as_bytes()), val::value_string(v, &mut ctx)));
        }
    }
    if !f.roots.is_empty() || prefix.is_empty() {
        out.push(format!("{prefix}roots {}", f.roots.iter().map(|r| format!("{r:x}")).collect::<Vec<_>>().join(" ")));
    }
    out
}

fn map_refs(v: &Variant, f: &dyn Fn(Ref) -> Ref) -> Variant {
    match v {
        Variant::Ref(r) => Variant::Ref(f(*r)),
        Variant::Content(c) => match c.value() {
            ContentType::Object(r) => Variant::Content(Content::from_referent(f(*r))),
            _ => v.clone(),
        },
        _ => v.clone(),
    }
}

/// the real DOM of a forest; label -> real Ref.  Ref values naming a label that is a node point to that instance,
/// other labels stay the synthetic refs of val.rs (= Refs that are not in the DOM).
pub fn build_dom(f: &Forest, shuffle: Option<&mut Rng>) -> (WeakDom, HashMap<u64, Ref>) {
    let mut dom = WeakDom::new(InstanceBuilder::new("DataModel"));
    let mut map: HashMap<u64, Ref> = HashMap::new();
    let root = dom.root_ref();
    for n in &f.nodes {
        let parent = if n.parent == 0 { root } else { *map.get(&n.parent).expect("parents first") };
        let r = dom.insert(parent, InstanceBuilder::new(n.class.as_str()).with_name(n.name.as_str()));
        map.insert(n.label, r);
    }
    let mut shuffle = shuffle;
    let syn: HashMap<Ref, u64> = (1..=(f.nodes.iter().map(|n| n.label).max().unwrap_or(0) + 64)).map(|l| (val::synthetic_ref(l), l)).collect();
    for n in &f.nodes {
        let mut props: Vec<(String, Variant)> = n
            .props
            .iter()
            .map(|(k, v)| (k.clone(), map_refs(v, &|r| syn.get(&r).and_then(|l| map.get(l)).copied().unwrap_or(r))))
            .collect();
        if let Some(rng) = shuffle.as_deref_mut() {
            rng.shuffle(&mut props);
        }
        let inst = dom.get_by_ref_mut(map[&n.label]).unwrap();
        for (k, v) in props {
            inst.properties.insert(k.as_str().into(), v);
        }
    }
    (dom, map)
}

/// node/prop lines of a decoded-DOM observation (pre-order labels from 1, props sorted by name, Refs as labels)
pub fn print_dom(dom: &WeakDom) -> Vec<String> {
    let mut order = Vec::new();
    let mut stack: Vec<Ref> = dom.root().children().iter().rev().copied().collect();
    while let Some(r) = stack.pop() {
        order.push(r);
        for c in dom.get_by_ref(r).unwrap().children().iter().rev() {
            stack.push(*c);
        }
    }
    let mut ctx = RefCtx::new();
    let mut label: HashMap<Ref, u64> = HashMap::new();
    for (i, r) in order.iter().enumerate() {
        ctx.bind(i as u64 + 1, *r);
        label.insert(*r, i as u64 + 1);
    }
    let mut out = Vec::new();
    for r in &order {
        let inst = dom.get_by_ref(*r).unwrap();
        let parent = label.get(&inst.parent()).copied().unwrap_or(0);
        let mut props: Vec<(&str, &Variant)> = inst.properties.iter().map(|(k, v)| (k.as_str(), v)).collect();
        props.sort_by(|a, b| a.0.as_bytes().cmp(b.0.as_bytes()));
        out.push(format!("node {:x} {:x} {} {} {:x}", label[r], parent, hex(inst.class.as_bytes()), hex(inst.name.as_bytes()), props.len()));
        for (k, v) in props {
            let v2 = map_refs(v, &|x| if label.contains_key(&x) { x } else { Ref::none() });
            out.push(format!("prop {} {}", hex(k.as_bytes()), val::value_string(&v2, &mut ctx)));
        }
    }
    out
}

// ------------------------------------------------------------------------------------------ options / errors

pub fn enc_behavior(s: &str) -> EncodePropertyBehavior {
    match s {
        "WriteUnknown" => EncodePropertyBehavior::WriteUnknown,
        "ErrorOnUnknown" => EncodePropertyBehavior::ErrorOnUnknown,
        "NoReflection" => EncodePropertyBehavior::NoReflection,
        _ => EncodePropertyBehavior::IgnoreUnknown,
    }
}
pub fn dec_behavior(s: &str) -> DecodePropertyBehavior {
    match s {
        "ReadUnknown" => DecodePropertyBehavior::ReadUnknown,
        "ErrorOnUnknown" => DecodePropertyBehavior::ErrorOnUnknown,
        "NoReflection" => DecodePropertyBehavior::NoReflection,
        _ => DecodePropertyBehavior::IgnoreUnknown,
    }
}

pub fn decode_error_class(msg: &str) -> &'static str {
    // "line L, column C: <kind>"
    let kind = match msg.find(": ") {
        Some(i) if msg.starts_with("line ") => &msg[i + 2..],
        _ => msg,
    };
    const FLOAT: [&str; 2] = ["invalid float literal", "cannot parse float from empty string"];
    const INT: [&str; 4] = ["cannot parse integer from empty string", "invalid digit found in string", "number too large to fit in target type", "number too small to fit in target type"];
    if FLOAT.contains(&kind) {
        "float"
    } else if INT.contains(&kind) {
        "int"
    } else if kind.starts_with("Invalid version '") {
        "version"
    } else if kind == "Unexpected end-of-file" {
        "eof"
    } else if kind.starts_with("Unexpected XML event ") {
        "event"
    } else if kind.starts_with("Missing attribute '") {
        "attr"
    } else if kind.starts_with("Invalid text content: ") {
        "content"
    } else if kind.starts_with("The 'Name' property must be of type String") {
        "name"
    } else if kind.starts_with("Property ") && kind.contains(" is expected to be of type ") {
        "convert"
    } else if kind.starts_with("Property ") && kind.ends_with(" is unknown") {
        "unknown"
    } else if kind.starts_with("Invalid byte ") || kind == "Encoded text cannot have a 6-bit remainder." || kind.starts_with("Invalid last symbol ") {
        "base64"
    } else if kind.starts_with("Invalid type for migration") || kind.starts_with("Invalid value for migration") {
        "migration"
    } else if kind.starts_with("expected string to contain 32 characters") || kind.starts_with("string passed to UniqueId::from_str") {
        "type"
    } else {
        "xml"
    }
}

pub fn encode_error_class(msg: &str) -> &'static str {
    if msg.starts_with("Property ") && msg.ends_with(" is unknown") {
        "unknown"
    } else if msg.starts_with("Properties of type ") && msg.ends_with(" cannot be encoded yet") {
        "type"
    } else if msg.starts_with("Property ") && msg.contains(" is expected to be of type ") {
        "convert"
    } else if msg.starts_with("emitter error") || msg.contains("last element name") {
        "xml"
    } else {
        "attr"
    }
}

pub enum Enc {
    Ok(Vec<u8>),
    Err(String),
    Panic(String),
}
pub enum Dec {
    Ok(WeakDom),
    Err(String),
    Panic(String),
}

fn panic_text(e: Box<dyn std::any::Any + Send>) -> String {
    if let Some(s) = e.downcast_ref::<String>() {
        s.clone()
    } else if let Some(s) = e.downcast_ref::<&str>() {
        s.to_string()
    } else {
        "?".into()
    }
}

pub fn encode(dom: &WeakDom, roots: &[Ref], beh: EncodePropertyBehavior) -> Enc {
    let r = std::panic::catch_unwind(std::panic::AssertUnwindSafe(|| {
        let mut out = Vec::new();
        rbx_xml::to_writer(&mut out, dom, roots, EncodeOptions::new().property_behavior(beh)).map(|_| out)
    }));
    match r {
        Ok(Ok(b)) => Enc::Ok(b),
        Ok(Err(e)) => Enc::Err(e.to_string()),
        Err(p) => Enc::Panic(panic_text(p)),
    }
}

pub fn decode(text: &[u8], beh: DecodePropertyBehavior) -> Dec {
    let r = std::panic::catch_unwind(|| rbx_xml::from_reader(text, DecodeOptions::new().property_behavior(beh)));
    match r {
        Ok(Ok(d)) => Dec::Ok(d),
        Ok(Err(e)) => Dec::Err(e.to_string()),
        Err(p) => Dec::Panic(panic_text(p)),
    }
}

fn dec_obs(d: &Dec) -> Vec<String> {
    match d {
        Dec::Ok(dom) => {
            let mut v = vec!["DEC DOM".to_string()];
            v.extend(print_dom(dom));
            v.push("ENDDOM".into());
            v
        }
        Dec::Err(m) => vec![format!("DEC ERR {}", decode_error_class(m))],
        Dec::Panic(_) => vec!["DEC PANIC".into()],
    }
}

// ------------------------------------------------------------------------------------------ tables

#[derive(Default)]
pub struct Tables {
    pub s32: BTreeMap<u32, String>,
    pub s64: BTreeMap<u64, String>,
    pub p32: BTreeMap<String, Option<u32>>,
    pub p64: BTreeMap<String, Option<u64>>,
    pub q: BTreeMap<u32, u8>,
    pub u: BTreeMap<u8, u32>,
}

impl Tables {
    pub fn text(&mut self, t: &str) {
        if t.len() > 512 {
            return; // no float literal the readers ask for is this long, except garbage that fails anyway
        }
        self.p32.entry(t.to_string()).or_insert_with(|| t.parse::<f32>().ok().map(f32::to_bits));
        self.p64.entry(t.to_string()).or_insert_with(|| t.parse::<f64>().ok().map(f64::to_bits));
        if let Ok(p) = t.parse::<u32>() {
            for b in [(p >> 16) as u8, (p >> 8) as u8, p as u8] {
                self.u.insert(b, (f32::from(b) / 255.0).to_bits());
            }
        }
    }
    pub fn f32(&mut self, x: f32) {
        let t = format!("{}", x);
        self.s32.insert(x.to_bits(), t.clone());
        self.text(&t);
        self.q.insert(x.to_bits(), Color3uint8::from(Color3::new(x, 0.0, 0.0)).r);
        self.f64(f64::from(x));
    }
    pub fn f64(&mut self, x: f64) {
        let t = format!("{}", x);
        self.s64.insert(x.to_bits(), t.clone());
        self.text(&t);
    }
    pub fn value(&mut self, v: &Variant) {
        let v3 = |s: &mut Tables, a: &Vector3| {
            s.f32(a.x);
            s.f32(a.y);
            s.f32(a.z)
        };
        let cf = |s: &mut Tables, c: &CFrame| {
            v3(s, &c.position);
            v3(s, &c.orientation.x);
            v3(s, &c.orientation.y);
            v3(s, &c.orientation.z)
        };
        match v {
            Variant::Float32(x) => self.f32(*x),
            Variant::Float64(x) => self.f64(*x),
            Variant::CFrame(c) => cf(self, c),
            Variant::OptionalCFrame(Some(c)) => cf(self, c),
            Variant::Color3(c) => {
                self.f32(c.r);
                self.f32(c.g);
                self.f32(c.b)
            }
            Variant::ColorSequence(s) => {
                for k in &s.keypoints {
                    self.f32(k.time);
                    self.f32(k.color.r);
                    self.f32(k.color.g);
                    self.f32(k.color.b)
                }
            }
            Variant::NumberSequence(s) => {
                for k in &s.keypoints {
                    self.f32(k.time);
                    self.f32(k.value);
                    self.f32(k.envelope)
                }
            }
            Variant::NumberRange(r) => {
                self.f32(r.min);
                self.f32(r.max)
            }
            Variant::PhysicalProperties(PhysicalProperties::Custom(p)) => {
                for x in [p.density, p.friction, p.elasticity, p.friction_weight, p.elasticity_weight] {
                    self.f32(x)
                }
            }
            Variant::Ray(r) => {
                v3(self, &r.origin);
                v3(self, &r.direction)
            }
            Variant::Rect(r) => {
                for x in [r.min.x, r.min.y, r.max.x, r.max.y] {
                    self.f32(x)
                }
            }
            Variant::UDim(u) => self.f32(u.scale),
            Variant::UDim2(u) => {
                self.f32(u.x.scale);
                self.f32(u.y.scale)
            }
            Variant::Vector2(a) => {
                self.f32(a.x);
                self.f32(a.y)
            }
            Variant::Vector3(a) => v3(self, a),
            Variant::Region3(r) => {
                v3(self, &r.min);
                v3(self, &r.max)
            }
            _ => {}
        }
    }
    /// every text run of a read-event list, whole and split on spaces
    pub fn revents(&mut self, lines: &[String]) {
        let mut run = String::new();
        let mut flush = |s: &mut Tables, run: &mut String| {
            if !run.is_empty() {
                let whole = run.clone();
                s.text(&whole);
                for p in whole.split(' ').filter(|p| !p.is_empty()) {
                    s.text(p);
                }
                run.clear();
            }
        };
        for l in lines {
            if let Some(h) = l.strip_prefix("T ").or_else(|| l.strip_prefix("C ")) {
                if let Ok(b) = unhex(h.trim()) {
                    run.push_str(&String::from_utf8_lossy(&b));
                }
            } else {
                flush(self, &mut run);
            }
        }
        flush(self, &mut run);
    }
    pub fn lines(&self) -> Vec<String> {
        let mut out = Vec::new();
        for (k, v) in &self.s32 {
            out.push(format!("t s32 {:x} {}", k, hex(v.as_bytes())));
        }
        for (k, v) in &self.s64 {
            out.push(format!("t s64 {:x} {}", k, hex(v.as_bytes())));
        }
        for (k, v) in &self.p32 {
            out.push(format!("t p32 {} {}", hex(k.as_bytes()), v.map(|b| format!("{b:x}")).unwrap_or_else(|| "E".into())));
        }
        for (k, v) in &self.p64 {
            out.push(format!("t p64 {} {}", hex(k.as_bytes()), v.map(|b| format!("{b:x}")).unwrap_or_else(|| "E".into())));
        }
        for (k, v) in &self.q {
            out.push(format!("t q {:x} {:x}", k, v));
        }
        for (k, v) in &self.u {
            out.push(format!("t u {:x} {:x}", k, v));
        }
        out
    }
}

fn sstr_lines(f: &Forest) -> Vec<String> {
    let mut seen = BTreeSet::new();
    let mut out = Vec::new();
    for n in &f.nodes {
        for (_, v) in &n.props {
            if let Variant::SharedString(s) = v {
                if seen.insert(s.data().to_vec()) {
                    out.push(format!("sstr {} {}", hex(s.data()), hex(s.hash().as_bytes())));
                }
            }
        }
    }
    out
}

/// all lines of a dom case
pub fn dom_case_lines(f: &Forest) -> Vec<String> {
    let mut t = Tables::default();
    t.text("0"); // the envelope of a ColorSequence keypoint
    t.text(""); // an element without character data
    for n in &f.nodes {
        for (_, v) in &n.props {
            t.value(v);
        }
    }
    let mut out = vec!["kind dom".to_string()];
    out.extend(sstr_lines(f));
    out.extend(forest_lines(f, ""));
    out.extend(t.lines());
    out
}

/// all lines of a text case
pub fn text_case_lines(text: &[u8], dec: &str, expect: Option<&Forest>, extra_opts: &[(String, String)]) -> Vec<String> {
    let (revs, _) = revent_lines(text);
    let mut t = Tables::default();
    t.text(""); // an element without character data
    t.revents(&revs);
    let mut out = vec!["kind text".to_string(), format!("opt dec {dec}")];
    for (k, v) in extra_opts {
        out.push(format!("opt {k} {v}"));
    }
    out.push(format!("text {}", hex(text)));
    out.extend(revs.iter().map(|r| format!("rev {r}")));
    if let Some(e) = expect {
        out.extend(forest_lines(e, "expect "));
    }
    out.extend(t.lines());
    out
}

// ------------------------------------------------------------------------------------------ running a case

pub struct CaseOut {
    pub obs: Vec<String>,
    pub oracle: Vec<String>,
    pub text: Option<Vec<u8>>,
}

fn bump(stats: &mut BTreeMap<String, u64>, k: &str) {
    *stats.entry(k.to_string()).or_insert(0) += 1;
}

pub fn run_dom_case(id: &str, lines: &[String], stats: &mut BTreeMap<String, u64>) -> CaseOut {
    let f = match parse_forest(lines, "") {
        Ok(f) => f,
        Err(e) => return CaseOut { obs: vec![format!("BADCASE {e}")], oracle: vec![], text: None },
    };
    let enc = f.opt("enc").unwrap_or("IgnoreUnknown").to_string();
    let dec = f.opt("dec").unwrap_or("IgnoreUnknown").to_string();
    bump(stats, &format!("pairing_{enc}_{dec}"));
    let (dom, map) = build_dom(&f, None);
    let roots: Vec<Ref> = f.roots.iter().map(|l| map.get(l).copied().unwrap_or_else(|| val::synthetic_ref(*l + 1000))).collect();
    let mut obs = Vec::new();
    let mut oracle = Vec::new();
    let mut text_out = None;
    match encode(&dom, &roots, enc_behavior(&enc)) {
        Enc::Panic(m) => {
            bump(stats, "enc_panic");
            obs.push("ENC PANIC".into());
            crate::xmloracle::on_encode_failure(id, &f, &format!("panic: {m}"), true, &mut oracle);
        }
        Enc::Err(m) => {
            bump(stats, &format!("enc_err_{}", encode_error_class(&m)));
            obs.push(format!("ENC ERR {}", encode_error_class(&m)));
            crate::xmloracle::on_encode_failure(id, &f, &m, false, &mut oracle);
            if f.opt("stream") == Some("mig") {
                crate::xmlmig::check_write_path(id, lines, None, Some(&m), stats, &mut oracle);
            }
        }
        Enc::Ok(text) => {
            bump(stats, "enc_ok");
            let (revs, err) = revent_lines(&text);
            obs.push("ENC OK".into());
            if err {
                bump(stats, "enc_text_not_wellformed");
                obs.push("REVENTS ERR".into());
            } else {
                obs.extend(revs);
            }
            let d = decode(&text, dec_behavior(&dec));
            match &d {
                Dec::Ok(_) => bump(stats, "dec_ok"),
                Dec::Err(m) => bump(stats, &format!("dec_err_{}", decode_error_class(m))),
                Dec::Panic(_) => bump(stats, "dec_panic"),
            }
            if err {
                obs.push("DEC -".into());
            } else {
                obs.extend(dec_obs(&d));
            }
            crate::xmloracle::on_round_trip(id, &f, &dom, &map, &roots, &text, &d, &enc, &dec, stats, &mut oracle);
            if f.opt("stream") == Some("mig") {
                crate::xmlmig::check_write_path(id, lines, Some(&d), None, stats, &mut oracle);
            }
            text_out = Some(text);
        }
    }
    CaseOut { obs, oracle, text: text_out }
}

pub fn run_text_case(id: &str, lines: &[String], stats: &mut BTreeMap<String, u64>) -> CaseOut {
    let mut text = Vec::new();
    let mut revs = Vec::new();
    let mut dec = "IgnoreUnknown".to_string();
    let mut opts: Vec<(String, String)> = Vec::new();
    for l in lines {
        if let Some(h) = l.strip_prefix("text ") {
            text = unhex(h.trim()).unwrap_or_default();
        } else if let Some(r) = l.strip_prefix("rev ") {
            revs.push(r.to_string());
        } else if let Some(o) = l.strip_prefix("opt ") {
            let mut p = o.splitn(2, ' ');
            let k = p.next().unwrap_or("").to_string();
            let v = p.next().unwrap_or("").to_string();
            if k == "dec" {
                dec = v.clone();
            }
            opts.push((k, v));
        }
    }
    let (real, _) = revent_lines(&text);
    let mut obs = vec![if real == revs { "REVS OK".to_string() } else { "REVS DIFF".to_string() }];
    let d = decode(&text, dec_behavior(&dec));
    match &d {
        Dec::Ok(_) => bump(stats, "text_dec_ok"),
        Dec::Err(m) => bump(stats, &format!("text_dec_err_{}", decode_error_class(m))),
        Dec::Panic(_) => bump(stats, "text_dec_panic"),
    }
    obs.extend(dec_obs(&d));
    let mut oracle = Vec::new();
    crate::xmloracle::on_text(id, lines, &opts, &text, &d, &dec, stats, &mut oracle);
    CaseOut { obs, oracle, text: None }
}

// ------------------------------------------------------------------------------------------ cli

pub fn cli(args: &[String]) -> bool {
    let cmd = args.get(1).map(|s| s.as_str()).unwrap_or("");
    match cmd {
        "xmlfile-gen" => {
            let seed = arg_num(args, "--seed", 1);
            let n = arg_num(args, "--cases", 1000);
            let out = arg_val(args, "--out").expect("--out");
            let stream = arg_val(args, "--stream").unwrap_or_else(|| "dom".into());
            let prefix = arg_val(args, "--prefix").unwrap_or_else(|| stream.chars().take(1).collect());
            let mut f = std::io::BufWriter::new(std::fs::File::create(out).unwrap());
            crate::xmlgen::gen_cases(seed, n, &stream, &prefix, &mut f);
        }
        "xmlfile-run" => {
            let cases = read_cases(&args[2]);
            let mut obs = std::io::BufWriter::new(std::fs::File::create(&args[3]).unwrap());
            let mut orc = std::io::BufWriter::new(std::fs::File::create(&args[4]).unwrap());
            let mut texts = std::io::BufWriter::new(std::fs::File::create(format!("{}.texts", &args[3])).unwrap());
            let mut stats: BTreeMap<String, u64> = BTreeMap::new();
            let mut distinct = BTreeSet::new();
            for (id, lines) in &cases {
                bump(&mut stats, "cases");
                let kind = lines.first().map(|s| s.as_str()).unwrap_or("");
                let out = match kind {
                    "kind dom" => {
                        bump(&mut stats, "cases_dom");
                        let nn = lines.iter().filter(|l| l.starts_with("node ")).count();
                        let np = lines.iter().filter(|l| l.starts_with("prop ")).count();
                        if nn >= 2 && np >= 2 && distinct.insert(lines.join("\n")) {
                            bump(&mut stats, "distinct_nontrivial");
                        }
                        *stats.entry("instances".into()).or_insert(0) += nn as u64;
                        *stats.entry("properties".into()).or_insert(0) += np as u64;
                        run_dom_case(id, lines, &mut stats)
                    }
                    "kind text" => {
                        bump(&mut stats, "cases_text");
                        if lines.iter().filter(|l| l.starts_with("rev S ")).count() >= 4 && distinct.insert(lines.join("\n")) {
                            bump(&mut stats, "distinct_nontrivial");
                        }
                        run_text_case(id, lines, &mut stats)
                    }
                    _ => CaseOut { obs: vec!["BADCASE kind".into()], oracle: vec![], text: None },
                };
                write_case(&mut obs, id, &out.obs);
                for l in &out.oracle {
                    writeln!(orc, "{l}").unwrap();
                    let key = l.split(' ').nth(1).unwrap_or("?").to_string() + "_" + l.split(' ').nth(2).unwrap_or("?");
                    bump(&mut stats, &format!("oracle_{key}"));
                }
                if let Some(t) = out.text {
                    write_case(&mut texts, id, &[format!("TEXT {}", hex(&t))]);
                }
            }
            drop(orc.flush());
            let js: Vec<String> = stats.iter().map(|(k, v)| format!("\"{k}\": {v}")).collect();
            std::fs::write(&args[5], format!("{{{}}}\n", js.join(", "))).unwrap();
        }
        "xmlfile-show" => {
            // debugging aid: the text the real serializer produces for every dom case of a file
            for (id, lines) in read_cases(&args[2]) {
                if lines.first().map(|s| s.as_str()) == Some("kind dom") {
                    let f = parse_forest(&lines, "").unwrap();
                    let (dom, map) = build_dom(&f, None);
                    let roots: Vec<Ref> = f.roots.iter().filter_map(|l| map.get(l).copied()).collect();
                    match encode(&dom, &roots, enc_behavior(f.opt("enc").unwrap_or(""))) {
                        Enc::Ok(t) => println!("== {id}\n{}", String::from_utf8_lossy(&t)),
                        Enc::Err(m) => println!("== {id}\nERR {m}"),
                        Enc::Panic(m) => println!("== {id}\nPANIC {m}"),
                    }
                } else {
                    for l in &lines {
                        if let Some(h) = l.strip_prefix("text ") {
                            println!("== {id}\n{}", String::from_utf8_lossy(&unhex(h.trim()).unwrap_or_default()));
                        }
                    }
                }
            }
        }
        _ => return false,
    }
    true
}

pub fn db() -> &'static ReflectionDatabase<'static> {
    rbx_reflection_database::get()
}

/// (descriptor, class that declares it) for every property name reachable from `class` (own class first)
pub fn class_props(class: &str) -> Vec<&'static rbx_reflection::PropertyDescriptor<'static>> {
    let mut out = Vec::new();
    let mut cur = db().classes.get(class);
    while let Some(c) = cur {
        let mut ps: Vec<_> = c.properties.values().collect();
        ps.sort_by(|a, b| a.name.cmp(&b.name));
        out.extend(ps);
        cur = c.superclass.as_ref().and_then(|s| db().classes.get(s.as_ref()));
    }
    out
}

pub fn data_type_vt(dt: &DataType) -> VariantType {
    match dt {
        DataType::Value(t) => *t,
        DataType::Enum(_) => VariantType::Enum,
        _ => VariantType::Enum,
    }
}

pub fn is_migrate(p: &rbx_reflection::PropertyDescriptor) -> bool {
    matches!(&p.kind, PropertyKind::Canonical { serialization: PropertySerialization::Migrate(_) })
}
