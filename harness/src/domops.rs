//! dom-ops: operation sequences over one or more real `WeakDom`s (properties C09-C12).
//!
//! `gen` draws sequences (valid arguments chosen from the live state of the real DOMs), `run`
//! re-executes a case file through the public API only and prints one canonical observation line
//! per step, in exactly the format the extracted Coq models print, plus the property oracles
//! (C09 well-formedness, C11 clone rule, C12 uniqueness) evaluated on the implementation.
use crate::rng::Rng;
use rbx_dom_weak::types::{Ref, UniqueId, Variant};
use rbx_dom_weak::{InstanceBuilder, WeakDom};
use std::collections::{BTreeMap, BTreeSet, HashMap, VecDeque};
use std::fmt::Write as _;
use std::panic::{catch_unwind, AssertUnwindSafe};

pub const CLONE_BASE: u64 = 1_000_000;
pub const UID_BASE: u64 = 1_000_000;

#[derive(Clone, Debug, PartialEq)]
pub enum PV {
    R(u64),
    U(u64),
    O(u64),
}

#[derive(Clone, Debug)]
pub struct BT {
    pub label: u64,
    pub name: u64,
    pub class: u64,
    pub props: Vec<(u64, PV)>,
    pub kids: Vec<BT>,
}

#[derive(Clone, Debug)]
pub enum Op {
    New(BT),
    Insert(usize, u64, BT),
    Destroy(usize, u64),
    MoveWithin(usize, u64, u64),
    Move(usize, u64, usize, u64),
    CloneWithin(usize, u64),
    CloneExt(usize, u64, usize),
    CloneMulti(usize, Vec<u64>, usize),
}

impl BT {
    fn tokens(&self, out: &mut Vec<String>) {
        out.push(self.label.to_string());
        out.push(self.name.to_string());
        out.push(self.class.to_string());
        out.push(self.props.len().to_string());
        for (k, v) in &self.props {
            out.push(k.to_string());
            match v {
                PV::R(x) => {
                    out.push("R".into());
                    out.push(x.to_string())
                }
                PV::U(x) => {
                    out.push("U".into());
                    out.push(x.to_string())
                }
                PV::O(x) => {
                    out.push("O".into());
                    out.push(x.to_string())
                }
            }
        }
        out.push(self.kids.len().to_string());
        for k in &self.kids {
            k.tokens(out);
        }
    }
    fn parse(t: &mut Toks) -> BT {
        let label = t.num();
        let name = t.num();
        let class = t.num();
        let np = t.num();
        let mut props = Vec::new();
        for _ in 0..np {
            let k = t.num();
            let kind = t.word();
            let v = t.num();
            props.push((
                k,
                match kind.as_str() {
                    "R" => PV::R(v),
                    "U" => PV::U(v),
                    _ => PV::O(v),
                },
            ));
        }
        let nk = t.num();
        let mut kids = Vec::new();
        for _ in 0..nk {
            kids.push(BT::parse(t));
        }
        BT { label, name, class, props, kids }
    }
    fn labels(&self, out: &mut Vec<u64>) {
        out.push(self.label);
        for k in &self.kids {
            k.labels(out);
        }
    }
    fn size(&self) -> usize {
        1 + self.kids.iter().map(|k| k.size()).sum::<usize>()
    }
}

pub struct Toks {
    v: Vec<String>,
    i: usize,
}
impl Toks {
    pub fn new(line: &str) -> Toks {
        Toks { v: line.split_whitespace().map(|s| s.to_string()).collect(), i: 0 }
    }
    pub fn word(&mut self) -> String {
        let s = self.v[self.i].clone();
        self.i += 1;
        s
    }
    pub fn num(&mut self) -> u64 {
        self.word().parse().expect("number token")
    }
    pub fn done(&self) -> bool {
        self.i >= self.v.len()
    }
}

impl Op {
    pub fn line(&self) -> String {
        let mut t: Vec<String> = Vec::new();
        match self {
            Op::New(b) => {
                t.push("new".into());
                b.tokens(&mut t)
            }
            Op::Insert(d, p, b) => {
                t.push("insert".into());
                t.push(d.to_string());
                t.push(p.to_string());
                b.tokens(&mut t)
            }
            Op::Destroy(d, r) => {
                t.extend(["destroy".to_string(), d.to_string(), r.to_string()]);
            }
            Op::MoveWithin(d, r, p) => {
                t.extend(["movew".to_string(), d.to_string(), r.to_string(), p.to_string()]);
            }
            Op::Move(d, r, d2, p) => {
                t.extend(["move".to_string(), d.to_string(), r.to_string(), d2.to_string(), p.to_string()]);
            }
            Op::CloneWithin(d, r) => {
                t.extend(["clonew".to_string(), d.to_string(), r.to_string()]);
            }
            Op::CloneExt(d, r, d2) => {
                t.extend(["clonex".to_string(), d.to_string(), r.to_string(), d2.to_string()]);
            }
            Op::CloneMulti(d, rs, d2) => {
                t.extend(["clonem".to_string(), d.to_string(), d2.to_string(), rs.len().to_string()]);
                for r in rs {
                    t.push(r.to_string());
                }
            }
        }
        t.join(" ")
    }
    pub fn parse(line: &str) -> Op {
        let mut t = Toks::new(line);
        let w = t.word();
        match w.as_str() {
            "new" => Op::New(BT::parse(&mut t)),
            "insert" => {
                let d = t.num() as usize;
                let p = t.num();
                Op::Insert(d, p, BT::parse(&mut t))
            }
            "destroy" => Op::Destroy(t.num() as usize, t.num()),
            "movew" => Op::MoveWithin(t.num() as usize, t.num(), t.num()),
            "move" => Op::Move(t.num() as usize, t.num(), t.num() as usize, t.num()),
            "clonew" => Op::CloneWithin(t.num() as usize, t.num()),
            "clonex" => Op::CloneExt(t.num() as usize, t.num(), t.num() as usize),
            "clonem" => {
                let d = t.num() as usize;
                let d2 = t.num() as usize;
                let n = t.num();
                let rs = (0..n).map(|_| t.num()).collect();
                Op::CloneMulti(d, rs, d2)
            }
            other => panic!("unknown op {other}"),
        }
    }
}

fn key_name(k: u64) -> String {
    if k == 0 {
        "UniqueId".to_string()
    } else {
        format!("P{k}")
    }
}
fn key_num(s: &str) -> u64 {
    if s == "UniqueId" {
        0
    } else {
        s[1..].parse().unwrap()
    }
}

/// The real DOMs plus the label tables that make observations independent of random Ref/UniqueId values.
pub struct World {
    pub doms: Vec<WeakDom>,
    ref2label: HashMap<Ref, u64>,
    label2ref: HashMap<u64, Ref>,
    next_clone: u64,
    uid2label: HashMap<UniqueId, u64>,
    next_uid: u64,
    pub all_labels: BTreeSet<u64>,
    /// counts clone operations; every other one is preceded by a clone call that fails (see `fault_before_clone`)
    clone_tick: u64,
}

impl World {
    /// A clone call that FAILS, on the same thread and from the same source DOM, right before a real clone operation: the
    /// top-level instances of the source plus a referent that does not exist are cloned into a scratch DOM, which panics
    /// part-way (caught).  The source is borrowed immutably and the scratch DOM is dropped, so nothing the history can
    /// observe may change: whatever a failed call leaves behind (per-thread scratch state, a half-filled rewrite table)
    /// must not leak into the next call.  The model knows nothing of this call.
    fn fault_before_clone(&mut self, d: usize) {
        self.clone_tick += 1;
        if self.clone_tick % 2 == 1 || d >= self.doms.len() {
            return;
        }
        let src = &self.doms[d];
        let mut roots: Vec<Ref> = src.root().children().to_vec();
        roots.insert(0, src.root_ref());
        roots.push(Ref::new());
        let _ = catch_unwind(AssertUnwindSafe(|| {
            let mut scratch = WeakDom::new(InstanceBuilder::new("Scratch"));
            let _ = src.clone_multiple_into_external(&roots, &mut scratch);
        }));
    }

    pub fn new() -> World {
        let mut w = World {
            clone_tick: 0,
            doms: Vec::new(),
            ref2label: HashMap::new(),
            label2ref: HashMap::new(),
            next_clone: CLONE_BASE,
            uid2label: HashMap::new(),
            next_uid: UID_BASE,
            all_labels: BTreeSet::new(),
        };
        w.ref2label.insert(Ref::none(), 0);
        w.label2ref.insert(0, Ref::none());
        w
    }
    fn rref(&mut self, label: u64) -> Ref {
        if let Some(r) = self.label2ref.get(&label) {
            return *r;
        }
        let r = Ref::new();
        self.label2ref.insert(label, r);
        self.ref2label.insert(r, label);
        r
    }
    fn label_of(&self, r: Ref) -> u64 {
        *self.ref2label.get(&r).unwrap_or(&999_999_999)
    }
    fn pool_uid(n: u64) -> UniqueId {
        if n == 3 {
            // the all-zero id is an id like any other for a WeakDom
            return UniqueId::new(0, 0, 0);
        }
        UniqueId::new(n as u32, 1, n as i64)
    }
    /// Builds the InstanceBuilder for `b` through a mix of the builder API's entry points, chosen
    /// from the label (so a case replays identically): constructor (`new`, `with_property_capacity`,
    /// `empty` + `set_class`), name (`with_name` / `set_name`), class (`with_class` / `set_class`
    /// over a placeholder), properties and children one at a time (`with_*` / `add_*`) or in
    /// batches (`with_properties` / `add_properties`, `with_children` / `add_children`) on a builder
    /// that may already hold some.  Whatever the mix, the builder must describe `b` (Model/Builder.v:
    /// `script_children`, `script_props`).
    fn builder(&mut self, b: &BT) -> InstanceBuilder {
        let r = self.rref(b.label);
        self.all_labels.insert(b.label);
        let style = (b.label.wrapping_mul(0x9E37_79B9_7F4A_7C15) >> 17) as usize;
        let class = format!("C{}", b.class);
        let name = format!("n{}", b.name);
        let mut ib = match style % 4 {
            0 => InstanceBuilder::new(class.as_str()),
            1 => InstanceBuilder::with_property_capacity(class.as_str(), b.props.len()),
            2 => {
                let mut e = InstanceBuilder::empty();
                e.set_class(class.as_str());
                e
            }
            _ => InstanceBuilder::new("Placeholder").with_class(class.as_str()),
        };
        ib = ib.with_referent(r);
        if (style >> 2) % 2 == 0 {
            ib = ib.with_name(name);
        } else {
            ib.set_name(name);
        }
        let mut props: Vec<(String, Variant)> = Vec::new();
        for (k, v) in &b.props {
            let val = match v {
                PV::R(l) => Variant::Ref(self.rref(*l)),
                PV::U(n) => {
                    let u = Self::pool_uid(*n);
                    self.uid2label.insert(u, *n);
                    Variant::UniqueId(u)
                }
                PV::O(n) => Variant::Int64(*n as i64),
            };
            props.push((key_name(*k), val));
        }
        let mut kids: Vec<InstanceBuilder> = Vec::new();
        for k in &b.kids {
            kids.push(self.builder(k));
        }
        // properties: a prefix one at a time, the rest in one or two batches
        let pm = (style >> 3) % 5;
        let cut = if props.is_empty() { 0 } else { (style >> 6) % (props.len() + 1) };
        let tail = props.split_off(cut);
        for (i, (k, v)) in props.into_iter().enumerate() {
            if (pm + i) % 2 == 0 {
                ib.add_property(k.as_str(), v);
            } else {
                ib = ib.with_property(k.as_str(), v);
            }
        }
        match pm {
            0 => {
                for (k, v) in tail {
                    ib.add_property(k.as_str(), v);
                }
            }
            1 => ib.add_properties(tail.iter().map(|(k, v)| (k.as_str(), v.clone()))),
            2 => ib = ib.with_properties(tail.iter().map(|(k, v)| (k.as_str(), v.clone()))),
            3 => {
                let mut t = tail;
                let t2 = t.split_off(t.len() / 2);
                ib = ib.with_properties(t.iter().map(|(k, v)| (k.as_str(), v.clone())));
                ib.add_properties(t2.iter().map(|(k, v)| (k.as_str(), v.clone())));
            }
            _ => {
                for (k, v) in tail {
                    ib = ib.with_property(k.as_str(), v);
                }
            }
        }
        // children likewise
        let cm = (style >> 10) % 5;
        let ccut = if kids.is_empty() { 0 } else { (style >> 13) % (kids.len() + 1) };
        let ktail = kids.split_off(ccut);
        for (i, kb) in kids.into_iter().enumerate() {
            if (cm + i) % 2 == 0 {
                ib.add_child(kb);
            } else {
                ib = ib.with_child(kb);
            }
        }
        match cm {
            0 => {
                for kb in ktail {
                    ib.add_child(kb);
                }
            }
            1 => ib.add_children(ktail),
            2 => ib = ib.with_children(ktail),
            3 => {
                let mut t = ktail;
                let t2 = t.split_off(t.len() / 2);
                ib = ib.with_children(t);
                ib.add_children(t2);
            }
            _ => {
                for kb in ktail {
                    ib = ib.with_child(kb);
                }
            }
        }
        ib
    }

    /// label the instances of freshly made copies, breadth-first from the returned roots
    /// (the order in which the clone entry points allocate referents)
    fn discover_clones(&mut self, d: usize, roots: &[Ref]) {
        let mut q: VecDeque<Ref> = roots.iter().copied().collect();
        let mut guard = 0usize;
        while let Some(r) = q.pop_front() {
            guard += 1;
            if guard > 100_000 {
                break;
            }
            if !self.ref2label.contains_key(&r) {
                let l = self.next_clone;
                self.next_clone += 1;
                self.ref2label.insert(r, l);
                self.label2ref.insert(l, r);
                self.all_labels.insert(l);
            }
            if let Some(i) = self.doms[d].get_by_ref(r) {
                q.extend(i.children().iter().copied());
            }
        }
    }

    /// execute one op on the real DOMs; Err(()) = the call panicked
    pub fn exec(&mut self, op: &Op) -> Result<Vec<u64>, ()> {
        let res = catch_unwind(AssertUnwindSafe(|| -> Vec<u64> {
            match op {
                Op::New(b) => {
                    let ib = self.builder(b);
                    self.doms.push(WeakDom::new(ib));
                    vec![]
                }
                Op::Insert(d, p, b) => {
                    let ib = self.builder(b);
                    let pr = self.rref(*p);
                    let r = self.doms[*d].insert(pr, ib);
                    vec![self.label_of(r)]
                }
                Op::Destroy(d, r) => {
                    let rr = self.rref(*r);
                    self.doms[*d].destroy(rr);
                    vec![]
                }
                Op::MoveWithin(d, r, p) => {
                    let rr = self.rref(*r);
                    let pr = self.rref(*p);
                    self.doms[*d].transfer_within(rr, pr);
                    vec![]
                }
                Op::Move(d, r, d2, p) => {
                    let rr = self.rref(*r);
                    let pr = self.rref(*p);
                    if d == d2 {
                        panic!("same dom");
                    }
                    let (a, b) = two_mut(&mut self.doms, *d, *d2);
                    a.transfer(rr, b, pr);
                    vec![]
                }
                Op::CloneWithin(d, r) => {
                    let rr = self.rref(*r);
                    self.fault_before_clone(*d);
                    let root = self.doms[*d].clone_within(rr);
                    self.discover_clones(*d, &[root]);
                    vec![self.label_of(root)]
                }
                Op::CloneExt(d, r, d2) => {
                    let rr = self.rref(*r);
                    if d == d2 {
                        panic!("same dom");
                    }
                    self.fault_before_clone(*d);
                    let (a, b) = two_mut(&mut self.doms, *d, *d2);
                    let root = a.clone_into_external(rr, b);
                    self.discover_clones(*d2, &[root]);
                    vec![self.label_of(root)]
                }
                Op::CloneMulti(d, rs, d2) => {
                    let rrs: Vec<Ref> = rs.iter().map(|l| self.rref(*l)).collect();
                    if d == d2 {
                        panic!("same dom");
                    }
                    self.fault_before_clone(*d);
                    let (a, b) = two_mut(&mut self.doms, *d, *d2);
                    let roots = a.clone_multiple_into_external(&rrs, b);
                    self.discover_clones(*d2, &roots);
                    roots.iter().map(|r| self.label_of(*r)).collect()
                }
            }
        }));
        res.map_err(|_| ())
    }

    fn uid_label(&mut self, u: UniqueId) -> u64 {
        *self.uid2label.get(&u).unwrap_or(&999_999_999)
    }

    /// name UniqueIds made by `UniqueId::now()` in generation order (their index field)
    fn discover_uids(&mut self) {
        let mut fresh: Vec<UniqueId> = Vec::new();
        let labels: Vec<u64> = self.all_labels.iter().copied().collect();
        for d in &self.doms {
            for l in &labels {
                if let Some(i) = d.get_by_ref(self.label2ref[l]) {
                    if let Some(Variant::UniqueId(u)) = i.properties.get(&ustr::ustr("UniqueId")) {
                        if !self.uid2label.contains_key(u) && !fresh.contains(u) {
                            fresh.push(*u);
                        }
                    }
                }
            }
        }
        fresh.sort_by_key(|u| u.index());
        for u in fresh {
            self.uid2label.insert(u, self.next_uid);
            self.next_uid += 1;
        }
    }

    fn inst_string(&mut self, d: usize, l: u64) -> Option<String> {
        let r = self.label2ref[&l];
        let (parent, children, name, class, props) = {
            let i = self.doms[d].get_by_ref(r)?;
            let props: BTreeMap<u64, Variant> =
                i.properties.iter().map(|(k, v)| (key_num(k.as_str()), v.clone())).collect();
            (i.parent(), i.children().to_vec(), i.name.clone(), i.class.to_string(), props)
        };
        let mut s = String::new();
        write!(s, "{}^{}[", l, self.label_of(parent)).unwrap();
        s.push_str(&children.iter().map(|c| self.label_of(*c).to_string()).collect::<Vec<_>>().join(","));
        write!(s, "]n{}c{}{{", &name[1..], &class[1..]).unwrap();
        let mut first = true;
        for (k, v) in props {
            if !first {
                s.push(',');
            }
            first = false;
            match v {
                Variant::Ref(x) => write!(s, "{}=R{}", k, self.label_of(x)).unwrap(),
                Variant::UniqueId(u) => {
                    let ul = self.uid_label(u);
                    write!(s, "{}=U{}", k, ul).unwrap()
                }
                Variant::Int64(n) => write!(s, "{}=O{}", k, n).unwrap(),
                other => write!(s, "{}=?{:?}", k, other).unwrap(),
            }
        }
        s.push('}');
        Some(s)
    }

    /// canonical observation of the whole world (same text as the Coq models print)
    pub fn observe(&mut self, ret: &[u64]) -> String {
        self.discover_uids();
        let mut s = String::from("S ");
        if ret.is_empty() {
            s.push('-');
        } else {
            s.push_str(&ret.iter().map(|l| l.to_string()).collect::<Vec<_>>().join(","));
        }
        let labels: Vec<u64> = self.all_labels.iter().copied().collect();
        for d in 0..self.doms.len() {
            let root = self.doms[d].root_ref();
            let desc: Vec<String> =
                self.doms[d].descendants().map(|i| self.label_of(i.referent()).to_string()).collect();
            write!(s, " | root={} desc={} insts=", self.label_of(root), desc.join(",")).unwrap();
            let mut first = true;
            for l in &labels {
                if let Some(is) = self.inst_string(d, *l) {
                    if !first {
                        s.push(';');
                    }
                    first = false;
                    s.push_str(&is);
                }
            }
        }
        s
    }

    // ------------------------------------------------------------------ oracles (implementation side)

    /// C09: the clause list of the property, checked through the public API only.
    pub fn wf_violation(&self) -> Option<String> {
        for (di, d) in self.doms.iter().enumerate() {
            let root = d.root_ref();
            match d.get_by_ref(root) {
                None => return Some(format!("dom{di}: root instance missing")),
                Some(i) => {
                    if i.parent().is_some() {
                        return Some(format!("dom{di}: root has a parent"));
                    }
                }
            }
            let mut present: Vec<(u64, Ref)> = Vec::new();
            for l in &self.all_labels {
                let r = self.label2ref[l];
                if d.get_by_ref(r).is_some() {
                    present.push((*l, r));
                }
            }
            for (l, r) in &present {
                let i = d.get_by_ref(*r).unwrap();
                if i.referent() != *r {
                    return Some(format!("dom{di}: instance {l} stored under another referent"));
                }
                let mut seen = BTreeSet::new();
                for c in i.children() {
                    let cl = self.label_of(*c);
                    if !seen.insert(cl) {
                        return Some(format!("dom{di}: {l} lists child {cl} twice"));
                    }
                    match d.get_by_ref(*c) {
                        None => return Some(format!("dom{di}: {l} lists missing child {cl}")),
                        Some(ci) => {
                            if ci.parent() != *r {
                                return Some(format!("dom{di}: child {cl} of {l} names another parent"));
                            }
                        }
                    }
                }
                let p = i.parent();
                if p.is_some() {
                    match d.get_by_ref(p) {
                        None => return Some(format!("dom{di}: parent of {l} missing")),
                        Some(pi) => {
                            let n = pi.children().iter().filter(|c| **c == *r).count();
                            if n != 1 {
                                return Some(format!("dom{di}: {l} listed {n} times by its parent"));
                            }
                        }
                    }
                }
                // acyclicity: the ancestor chain ends within |present| steps
                let mut cur = p;
                let mut steps = 0usize;
                while cur.is_some() {
                    steps += 1;
                    if steps > present.len() + 1 {
                        return Some(format!("dom{di}: {l} is its own ancestor (parent cycle)"));
                    }
                    cur = match d.get_by_ref(cur) {
                        Some(x) => x.parent(),
                        None => break,
                    };
                }
            }
            // descendants(): every instance reachable from the root exactly once, parents first
            let desc: Vec<Ref> = d.descendants().map(|i| i.referent()).collect();
            let mut pos: HashMap<Ref, usize> = HashMap::new();
            for (k, r) in desc.iter().enumerate() {
                if pos.insert(*r, k).is_some() {
                    return Some(format!("dom{di}: descendants() yields {} twice", self.label_of(*r)));
                }
            }
            let mut reach: Vec<Ref> = vec![root];
            let mut k = 0;
            while k < reach.len() && reach.len() <= present.len() + 1 {
                if let Some(i) = d.get_by_ref(reach[k]) {
                    reach.extend(i.children().iter().copied());
                }
                k += 1;
            }
            for r in &reach {
                if !pos.contains_key(r) {
                    return Some(format!("dom{di}: descendants() misses reachable {}", self.label_of(*r)));
                }
            }
            if desc.len() != reach.len() {
                return Some(format!("dom{di}: descendants() yields {} of {} reachable", desc.len(), reach.len()));
            }
            // what the iterator says about itself agrees with what it yields: count() and the size_hint bounds,
            // from the root and from every instance (descendants_of)
            let it = d.descendants();
            let (lo, hi) = it.size_hint();
            let cnt = it.count();
            if cnt != desc.len() || lo > desc.len() || hi.map(|h| h < desc.len()).unwrap_or(false) {
                return Some(format!("dom{di}: descendants() yields {} instances but count() = {cnt}, size_hint = ({lo}, {hi:?})", desc.len()));
            }
            for (l, r) in present.iter().take(12) {
                let sub: Vec<Ref> = d.descendants_of(*r).map(|i| i.referent()).collect();
                let it = d.descendants_of(*r);
                let (lo, hi) = it.size_hint();
                let cnt = it.count();
                if cnt != sub.len() || lo > sub.len() || hi.map(|h| h < sub.len()).unwrap_or(false) {
                    return Some(format!("dom{di}: descendants_of({l}) yields {} instances but count() = {cnt}, size_hint = ({lo}, {hi:?})", sub.len()));
                }
                if sub.first() != Some(r) {
                    return Some(format!("dom{di}: descendants_of({l}) does not start with {l}"));
                }
            }
            for r in &desc {
                if *r == root {
                    continue;
                }
                let p = d.get_by_ref(*r).unwrap().parent();
                if !(pos.get(&p).map(|pp| pp < &pos[r]).unwrap_or(false)) {
                    return Some(format!("dom{di}: descendants() yields {} before its parent", self.label_of(*r)));
                }
            }
        }
        None
    }

    /// C12: no two instances of one DOM hold the same UniqueId property value.
    pub fn uid_violation(&self) -> Option<String> {
        for (di, d) in self.doms.iter().enumerate() {
            let mut seen: HashMap<UniqueId, u64> = HashMap::new();
            for l in &self.all_labels {
                if let Some(i) = d.get_by_ref(self.label2ref[l]) {
                    if let Some(Variant::UniqueId(u)) = i.properties.get(&ustr::ustr("UniqueId")) {
                        if let Some(other) = seen.insert(*u, *l) {
                            return Some(format!("dom{di}: instances {other} and {l} share UniqueId {u}"));
                        }
                    }
                }
            }
        }
        None
    }


    /// C12 "changes only on collision": the instances an operation brings into a DOM, each with the UniqueId it
    /// arrived with (None = no UniqueId property).  For clones the copy arrives with its original's id.
    pub fn arrivals(&self, op: &Op, ret: &[u64], uid_before: &[BTreeMap<u64, UniqueId>], present_before: &[BTreeSet<u64>])
        -> Option<(usize, Vec<(u64, Option<UniqueId>)>)> {
        fn bt_uid(b: &BT) -> Option<UniqueId> {
            // the builder's Vec collects into a map: the last entry for a key wins
            let mut u = None;
            for (k, v) in &b.props {
                if *k == 0 {
                    u = match v { PV::U(n) => Some(World::pool_uid(*n)), _ => None };
                }
            }
            u
        }
        fn bt_bfs(b: &BT, out: &mut Vec<(u64, Option<UniqueId>)>) {
            let mut q: VecDeque<&BT> = VecDeque::from([b]);
            while let Some(x) = q.pop_front() {
                out.push((x.label, bt_uid(x)));
                q.extend(x.kids.iter());
            }
        }
        match op {
            Op::New(b) => {
                let mut v = Vec::new();
                bt_bfs(b, &mut v);
                Some((self.doms.len() - 1, v))
            }
            Op::Insert(d, _, b) => {
                let mut v = Vec::new();
                bt_bfs(b, &mut v);
                Some((*d, v))
            }
            Op::Move(d, _, d2, _) => {
                // everything that was in the source before and is in the destination now
                let v = present_before[*d]
                    .iter()
                    .filter(|l| !present_before[*d2].contains(l) && self.doms[*d2].get_by_ref(self.label2ref[l]).is_some())
                    .map(|l| (*l, uid_before[*d].get(l).copied()))
                    .collect();
                Some((*d2, v))
            }
            Op::CloneWithin(..) | Op::CloneExt(..) | Op::CloneMulti(..) => {
                let (sd, dd, origs): (usize, usize, Vec<u64>) = match op {
                    Op::CloneWithin(d, r) => (*d, *d, vec![*r]),
                    Op::CloneExt(d, r, d2) => (*d, *d2, vec![*r]),
                    Op::CloneMulti(d, rs, d2) => (*d, *d2, rs.clone()),
                    _ => unreachable!(),
                };
                if ret.len() != origs.len() {
                    return None;
                }
                let mut v = Vec::new();
                for (o, c) in origs.iter().zip(ret.iter()) {
                    let mut q = VecDeque::from([(self.label2ref[o], *self.label2ref.get(c)?)]);
                    let mut guard = 0;
                    while let Some((a, b)) = q.pop_front() {
                        guard += 1;
                        if guard > 100_000 {
                            return None;
                        }
                        let ia = self.doms[sd].get_by_ref(a)?;
                        let ib = self.doms[dd].get_by_ref(b)?;
                        v.push((self.label_of(b), uid_before[sd].get(&self.label_of(a)).copied()));
                        if ia.children().len() != ib.children().len() {
                            return None;
                        }
                        for (x, y) in ia.children().iter().zip(ib.children().iter()) {
                            q.push_back((*x, *y));
                        }
                    }
                }
                Some((dd, v))
            }
            _ => None,
        }
    }

    /// per-DOM table label -> UniqueId (for the C12 minimal-change oracle)
    pub fn uid_table(&self) -> Vec<BTreeMap<u64, UniqueId>> {
        self.doms
            .iter()
            .map(|d| {
                let mut m = BTreeMap::new();
                for l in &self.all_labels {
                    if let Some(i) = d.get_by_ref(self.label2ref[l]) {
                        if let Some(Variant::UniqueId(u)) = i.properties.get(&ustr::ustr("UniqueId")) {
                            m.insert(*l, *u);
                        }
                    }
                }
                m
            })
            .collect()
    }

    /// table of instance strings per DOM (for frame / source-untouched oracles)
    pub fn snapshot(&mut self) -> Vec<BTreeMap<u64, String>> {
        self.discover_uids();
        let labels: Vec<u64> = self.all_labels.iter().copied().collect();
        (0..self.doms.len())
            .map(|d| labels.iter().filter_map(|l| self.inst_string(d, *l).map(|s| (*l, s))).collect())
            .collect()
    }

    /// C11: the copy made by a clone op is isomorphic to the original and its Refs follow the rule.
    /// `before` is the snapshot taken before the op.
    pub fn clone_violation(
        &mut self,
        op: &Op,
        ret: &[u64],
        before: &[BTreeMap<u64, String>],
        dest_before: &BTreeSet<u64>,
    ) -> Option<String> {
        let (sd, dd, origs): (usize, usize, Vec<u64>) = match op {
            Op::CloneWithin(d, r) => (*d, *d, vec![*r]),
            Op::CloneExt(d, r, d2) => (*d, *d2, vec![*r]),
            Op::CloneMulti(d, rs, d2) => (*d, *d2, rs.clone()),
            _ => return None,
        };
        if ret.len() != origs.len() {
            return Some("clone returned a wrong number of roots".into());
        }
        // overlapping roots: only C09 is claimed
        {
            let mut all = std::collections::HashSet::new();
            for o in &origs {
                let mut st = vec![self.label2ref[o]];
                while let Some(r) = st.pop() {
                    if !all.insert(r) {
                        return None;
                    }
                    if let Some(i) = self.doms[sd].get_by_ref(r) {
                        st.extend(i.children().iter().copied());
                    }
                }
            }
        }
        // build phi by simultaneous walk
        let mut phi: HashMap<Ref, Ref> = HashMap::new();
        let mut pairs: Vec<(Ref, Ref)> = Vec::new();
        for (o, c) in origs.iter().zip(ret.iter()) {
            let cr = match self.label2ref.get(c) {
                Some(r) => *r,
                None => return Some("returned root unknown".into()),
            };
            if self.doms[dd].get_by_ref(cr).map(|i| i.parent().is_some()).unwrap_or(true) {
                return Some(format!("copy root {c} missing or not parentless"));
            }
            let mut q = VecDeque::from([(self.label2ref[o], cr)]);
            while let Some((a, b)) = q.pop_front() {
                let ia = match self.doms[sd].get_by_ref(a) {
                    Some(i) => i,
                    None => return Some("original vanished".into()),
                };
                let ib = match self.doms[dd].get_by_ref(b) {
                    Some(i) => i,
                    None => return Some("copy instance missing".into()),
                };
                if ia.class != ib.class || ia.name != ib.name {
                    return Some(format!("copy of {} differs in name/class", self.label_of(a)));
                }
                if ia.children().len() != ib.children().len() {
                    return Some(format!("copy of {} has a different number of children", self.label_of(a)));
                }
                if dest_before.contains(&self.label_of(b)) {
                    return Some("copy referent is not fresh".into());
                }
                if phi.insert(a, b).is_some() {
                    return Some("original visited twice".into());
                }
                pairs.push((a, b));
                for (x, y) in ia.children().iter().zip(ib.children().iter()) {
                    if self.doms[dd].get_by_ref(*y).map(|i| i.parent() != b).unwrap_or(true) {
                        return Some("copy child has the wrong parent".into());
                    }
                    q.push_back((*x, *y));
                }
            }
        }
        let mut fresh = std::collections::HashSet::new();
        for (_, b) in &pairs {
            if !fresh.insert(*b) {
                return Some("two originals share a copy".into());
            }
        }
        for (a, b) in &pairs {
            let pa = self.doms[sd].get_by_ref(*a).unwrap().properties.clone();
            let pb = self.doms[dd].get_by_ref(*b).unwrap().properties.clone();
            if pa.len() != pb.len() {
                return Some(format!("copy of {} has a different property set", self.label_of(*a)));
            }
            for (k, va) in pa.iter() {
                let vb = match pb.get(k) {
                    Some(v) => v,
                    None => return Some(format!("copy of {} lacks property {}", self.label_of(*a), k)),
                };
                match va {
                    Variant::Ref(t) => {
                        let expect = if let Some(n) = phi.get(t) {
                            *n
                        } else if dest_before.contains(&self.label_of(*t)) && t.is_some() {
                            *t
                        } else {
                            Ref::none()
                        };
                        if *vb != Variant::Ref(expect) {
                            return Some(format!(
                                "Ref property {} of the copy of {}: expected {} got {:?}",
                                k,
                                self.label_of(*a),
                                self.label_of(expect),
                                match vb {
                                    Variant::Ref(x) => self.label_of(*x).to_string(),
                                    o => format!("{o:?}"),
                                }
                            ));
                        }
                    }
                    Variant::UniqueId(_) if k.as_str() == "UniqueId" => {
                        if !matches!(vb, Variant::UniqueId(_)) {
                            return Some("UniqueId property changed type in the copy".into());
                        }
                    }
                    other => {
                        if vb != other {
                            return Some(format!("property {} of the copy of {} differs", k, self.label_of(*a)));
                        }
                    }
                }
            }
        }
        // source untouched / pre-existing instances untouched
        let after = self.snapshot();
        for (di, tb) in before.iter().enumerate() {
            for (l, s) in tb {
                if after[di].get(l) != Some(s) {
                    return Some(format!("pre-existing instance {l} of dom{di} changed during a clone"));
                }
            }
        }
        None
    }
}

fn two_mut<T>(v: &mut [T], a: usize, b: usize) -> (&mut T, &mut T) {
    assert!(a != b);
    if a < b {
        let (x, y) = v.split_at_mut(b);
        (&mut x[a], &mut y[0])
    } else {
        let (x, y) = v.split_at_mut(a);
        (&mut y[0], &mut x[b])
    }
}

// ---------------------------------------------------------------------- generator

pub struct GenCfg {
    pub max_ops: usize,
    pub max_doms: usize,
    pub malformed_percent: u64,
    pub cycle_probe: bool,
}

struct Gen<'a> {
    rng: &'a mut Rng,
    next_label: u64,
    w: World,
}

impl<'a> Gen<'a> {
    fn live(&self, d: usize) -> Vec<u64> {
        self.w
            .all_labels
            .iter()
            .copied()
            .filter(|l| self.w.doms[d].get_by_ref(self.w.label2ref[l]).is_some())
            .collect()
    }
    fn root_label(&self, d: usize) -> u64 {
        self.w.label_of(self.w.doms[d].root_ref())
    }
    fn subtree(&self, d: usize, l: u64) -> BTreeSet<u64> {
        let mut out = BTreeSet::new();
        let mut st = vec![self.w.label2ref[&l]];
        while let Some(r) = st.pop() {
            if !out.insert(self.w.label_of(r)) {
                continue;
            }
            if let Some(i) = self.w.doms[d].get_by_ref(r) {
                st.extend(i.children().iter().copied());
            }
        }
        out
    }
    fn ref_target(&mut self, own: &[u64]) -> u64 {
        // placements: null, own builder (self/ancestor/descendant/sibling), any live, dead label
        match self.rng.below(10) {
            0 => 0,
            1..=4 if !own.is_empty() => *self.rng.pick(own),
            5..=8 => {
                let all: Vec<u64> = self.w.all_labels.iter().copied().collect();
                if all.is_empty() {
                    0
                } else {
                    *self.rng.pick(&all)
                }
            }
            _ => 900_000 + self.rng.below(5),
        }
    }
    fn gen_bt(&mut self, budget: &mut usize, depth: usize) -> BT {
        let label = self.next_label;
        self.next_label += 1;
        *budget = budget.saturating_sub(1);
        let mut kids = Vec::new();
        let nk = if depth > 6 { 0 } else { [0, 0, 1, 1, 2, 3][self.rng.below(6) as usize] };
        for _ in 0..nk {
            if *budget == 0 {
                break;
            }
            kids.push(self.gen_bt(budget, depth + 1));
        }
        BT { label, name: self.rng.below(5), class: self.rng.below(4), props: vec![], kids }
    }
    fn decorate(&mut self, b: &mut BT, own: &[u64]) {
        let mut props = Vec::new();
        if self.rng.chance(55) {
            if self.rng.chance(6) {
                props.push((0, PV::O(self.rng.below(3))));
            } else {
                props.push((0, PV::U(1 + self.rng.below(4))));
            }
        }
        let nref = self.rng.below(3);
        for _ in 0..nref {
            let k = 1 + self.rng.below(3);
            let t = self.ref_target(own);
            props.push((k, PV::R(t)));
        }
        if self.rng.chance(40) {
            props.push((4 + self.rng.below(2), PV::O(self.rng.below(100))));
        }
        if self.rng.chance(10) && !props.is_empty() {
            // duplicate key in the builder's Vec: the later entry wins
            let (k, _) = props[0].clone();
            props.push((k, PV::O(7)));
        }
        b.props = props;
        for k in b.kids.iter_mut() {
            self.decorate(k, own);
        }
    }
    fn builder(&mut self) -> BT {
        let mut budget = 1 + self.rng.below(8) as usize;
        let mut b = self.gen_bt(&mut budget, 0);
        let mut own = Vec::new();
        b.labels(&mut own);
        self.decorate(&mut b, &own);
        b
    }

    fn gen_op(&mut self, cfg: &GenCfg, malformed: bool) -> Op {
        let nd = self.w.doms.len();
        if nd == 0 || (nd < cfg.max_doms && self.rng.chance(8)) {
            return Op::New(self.builder());
        }
        let d = self.rng.below(nd as u64) as usize;
        let live = self.live(d);
        let root = self.root_label(d);
        let nonroot: Vec<u64> = live.iter().copied().filter(|l| *l != root).collect();
        if malformed {
            let dead = 800_000 + self.rng.below(3);
            if cfg.cycle_probe || self.rng.chance(30) {
                // a move under the moved instance itself or one of its descendants (must panic)
                if !nonroot.is_empty() {
                    let r = *self.rng.pick(&nonroot);
                    let sub: Vec<u64> = self.subtree(d, r).into_iter().collect();
                    return Op::MoveWithin(d, r, *self.rng.pick(&sub));
                }
            }
            if self.w.doms.len() >= 2 && !nonroot.is_empty() && (cfg.cycle_probe || self.rng.chance(30)) && self.rng.chance(50) {
                // a transfer into another DOM whose destination parent is not an instance of that DOM: an instance
                // inside the moved subtree (the cross-DOM cycle of /repo 2a3a8420), the moved instance itself, an
                // instance that stays behind in the source, or a dead referent (each must panic, nothing may move)
                let d2 = (d + 1 + self.rng.below(self.w.doms.len() as u64 - 1) as usize) % self.w.doms.len();
                let r = *self.rng.pick(&nonroot);
                let sub: Vec<u64> = self.subtree(d, r).into_iter().collect();
                let dest = match self.rng.below(4) {
                    0 => r,
                    1 => dead,
                    2 => root,
                    _ => *self.rng.pick(&sub),
                };
                return Op::Move(d, r, d2, dest);
            }
            return match self.rng.below(7) {
                0 => Op::Destroy(d, root),
                1 => Op::Destroy(d, dead),
                2 => Op::Insert(d, dead, self.builder()),
                3 => Op::MoveWithin(d, dead, root),
                4 if !nonroot.is_empty() => Op::MoveWithin(d, *self.rng.pick(&nonroot), dead),
                5 => Op::CloneWithin(d, dead),
                _ => Op::MoveWithin(d, root, root),
            };
        }
        for _ in 0..20 {
            match self.rng.below(100) {
                0..=29 => {
                    let p = if self.rng.chance(8) { 0 } else { *self.rng.pick(&live) };
                    return Op::Insert(d, p, self.builder());
                }
                30..=41 if !nonroot.is_empty() => return Op::Destroy(d, *self.rng.pick(&nonroot)),
                42..=59 if !nonroot.is_empty() => {
                    let r = *self.rng.pick(&nonroot);
                    let sub = self.subtree(d, r);
                    let cands: Vec<u64> = live.iter().copied().filter(|l| !sub.contains(l)).collect();
                    if cands.is_empty() {
                        continue;
                    }
                    return Op::MoveWithin(d, r, *self.rng.pick(&cands));
                }
                60..=71 if nd >= 2 && !nonroot.is_empty() => {
                    let mut d2 = self.rng.below(nd as u64 - 1) as usize;
                    if d2 >= d {
                        d2 += 1;
                    }
                    let dl = self.live(d2);
                    return Op::Move(d, *self.rng.pick(&nonroot), d2, *self.rng.pick(&dl));
                }
                72..=81 => return Op::CloneWithin(d, *self.rng.pick(&live)),
                82..=89 if nd >= 2 => {
                    let mut d2 = self.rng.below(nd as u64 - 1) as usize;
                    if d2 >= d {
                        d2 += 1;
                    }
                    return Op::CloneExt(d, *self.rng.pick(&live), d2);
                }
                90..=99 if nd >= 2 => {
                    let mut d2 = self.rng.below(nd as u64 - 1) as usize;
                    if d2 >= d {
                        d2 += 1;
                    }
                    // mostly pairwise disjoint subtrees, sometimes overlapping ones
                    let n = 1 + self.rng.below(3) as usize;
                    let mut rs: Vec<u64> = Vec::new();
                    let mut used: BTreeSet<u64> = BTreeSet::new();
                    let overlap_ok = self.rng.chance(15);
                    for _ in 0..n {
                        let r = *self.rng.pick(&live);
                        let sub = self.subtree(d, r);
                        if overlap_ok || sub.is_disjoint(&used) {
                            used.extend(sub);
                            rs.push(r);
                        }
                    }
                    return Op::CloneMulti(d, rs, d2);
                }
                _ => continue,
            }
        }
        Op::Insert(d, root, self.builder())
    }
}

/// generate one case (a list of op lines); executes on real DOMs to know the live labels
pub fn gen_case(rng: &mut Rng, cfg: &GenCfg) -> Vec<String> {
    let nops = 1 + rng.below(cfg.max_ops as u64) as usize;
    let malformed_at = if rng.chance(cfg.malformed_percent) { Some(rng.below(nops as u64) as usize) } else { None };
    let mut g = Gen { rng, next_label: 1, w: World::new() };
    let mut lines = Vec::new();
    for k in 0..nops {
        let op = g.gen_op(cfg, malformed_at == Some(k));
        lines.push(op.line());
        if g.w.exec(&op).is_err() || g.w.wf_violation().is_some() {
            break;
        }
        if g.w.all_labels.len() > 400 {
            break;
        }
    }
    lines
}

pub struct CaseResult {
    pub obs: Vec<String>,
    pub oracle: Vec<String>,
    pub nontrivial: bool,
    pub stats: BTreeMap<String, u64>,
}

/// run one case on the implementation
pub fn run_case(lines: &[String]) -> CaseResult {
    let mut w = World::new();
    let mut obs = Vec::new();
    let mut oracle = Vec::new();
    let mut stats: BTreeMap<String, u64> = BTreeMap::new();
    let mut nontrivial = false;
    for (k, line) in lines.iter().enumerate() {
        let op = Op::parse(line);
        let kind = line.split_whitespace().next().unwrap().to_string();
        *stats.entry(format!("op_{kind}")).or_insert(0) += 1;
        let before = w.snapshot();
        let uid_before = w.uid_table();
        let dest_before: BTreeSet<u64> = match &op {
            Op::CloneWithin(d, _) => before.get(*d).map(|m| m.keys().copied().collect()).unwrap_or_default(),
            Op::CloneExt(_, _, d2) | Op::CloneMulti(_, _, d2) => {
                before.get(*d2).map(|m| m.keys().copied().collect()).unwrap_or_default()
            }
            _ => BTreeSet::new(),
        };
        match w.exec(&op) {
            Err(()) => {
                obs.push("P".to_string());
                *stats.entry("panics".into()).or_insert(0) += 1;
                break;
            }
            Ok(ret) => {
                obs.push(w.observe(&ret));
                if let Some(v) = w.wf_violation() {
                    // a corrupt DOM makes later real operations meaningless (clone of a cycle never ends)
                    oracle.push(format!("C09 step {k}: {v}"));
                    break;
                }
                if let Some(v) = w.uid_violation() {
                    oracle.push(format!("C12 step {k}: {v}"));
                }
                // C12 minimal change: an instance that stays in its DOM keeps its UniqueId
                let uid_after = w.uid_table();
                for (di, tb) in uid_before.iter().enumerate() {
                    for (l, u) in tb {
                        if let Some(u2) = uid_after.get(di).and_then(|m| m.get(l)) {
                            if u2 != u {
                                oracle.push(format!("C12 step {k}: UniqueId of {l} in dom{di} changed although it did not move"));
                            }
                        }
                    }
                }
                // C12 "replaced only on collision, otherwise preserved exactly; freed ids are available again":
                // judged against the ids actually HELD in the destination before the operation
                let present_before: Vec<BTreeSet<u64>> = before.iter().map(|m| m.keys().copied().collect()).collect();
                let mut ub = uid_before.clone();
                let mut pb = present_before.clone();
                while ub.len() < w.doms.len() {
                    ub.push(BTreeMap::new());
                    pb.push(BTreeSet::new());
                }
                if let Some((dd, arr)) = w.arrivals(&op, &ret, &ub, &pb) {
                    let held: std::collections::HashSet<UniqueId> = ub[dd].values().copied().collect();
                    let now = &uid_after[dd];
                    for (l, u0) in &arr {
                        match u0 {
                            None => {
                                if now.contains_key(l) {
                                    oracle.push(format!("C12 step {k}: instance {l} arrived without a UniqueId but has one now"));
                                }
                            }
                            Some(u) => {
                                let after = now.get(l);
                                if held.contains(u) {
                                    if after == Some(u) {
                                        oracle.push(format!("C12 step {k}: instance {l} kept UniqueId {u} although dom{dd} already held it"));
                                    }
                                } else {
                                    let group: Vec<u64> = arr.iter().filter(|(_, x)| x.as_ref() == Some(u)).map(|(l2, _)| *l2).collect();
                                    let keepers = group.iter().filter(|l2| now.get(l2) == Some(u)).count();
                                    if keepers != 1 {
                                        oracle.push(format!(
                                            "C12 step {k}: UniqueId {u} was free in dom{dd} (no instance held it) yet {} of the {} arriving instance(s) carrying it kept it (instance {l})",
                                            keepers, group.len()
                                        ));
                                    }
                                }
                                if after.is_none() {
                                    oracle.push(format!("C12 step {k}: instance {l} lost its UniqueId property on arrival"));
                                }
                            }
                        }
                    }
                }
                if let Some(v) = w.clone_violation(&op, &ret, &before, &dest_before) {
                    oracle.push(format!("C11 step {k}: {v}"));
                }
                if matches!(op, Op::CloneWithin(..) | Op::CloneExt(..) | Op::CloneMulti(..) | Op::Move(..) | Op::MoveWithin(..))
                    || w.all_labels.len() >= 4
                {
                    nontrivial = true;
                }
            }
        }
    }
    // ---- after the history: WeakDom::from_raw(dom.into_raw()) is the identity on every DOM the history produced, and
    // the id set from_raw rebuilds is the set of ids held (Proofs/DomRawFacts.v: raw_roundtrip).  Done last, so that the
    // rebuilt set cannot heal bookkeeping the history damaged.  Skipped when a step panicked or an oracle already failed.
    // from_raw documents a panic for a `UniqueId` property that holds a value of another type: such DOMs are outside
    // the round trip (hypothesis uid_typed of the theorem)
    let typed = w.doms.iter().all(|d| {
        w.all_labels.iter().all(|l| match d.get_by_ref(w.label2ref[l]).and_then(|i| i.properties.get(&ustr::ustr("UniqueId"))) {
            None | Some(Variant::UniqueId(_)) => true,
            Some(_) => false,
        })
    });
    let clean = typed && oracle.is_empty() && obs.last().map(|o| o != "P").unwrap_or(false);
    if clean && !w.doms.is_empty() {
        let before = w.observe(&[]);
        let uid_before = w.uid_table();
        let ok = std::panic::catch_unwind(std::panic::AssertUnwindSafe(|| {
            for d in 0..w.doms.len() {
                let dom = std::mem::take(&mut w.doms[d]);
                let (root, instances) = dom.into_raw();
                w.doms[d] = WeakDom::from_raw(root, instances);
            }
        }));
        *stats.entry("raw_roundtrips".into()).or_insert(0) += 1;
        if ok.is_err() {
            oracle.push("C12 final: WeakDom::from_raw(dom.into_raw()) panics on a DOM produced by the history".to_string());
        } else {
            let after = w.observe(&[]);
            if after != before {
                oracle.push("C10 final: WeakDom::from_raw(dom.into_raw()) changed the DOM".to_string());
            }
            // the rebuilt id set: an id some instance holds collides, an id nobody holds does not
            for d in 0..w.doms.len() {
                let root = w.doms[d].root_ref();
                let held: Vec<UniqueId> = uid_before[d].values().copied().collect();
                let free = UniqueId::new(0x7fff_0000 + d as u32, 7, 0x1234_5678_9abc);
                let mut probes: Vec<(UniqueId, bool)> = vec![(free, false)];
                if let Some(h) = held.first() {
                    probes.push((*h, true));
                }
                for (u, collides) in probes {
                    let r = std::panic::catch_unwind(std::panic::AssertUnwindSafe(|| {
                        let nr = w.doms[d].insert(root, InstanceBuilder::new("Probe").with_property("UniqueId", u));
                        let got = w.doms[d].get_by_ref(nr).and_then(|i| match i.properties.get(&ustr::ustr("UniqueId")) {
                            Some(Variant::UniqueId(x)) => Some(*x),
                            _ => None,
                        });
                        w.doms[d].destroy(nr);
                        got
                    }));
                    match r {
                        Err(_) => oracle.push(format!("C12 final: inserting into dom{d} rebuilt by from_raw panics")),
                        Ok(got) => {
                            if collides && got == Some(u) {
                                oracle.push(format!("C12 final: after from_raw(into_raw()) an instance inserted with UniqueId {u}, which dom{d} already holds, kept it"));
                            }
                            if !collides && got != Some(u) {
                                oracle.push(format!("C12 final: after from_raw(into_raw()) an instance inserted with UniqueId {u}, which nobody in dom{d} holds, did not keep it"));
                            }
                        }
                    }
                }
            }
        }
    }
    *stats.entry("instances".into()).or_insert(0) += w.all_labels.len() as u64;
    CaseResult { obs, oracle, nontrivial, stats }
}

pub fn cli(args: &[String]) -> bool {
    use crate::util::{arg_num, arg_val, read_cases};
    use std::io::Write;
    let cmd = args.get(1).map(|s| s.as_str()).unwrap_or("");
    match cmd {
        "domops-gen" => {
            let seed = arg_num(&args, "--seed", 1);
            let n = arg_num(&args, "--cases", 100);
            let cfg = GenCfg {
                max_ops: arg_num(&args, "--max-ops", 30) as usize,
                max_doms: arg_num(&args, "--max-doms", 3) as usize,
                malformed_percent: arg_num(&args, "--malformed", 10),
                cycle_probe: args.iter().any(|a| a == "--cycle-probe"),
            };
            let out = arg_val(&args, "--out").expect("--out");
            let prefix = arg_val(&args, "--prefix").unwrap_or_else(|| "g".into());
            let mut f = std::io::BufWriter::new(std::fs::File::create(out).unwrap());
            let mut rng = crate::rng::Rng::new(seed);
            for k in 0..n {
                let mut crng = rng.fork();
                let lines = gen_case(&mut crng, &cfg);
                writeln!(f, "case {prefix}{seed}-{k}").unwrap();
                for l in lines {
                    writeln!(f, "{l}").unwrap();
                }
                writeln!(f, "end").unwrap();
            }
        }
        "domops-run" => {
            let cases = read_cases(&args[2]);
            let mut obs = std::io::BufWriter::new(std::fs::File::create(&args[3]).unwrap());
            let mut orc = std::io::BufWriter::new(std::fs::File::create(&args[4]).unwrap());
            let mut stats: BTreeMap<String, u64> = BTreeMap::new();
            let mut nontrivial = 0u64;
            let mut distinct = std::collections::BTreeSet::new();
            for (id, lines) in &cases {
                let r = run_case(lines);
                writeln!(obs, "case {id}").unwrap();
                for o in &r.obs {
                    writeln!(obs, "{o}").unwrap();
                }
                writeln!(obs, "end").unwrap();
                for o in &r.oracle {
                    writeln!(orc, "{id} {o}").unwrap();
                }
                for (k, v) in r.stats {
                    *stats.entry(k).or_insert(0) += v;
                }
                if r.nontrivial && distinct.insert(lines.join("\n")) {
                    nontrivial += 1;
                }
            }
            stats.insert("cases".into(), cases.len() as u64);
            stats.insert("distinct_nontrivial".into(), nontrivial);
            let mut sf = std::fs::File::create(&args[5]).unwrap();
            writeln!(sf, "{}", serde_json::to_string(&stats).unwrap()).unwrap();
        }
        _ => return false,
    }
    true
}
