//! binfile: the whole-file correspondence of rbx_binary (kind `binfile`) and the implementation-side
//! oracles of C01 (round trip), C07 (determinism / re-save fixed point) and C08 (class columns).
//!
//!   binfile-gen --seed S --cases N --out FILE [--unknown-only] [--same-class] [--migrating] [--max-nodes K] [--prefix P]
//!   binfile-run CASES OBS ORACLE STATS      (also writes CASES.hints for the model runner)
//!
//! Observation block of a case (the model runner prints the same lines):
//!   enc none  BYTES <hex> | ERR <class> | PANIC
//!   dec none  DOM / node.. prop.. / ENDDOM | ERR <class> | PANIC | SKIP
//!   enc lz4   CHUNKS <header-hex> (<name-hex> <payload-hex>)* | ERR <class> | PANIC       (de-framed file)
//!   dec lz4   SAME (= the `dec none` lines) | DOM.. | ERR.. | PANIC | SKIP
//!   enc zstd / dec zstd likewise
//! Encoder error classes: type-mismatch unsupported invalid-value invalid-id io.
//! Decoder error classes: eof utf8 bad-header file-version chunk-version type-mismatch invalid-data
//!   type-id rotation ocf-format content-type unknown-referent chunk-reserved io.
//! Hints (parameters of the model observed on the implementation): `order <label> <prop names>` = the
//! iteration order of Instance.properties; `aset <k> <insertion seq> <iteration seq>` = iteration order
//! of a UstrSet built by that insertion sequence; `quant <f32> <u8>` = one channel of
//! Color3 -> Color3uint8; `sstr <content> <blake3>`.
use crate::forest::{self, Catalogue, Forest, GenCfg};
use crate::rng::Rng;
use crate::util::*;
use crate::val::{self, hex, RefCtx};
use rbx_binary::{CompressionType, Serializer};
use rbx_dom_weak::{UstrSet, WeakDom};
use rbx_reflection::{DataType, PropertyKind, PropertySerialization};
use rbx_types::*;
use std::collections::{BTreeMap, BTreeSet, HashMap, HashSet};
use std::io::Write;
use std::panic::{catch_unwind, AssertUnwindSafe};

pub fn enc_err_class(msg: &str) -> &'static str {
    if msg.starts_with("Property type mismatch") {
        "type-mismatch"
    } else if msg.starts_with("Unsupported property type") {
        "unsupported"
    } else if msg.starts_with("Invalid property value") {
        "invalid-value"
    } else if msg.starts_with("The instance with referent") {
        "invalid-id"
    } else {
        "io"
    }
}

pub fn dec_err_class(msg: &str) -> &'static str {
    if msg.starts_with("Invalid file header") {
        "bad-header"
    } else if msg.starts_with("Unknown file version") {
        "file-version"
    } else if msg.starts_with("Unknown version") {
        "chunk-version"
    } else if msg.starts_with("Type mismatch") {
        "type-mismatch"
    } else if msg.starts_with("Invalid property data: CFrame property") {
        "rotation"
    } else if msg.starts_with("Invalid property data") {
        "invalid-data"
    } else if msg.starts_with("File referred to type ID") {
        "type-id"
    } else if msg.starts_with("Expected type id for") {
        "ocf-format"
    } else if msg.starts_with("'Content' type") {
        "content-type"
    } else if msg.starts_with("PRNT chunk refers to referent") {
        "unknown-referent"
    } else if msg.contains("Chunk reserved space was not zero") {
        "chunk-reserved"
    } else if msg.contains("failed to fill whole buffer") || msg.starts_with("chunk payload is") {
        "eof"
    } else if msg.contains("stream did not contain valid UTF-8") {
        "utf8"
    } else {
        "io"
    }
}

#[derive(Clone, Debug)]
pub enum Enc {
    Bytes(Vec<u8>),
    Err(String, String), // class, full message
    Panic(String),
}

thread_local! {
    pub static LAST_PANIC: std::cell::RefCell<String> = std::cell::RefCell::new(String::new());
}

/// run `f`, catching a panic and returning its message
pub fn guarded<T>(f: impl FnOnce() -> T) -> Result<T, String> {
    let prev = std::panic::take_hook();
    std::panic::set_hook(Box::new(|info| {
        let loc = info.location().map(|l| format!("{}:{}", l.file(), l.line())).unwrap_or_default();
        let msg = if let Some(s) = info.payload().downcast_ref::<&str>() {
            s.to_string()
        } else if let Some(s) = info.payload().downcast_ref::<String>() {
            s.clone()
        } else {
            "?".to_string()
        };
        LAST_PANIC.with(|p| *p.borrow_mut() = format!("{loc}: {msg}"));
    }));
    let r = catch_unwind(AssertUnwindSafe(f));
    std::panic::set_hook(prev);
    r.map_err(|_| LAST_PANIC.with(|p| p.borrow().clone()))
}

pub fn encode(dom: &WeakDom, roots: &[Ref], c: CompressionType) -> Enc {
    let r = guarded(|| {
        let mut buf = Vec::new();
        Serializer::new().compression_type(c).serialize(&mut buf, dom, roots).map(|_| buf)
    });
    match r {
        Ok(Ok(b)) => Enc::Bytes(b),
        Ok(Err(e)) => {
            let m = e.to_string();
            Enc::Err(enc_err_class(&m).to_string(), m)
        }
        Err(p) => Enc::Panic(p),
    }
}

pub enum Dec {
    Dom(WeakDom),
    Err(String, String),
    Panic(String),
}

pub fn decode(bytes: &[u8]) -> Dec {
    match guarded(|| rbx_binary::from_reader(bytes)) {
        Ok(Ok(d)) => Dec::Dom(d),
        Ok(Err(e)) => {
            let m = e.to_string();
            Dec::Err(dec_err_class(&m).to_string(), m)
        }
        Err(p) => Dec::Panic(p),
    }
}

/// header (32 bytes) and the de-framed chunks of a file written by the implementation
pub fn deframe(bytes: &[u8]) -> Option<(Vec<u8>, Vec<([u8; 4], Vec<u8>)>)> {
    if bytes.len() < 32 {
        return None;
    }
    let header = bytes[..32].to_vec();
    let mut rest = &bytes[32..];
    let mut chunks = Vec::new();
    loop {
        let c = guarded(|| rbx_binary::verif::Chunk::decode(&mut rest)).ok()?.ok()?;
        let end = &c.name == b"END\0";
        chunks.push((c.name, c.data));
        if end {
            break;
        }
    }
    Some((header, chunks))
}

fn comp_name(c: CompressionType) -> &'static str {
    match c {
        CompressionType::None => "none",
        CompressionType::Lz4 => "lz4",
        CompressionType::Zstd => "zstd",
    }
}

pub fn known_uids(f: &Forest) -> HashSet<(u32, u32, i64)> {
    let mut s = HashSet::new();
    s.insert((0, 0, 0));
    for n in &f.nodes {
        for (_, v) in &n.props {
            if let Variant::UniqueId(u) = v {
                s.insert((u.index(), u.time(), u.random()));
            }
        }
    }
    s
}

fn dec_lines(d: &Dec, uids: &HashSet<(u32, u32, i64)>) -> Vec<String> {
    match d {
        Dec::Dom(dom) => {
            let mut v = vec!["DOM".to_string()];
            v.extend(forest::print_dom_opts(dom, Some(uids)));
            v.push("ENDDOM".to_string());
            v
        }
        Dec::Err(c, _) => vec![format!("ERR {c}")],
        Dec::Panic(_) => vec!["PANIC".to_string()],
    }
}

// ------------------------------------------------------------------------------------------ hints

/// Color3 channels whose quantisation the model may need: those in the case and those of the
/// database defaults
fn color_channels(f: &Forest, db_channels: &[u32]) -> BTreeSet<u32> {
    let mut s: BTreeSet<u32> = db_channels.iter().copied().collect();
    fn visit(v: &Variant, s: &mut BTreeSet<u32>) {
        match v {
            Variant::Color3(c) => {
                s.insert(c.r.to_bits());
                s.insert(c.g.to_bits());
                s.insert(c.b.to_bits());
            }
            _ => {}
        }
    }
    for n in &f.nodes {
        for (_, v) in &n.props {
            visit(v, &mut s);
        }
    }
    s
}

pub struct DbFacts {
    pub color_channels: Vec<u32>,
    pub shared: Vec<(Vec<u8>, Vec<u8>)>,
}

pub fn db_facts() -> DbFacts {
    let db = rbx_reflection_database::get();
    let mut ch = BTreeSet::new();
    let mut sh: BTreeMap<Vec<u8>, Vec<u8>> = BTreeMap::new();
    let e = SharedString::new(Vec::new());
    sh.insert(Vec::new(), e.hash().as_bytes().to_vec());
    ch.insert(0f32.to_bits());
    for c in db.classes.values() {
        for v in c.default_properties.values() {
            match v {
                Variant::Color3(c) => {
                    ch.insert(c.r.to_bits());
                    ch.insert(c.g.to_bits());
                    ch.insert(c.b.to_bits());
                }
                Variant::SharedString(s) => {
                    sh.insert(s.data().to_vec(), s.hash().as_bytes().to_vec());
                }
                _ => {}
            }
        }
    }
    DbFacts { color_channels: ch.into_iter().collect(), shared: sh.into_iter().collect() }
}

pub fn quant_channel(x: f32) -> u8 {
    let c: Color3uint8 = Color3::new(x, 0.0, 0.0).into();
    c.r
}

/// canonical name collect_type_info files a property under (None = the property is skipped), through the
/// crate's own descriptor lookup
fn canonical_of(class: &str, name: &str) -> Option<String> {
    let db = rbx_reflection_database::get();
    match rbx_binary::verif::find_property_descriptors(db, class.into(), name.into()) {
        Some(d) => {
            let ser = d.serialized?;
            if let PropertyKind::Canonical { serialization: PropertySerialization::Migrate(m) } = &ser.kind {
                let nd = rbx_binary::verif::find_property_descriptors(db, class.into(), m.new_property_name.as_str().into())?;
                nd.serialized?;
                Some(nd.canonical.name.to_string())
            } else {
                Some(d.canonical.name.to_string())
            }
        }
        None => Some(name.to_string()),
    }
}

fn is_migrating(class: &str, name: &str) -> bool {
    let db = rbx_reflection_database::get();
    rbx_binary::verif::find_property_descriptors(db, class.into(), name.into())
        .and_then(|d| d.serialized)
        .map(|ser| matches!(&ser.kind, PropertyKind::Canonical { serialization: PropertySerialization::Migrate(_) }))
        .unwrap_or(false)
}

pub fn hint_lines(f: &Forest, dom: &WeakDom, ctx: &mut RefCtx, facts: &DbFacts) -> Vec<String> {
    let mut out = Vec::new();
    // iteration order of every instance's property map
    let mut orders: HashMap<u64, Vec<String>> = HashMap::new();
    for n in &f.nodes {
        let r = ctx.ref_of(n.label);
        if let Some(i) = dom.get_by_ref(r) {
            let names: Vec<String> = i.properties.iter().map(|(k, _)| k.to_string()).collect();
            out.push(format!("order {:x} {}", n.label, names.iter().map(|k| hex(k.as_bytes())).collect::<Vec<_>>().join(" ")));
            orders.insert(n.label, names);
        }
    }
    // alias sets: insertion sequences as collect_type_info builds them (post-order, property iteration order)
    let mut visited: HashSet<(String, String)> = HashSet::new();
    let mut seqs: BTreeMap<(String, String), Vec<String>> = BTreeMap::new();
    let mut migrating: HashSet<String> = HashSet::new();
    for l in f.postorder(&f.roots) {
        let n = f.node(l).unwrap();
        for p in orders.get(&l).cloned().unwrap_or_default() {
            if !visited.insert((n.class.clone(), p.clone())) {
                continue;
            }
            if let Some(c) = canonical_of(&n.class, &p) {
                if c != p {
                    if is_migrating(&n.class, &p) {
                        migrating.insert(p.clone());
                    }
                    let e = seqs.entry((n.class.clone(), c)).or_default();
                    if !e.contains(&p) {
                        e.push(p);
                    }
                }
            }
        }
    }
    let mut done: BTreeSet<Vec<String>> = BTreeSet::new();
    for (_, seq) in seqs {
        if seq.len() < 2 || !done.insert(seq.clone()) {
            continue;
        }
        // the writer keeps two sets per column and consults the plain aliases before the legacy (migrating) names
        let mut set = UstrSet::default();
        let mut legacy = UstrSet::default();
        for a in &seq {
            if migrating.contains(a) {
                legacy.insert(a.as_str().into());
            } else {
                set.insert(a.as_str().into());
            }
        }
        let it: Vec<String> = set.iter().chain(legacy.iter()).map(|u| u.to_string()).collect();
        out.push(format!(
            "aset {:x} {} {}",
            seq.len(),
            seq.iter().map(|k| hex(k.as_bytes())).collect::<Vec<_>>().join(" "),
            it.iter().map(|k| hex(k.as_bytes())).collect::<Vec<_>>().join(" ")
        ));
    }
    for c in color_channels(f, &facts.color_channels) {
        out.push(format!("quant {:x} {:x}", c, quant_channel(f32::from_bits(c))));
    }
    for (c, h) in &facts.shared {
        out.push(format!("sstr {} {}", hex(c), hex(h)));
    }
    out
}

// ------------------------------------------------------------------------------------------ run

pub struct CaseRun {
    pub obs: Vec<String>,
    pub hints: Vec<String>,
    pub oracle: Vec<String>,
}

pub fn run_case(id: &str, lines: &[String], facts: &DbFacts) -> CaseRun {
    let mut obs = Vec::new();
    let mut oracle = Vec::new();
    let (f, mut ctx) = match forest::parse_case(lines) {
        Ok(x) => x,
        Err(e) => {
            return CaseRun { obs: vec![format!("BADCASE {e}")], hints: vec![], oracle: vec![] };
        }
    };
    let dom = forest::build_dom(&f, &mut ctx);
    let hints = hint_lines(&f, &dom, &mut ctx, facts);
    let roots: Vec<Ref> = f.roots.iter().map(|l| ctx.ref_of(*l)).collect();
    let uids = known_uids(&f);
    let mut none_dec: Option<Vec<String>> = None;
    let mut results: Vec<(CompressionType, Enc)> = Vec::new();
    for c in [CompressionType::None, CompressionType::Lz4, CompressionType::Zstd] {
        let e = encode(&dom, &roots, c);
        let cn = comp_name(c);
        let mut bytes: Option<Vec<u8>> = None;
        match &e {
            Enc::Bytes(b) => {
                bytes = Some(b.clone());
                if c == CompressionType::None {
                    obs.push(format!("enc {cn} BYTES {}", hex(b)));
                } else {
                    match deframe(b) {
                        Some((h, chunks)) => {
                            let mut s = format!("enc {cn} CHUNKS {}", hex(&h));
                            for (n, d) in chunks {
                                s.push_str(&format!(" {} {}", hex(&n), hex(&d)));
                            }
                            obs.push(s);
                        }
                        None => obs.push(format!("enc {cn} UNFRAMEABLE")),
                    }
                }
            }
            Enc::Err(k, m) => {
                if std::env::var("BINFILE_DEBUG").is_ok() && c == CompressionType::None {
                    eprintln!("{id} enc ERR {k}: {m}");
                }
                obs.push(format!("enc {cn} ERR {k}"))
            }
            Enc::Panic(m) => {
                if std::env::var("BINFILE_DEBUG").is_ok() {
                    eprintln!("{id} enc PANIC: {m}");
                }
                obs.push(format!("enc {cn} PANIC"))
            }
        }
        match bytes {
            None => obs.push(format!("dec {cn} SKIP")),
            Some(b) => {
                let d = decode(&b);
                if std::env::var("BINFILE_DEBUG").is_ok() && c == CompressionType::None {
                    match &d {
                        Dec::Err(k, m) => eprintln!("{id} dec ERR {k}: {m}"),
                        Dec::Panic(m) => eprintln!("{id} dec PANIC: {m}"),
                        _ => {}
                    }
                }
                let dl = dec_lines(&d, &uids);
                if c == CompressionType::None {
                    obs.push(format!("dec {cn} {}", dl[0]));
                    obs.extend(dl[1..].iter().cloned());
                    none_dec = Some(dl);
                } else if Some(&dl) == none_dec.as_ref() {
                    obs.push(format!("dec {cn} SAME"));
                } else {
                    obs.push(format!("dec {cn} {}", dl[0]));
                    obs.extend(dl[1..].iter().cloned());
                }
                if f.opt("rootdup").is_none() {
                    crate::binoracle::c01(id, &f, &d, cn, &mut oracle);
                }
            }
        }
        results.push((c, e));
    }
    if !crate::binoracle::one_spelling(&f) {
        // not a failure: tells the C07 handler that this DOM spells one logical property twice on one instance
        oracle.push(format!("{id} INFO two-spellings"));
    }
    crate::binoracle::c01_encode(id, &f, &results, &mut oracle);
    crate::binoracle::c07(id, &f, &results, &mut oracle);
    crate::binoracle::c08(id, &f, &mut oracle);
    crate::binoracle::c15(id, &f, &results, &mut oracle);
    CaseRun { obs, hints, oracle }
}

fn nontrivial(f: &Forest) -> bool {
    let mut classes: HashMap<&str, usize> = HashMap::new();
    for n in &f.nodes {
        *classes.entry(n.class.as_str()).or_default() += 1;
    }
    classes.values().any(|c| *c >= 2)
        || f.nodes.iter().any(|n| f.children(n.label).len() >= 2)
        || f.nodes.iter().any(|n| n.props.iter().any(|(_, v)| matches!(v, Variant::Ref(_) | Variant::SharedString(_))))
}

pub fn cli(args: &[String]) -> bool {
    if args.len() < 2 {
        return false;
    }
    match args[1].as_str() {
        "binfile-gen" => {
            let seed = arg_num(args, "--seed", 1);
            let cases = arg_num(args, "--cases", 100);
            let out = arg_val(args, "--out").expect("--out");
            let prefix = arg_val(args, "--prefix").unwrap_or_else(|| "b".to_string());
            let mut cfg = GenCfg::default();
            cfg.max_nodes = arg_num(args, "--max-nodes", 24);
            if has_flag(args, "--unknown-only") {
                cfg.unknown_pct = 100;
            }
            cfg.same_class = has_flag(args, "--same-class");
            if has_flag(args, "--friendly") {
                cfg.hostile = false;
            }
            let mut rng = Rng::new(seed ^ 0xb1f1e);
            let mut cat = Catalogue::new();
            let mut w = std::io::BufWriter::new(std::fs::File::create(&out).expect("create"));
            for k in 0..cases {
                let mut r = rng.fork();
                let mut c = cfg.clone();
                if !has_flag(args, "--same-class") && !has_flag(args, "--no-same-class") && k % 5 == 4 {
                    c.same_class = true;
                    c.max_nodes = 4;
                }
                let f = if has_flag(args, "--migrating") { forest::gen_migrating(&mut r, &mut cat, k) } else { forest::gen_forest(&mut r, &mut cat, &c) };
                write_case(&mut w, &format!("{prefix}{k}"), &forest::case_lines(&f));
            }
            true
        }
        "binfile-run" => {
            let cases = read_cases(&args[2]);
            let facts = db_facts();
            let mut obs = std::io::BufWriter::new(std::fs::File::create(&args[3]).expect("obs"));
            let mut orc = std::io::BufWriter::new(std::fs::File::create(&args[4]).expect("oracle"));
            let mut hints = std::io::BufWriter::new(std::fs::File::create(format!("{}.hints", &args[2])).expect("hints"));
            let mut distinct = HashSet::new();
            let mut nontriv = 0u64;
            let mut sizes: BTreeMap<String, u64> = BTreeMap::new();
            let mut enc_outcomes: BTreeMap<String, u64> = BTreeMap::new();
            let mut classes_known = 0u64;
            let mut classes_unknown = 0u64;
            let db = rbx_reflection_database::get();
            for (id, lines) in &cases {
                let r = run_case(id, lines, &facts);
                write_case(&mut obs, id, &r.obs);
                write_case(&mut hints, id, &r.hints);
                for l in &r.oracle {
                    writeln!(orc, "{l}").unwrap();
                }
                if let Ok((f, _)) = forest::parse_case(lines) {
                    if nontrivial(&f) && distinct.insert(lines.join("\n")) {
                        nontriv += 1;
                    }
                    let b = match f.nodes.len() {
                        0..=1 => "1",
                        2..=7 => "2-7",
                        8..=24 => "8-24",
                        _ => "25+",
                    };
                    *sizes.entry(b.to_string()).or_default() += 1;
                    for n in &f.nodes {
                        if db.classes.contains_key(n.class.as_str()) {
                            classes_known += 1
                        } else {
                            classes_unknown += 1
                        }
                    }
                }
                let k = r.obs.first().map(|l| l.split(' ').nth(2).unwrap_or("?").to_string()).unwrap_or_default();
                *enc_outcomes.entry(k).or_default() += 1;
            }
            let st = serde_json::json!({
                "cases": cases.len(), "distinct_nontrivial": nontriv, "sizes": sizes, "encode_outcomes": enc_outcomes,
                "instances_known_class": classes_known, "instances_unknown_class": classes_unknown,
            });
            std::fs::write(&args[5], serde_json::to_string_pretty(&st).unwrap()).expect("stats");
            true
        }
        _ => false,
    }
}
