//! dbdefaults: the "written and read back unchanged" clause of C16, on the real crates, exhaustively.
//!
//!   dbdefaults-run OBS ORACLE STATS [--class NAME] [--dump]
//!
//! For every database class: one instance carrying every default of the class chain (nearest class
//! wins, i.e. `find_default_property`) whose name resolves through `find_property_descriptors` to a
//! descriptor that serializes; written with `rbx_binary::to_writer` and `rbx_xml::to_writer_default`,
//! read back with `from_reader` / `from_reader_default`, compared property by property.  Values are
//! compared through their printed Coq terms (`coq_value`): floats are bit patterns, so NaN payloads
//! and signed zeros count.  When the whole instance does not come back unchanged, every property is
//! re-run alone so that the report names the properties and keeps the crates' own error text.
//!
//! OBS: one line per class `<class> props=<n> skipped=<m> bin=<ok|FAIL> xml=<ok|FAIL>`.
//! ORACLE: `<class> C16 <format> <kind> <property>: <detail>` (format bin|xml).
use super::{coq_value, fail, sorted_classes, STRICT};
use rbx_dom_weak::{
    types::{Variant, VariantType},
    InstanceBuilder, WeakDom,
};
use rbx_reflection::{DataType, PropertyKind, PropertySerialization};
use std::collections::BTreeMap;
use std::io::Write;
use std::panic::{catch_unwind, AssertUnwindSafe};

/// effective defaults of a class: name -> value, nearest class first
fn chain_defaults(class: &str) -> BTreeMap<String, Variant> {
    let db = rbx_reflection_database::get();
    let mut out = BTreeMap::new();
    let mut cur = db.classes.get(class);
    let mut steps = 0;
    while let Some(c) = cur {
        for (k, v) in &c.default_properties {
            out.entry(k.to_string()).or_insert_with(|| v.clone());
        }
        cur = c.superclass.as_ref().and_then(|s| db.classes.get(s.as_ref()));
        steps += 1;
        if steps > db.classes.len() {
            break;
        }
    }
    out
}

fn serializes(class: &str, prop: &str) -> bool {
    let db = rbx_reflection_database::get();
    catch_unwind(AssertUnwindSafe(|| {
        rbx_binary::verif::find_property_descriptors(db, rbx_dom_weak::ustr(class), rbx_dom_weak::ustr(prop))
            .map(|d| d.serialized.is_some())
            .unwrap_or(false)
    }))
    .unwrap_or(false)
}

fn panic_text(e: Box<dyn std::any::Any + Send>) -> String {
    if let Some(s) = e.downcast_ref::<&str>() {
        s.to_string()
    } else if let Some(s) = e.downcast_ref::<String>() {
        s.clone()
    } else {
        "panic".to_string()
    }
}

/// writes one instance with the given properties and reads it back: Ok(read properties) or Err(stage, text)
fn roundtrip(format: &str, class: &str, props: &BTreeMap<String, Variant>) -> Result<BTreeMap<String, Variant>, (String, String)> {
    // a name of its own (not the class name, which a reader falls back to when it loses the Name)
    let own_name = format!("default {class}");
    let mut b = InstanceBuilder::new(class).with_name(own_name.as_str());
    for (k, v) in props {
        b = b.with_property(k.as_str(), v.clone());
    }
    let dom = WeakDom::new(InstanceBuilder::new("DataModel").with_child(b));
    let roots = dom.root().children().to_vec();
    let mut buf = Vec::new();
    let w = catch_unwind(AssertUnwindSafe(|| {
        if format == "bin" {
            rbx_binary::to_writer(&mut buf, &dom, &roots).map_err(|e| e.to_string())
        } else {
            rbx_xml::to_writer_default(&mut buf, &dom, &roots).map_err(|e| e.to_string())
        }
    }));
    match w {
        Err(p) => return Err(("write-panic".into(), panic_text(p))),
        Ok(Err(e)) => return Err(("write-error".into(), e)),
        Ok(Ok(())) => {}
    }
    let r = catch_unwind(AssertUnwindSafe(|| {
        if format == "bin" {
            rbx_binary::from_reader(&buf[..]).map_err(|e| e.to_string())
        } else {
            rbx_xml::from_reader_default(&buf[..]).map_err(|e| e.to_string())
        }
    }));
    let back = match r {
        Err(p) => return Err(("read-panic".into(), panic_text(p))),
        Ok(Err(e)) => return Err(("read-error".into(), e)),
        Ok(Ok(d)) => d,
    };
    let kids = back.root().children();
    if kids.len() != 1 {
        return Err(("read-shape".into(), format!("{} top-level instances read back", kids.len())));
    }
    let inst = back.get_by_ref(kids[0]).unwrap();
    if inst.class.as_str() != class {
        return Err(("read-shape".into(), format!("class read back as {}", inst.class)));
    }
    if inst.name != own_name {
        return Err(("read-name".into(), format!("the instance named {own_name:?} is read back as {:?}", inst.name)));
    }
    Ok(inst.properties.iter().map(|(k, v)| (k.to_string(), v.clone())).collect())
}

/// the defaults as the binary WRITER uses them: an instance that sets every default of its class explicitly next to an
/// instance of the same class that sets nothing.  The second one's column values are filled in by the writer from the
/// database (`find_default_property`, of the declared or of the serialized type); read back, both instances must hold the
/// same value for every property (the explicit one came through unchanged, see above).  Returns (property, detail) lines.
fn companion(class: &str, props: &BTreeMap<String, Variant>) -> Result<Vec<(String, String)>, (String, String)> {
    let mut a = InstanceBuilder::new(class).with_name("explicit");
    for (k, v) in props {
        a = a.with_property(k.as_str(), v.clone());
    }
    let b = InstanceBuilder::new(class).with_name("bare");
    let dom = WeakDom::new(InstanceBuilder::new("DataModel").with_child(a).with_child(b));
    let roots = dom.root().children().to_vec();
    let mut buf = Vec::new();
    match catch_unwind(AssertUnwindSafe(|| rbx_binary::to_writer(&mut buf, &dom, &roots).map_err(|e| e.to_string()))) {
        Err(p) => return Err(("write-panic".into(), panic_text(p))),
        Ok(Err(e)) => return Err(("write-error".into(), e)),
        Ok(Ok(())) => {}
    }
    let back = match catch_unwind(AssertUnwindSafe(|| rbx_binary::from_reader(&buf[..]).map_err(|e| e.to_string()))) {
        Err(p) => return Err(("read-panic".into(), panic_text(p))),
        Ok(Err(e)) => return Err(("read-error".into(), e)),
        Ok(Ok(d)) => d,
    };
    let kids = back.root().children();
    if kids.len() != 2 {
        return Err(("read-shape".into(), format!("{} top-level instances read back", kids.len())));
    }
    let (x, y) = (back.get_by_ref(kids[0]).unwrap(), back.get_by_ref(kids[1]).unwrap());
    let mut out = Vec::new();
    let mut keys: Vec<_> = x.properties.keys().map(|k| k.to_string()).collect();
    keys.sort();
    for k in keys {
        if k == "UniqueId" {
            continue; // regenerated per instance
        }
        let xv = coq_value(&x.properties[&rbx_dom_weak::ustr(&k)]);
        match y.properties.get(&rbx_dom_weak::ustr(&k)) {
            None => out.push((k.clone(), "the instance that sets nothing lacks the property after the round trip".to_string())),
            Some(v) if coq_value(v) != xv => out.push((k.clone(), format!("the writer filled in {} for the instance that sets nothing; the database default reads back as {}", short(&coq_value(v)), short(&xv)))),
            _ => {}
        }
    }
    Ok(out)
}

/// the bundled database written the way rbx_reflector writes `database.msgpack` (rmp_serde, positional) must load again and
/// describe the same classes, superclass links, descriptors and defaults: the Serialize and Deserialize sides of
/// rbx_reflection's descriptor types agree (the bundled file is the output of exactly this writer)
fn reload_database() -> Vec<String> {
    let db = rbx_reflection_database::get();
    let mut out = Vec::new();
    let bytes = match catch_unwind(AssertUnwindSafe(|| rmp_serde::to_vec(db))) {
        Ok(Ok(b)) => b,
        Ok(Err(e)) => return vec![format!("the database cannot be written as MessagePack: {e}")],
        Err(_) => return vec!["writing the database as MessagePack panics".to_string()],
    };
    let back: rbx_reflection::ReflectionDatabase<'static> = match catch_unwind(AssertUnwindSafe(|| rmp_serde::from_slice::<rbx_reflection::ReflectionDatabase<'static>>(Box::leak(bytes.into_boxed_slice())))) {
        Ok(Ok(d)) => d,
        Ok(Err(e)) => return vec![format!("the database written as MessagePack ({}) does not load again: {e}", "rmp_serde::to_vec")],
        Err(_) => return vec!["loading the re-written database panics".to_string()],
    };
    if back.classes.len() != db.classes.len() || back.enums.len() != db.enums.len() {
        out.push(format!("{} classes / {} enums written, {} / {} loaded", db.classes.len(), db.enums.len(), back.classes.len(), back.enums.len()));
    }
    for (n, c) in db.classes.iter() {
        let Some(c2) = back.classes.get(n.as_ref()) else {
            out.push(format!("class {n} is missing after the reload"));
            continue;
        };
        if c.superclass.as_deref() != c2.superclass.as_deref() {
            out.push(format!("class {n}: superclass {:?} reloads as {:?}", c.superclass, c2.superclass));
        }
        if c.properties.len() != c2.properties.len() || c.default_properties.len() != c2.default_properties.len() || c.tags != c2.tags {
            out.push(format!("class {n}: {} descriptors / {} defaults reload as {} / {}", c.properties.len(), c.default_properties.len(), c2.properties.len(), c2.default_properties.len()));
        }
        for (pn, p) in c.properties.iter() {
            match c2.properties.get(pn.as_ref()) {
                None => out.push(format!("{n}.{pn} is missing after the reload")),
                Some(p2) => {
                    if format!("{:?}", p.kind) != format!("{:?}", p2.kind) || format!("{:?}", p.data_type) != format!("{:?}", p2.data_type) {
                        out.push(format!("{n}.{pn}: {:?} / {:?} reloads as {:?} / {:?}", p.kind, p.data_type, p2.kind, p2.data_type));
                    }
                }
            }
        }
        for (dn, v) in c.default_properties.iter() {
            match c2.default_properties.get(dn.as_ref()) {
                None => out.push(format!("default {n}.{dn} is missing after the reload")),
                Some(v2) => {
                    if coq_value(v) != coq_value(v2) {
                        out.push(format!("default {n}.{dn} reloads with another value"));
                    }
                }
            }
        }
        if out.len() > 5 {
            break;
        }
    }
    out
}

fn short(s: &str) -> String {
    let s = s.replace('\n', " ");
    if s.len() > 300 {
        format!("{}...", &s[..300])
    } else {
        s
    }
}

/// differences between what was written and what was read: (kind, property, detail)
fn diff(wrote: &BTreeMap<String, Variant>, read: &BTreeMap<String, Variant>) -> Vec<(String, String, String)> {
    let mut out = Vec::new();
    for (k, v) in wrote {
        match read.get(k) {
            None => out.push(("missing".to_string(), k.clone(), format!("wrote `{}`, not read back under this name", short(&coq_value(v))))),
            Some(r) => {
                let (a, b) = (coq_value(v), coq_value(r));
                if a != b {
                    out.push(("changed".to_string(), k.clone(), format!("wrote `{}` read `{}`", short(&a), short(&b))));
                }
            }
        }
    }
    for (k, r) in read {
        if !wrote.contains_key(k) {
            out.push(("extra".to_string(), k.clone(), format!("read back `{}`, never written", short(&coq_value(r)))));
        }
    }
    out
}

/// a plain value of the given type, for the name-closure probe (None: the probe skips the property)
fn sample_value(t: VariantType) -> Option<Variant> {
    use rbx_dom_weak::types::*;
    let v3 = Vector3::new(1.0, 2.0, 3.0);
    Some(match t {
        VariantType::Axes => Variant::Axes(Axes::from_bits(1)?),
        VariantType::BinaryString => Variant::BinaryString(BinaryString::from(vec![1u8, 2, 3])),
        VariantType::Bool => Variant::Bool(true),
        VariantType::BrickColor => Variant::BrickColor(BrickColor::from_number(194)?),
        VariantType::CFrame => Variant::CFrame(CFrame::new(v3, Matrix3::identity())),
        VariantType::Color3 => Variant::Color3(Color3::new(0.0, 1.0, 0.0)),
        VariantType::Color3uint8 => Variant::Color3uint8(Color3uint8::new(1, 2, 3)),
        VariantType::ColorSequence => Variant::ColorSequence(ColorSequence {
            keypoints: vec![ColorSequenceKeypoint::new(0.0, Color3::new(0.0, 0.0, 0.0)), ColorSequenceKeypoint::new(1.0, Color3::new(1.0, 1.0, 1.0))],
        }),
        VariantType::ContentId => Variant::ContentId(ContentId::from("rbxassetid://1")),
        VariantType::Enum => Variant::Enum(Enum::from_u32(1)),
        VariantType::Faces => Variant::Faces(Faces::from_bits(1)?),
        VariantType::Float32 => Variant::Float32(1.5),
        VariantType::Float64 => Variant::Float64(1.5),
        VariantType::Int32 => Variant::Int32(7),
        VariantType::Int64 => Variant::Int64(7),
        VariantType::NumberRange => Variant::NumberRange(NumberRange::new(1.0, 2.0)),
        VariantType::NumberSequence => Variant::NumberSequence(NumberSequence {
            keypoints: vec![NumberSequenceKeypoint::new(0.0, 1.0, 0.0), NumberSequenceKeypoint::new(1.0, 2.0, 0.0)],
        }),
        VariantType::PhysicalProperties => Variant::PhysicalProperties(PhysicalProperties::Default),
        VariantType::Ray => Variant::Ray(Ray::new(v3, v3)),
        VariantType::Rect => Variant::Rect(Rect::new(Vector2::new(1.0, 2.0), Vector2::new(3.0, 4.0))),
        VariantType::Ref => Variant::Ref(Ref::none()),
        VariantType::SharedString => Variant::SharedString(SharedString::new(vec![1u8, 2, 3])),
        VariantType::String => Variant::String("abc".to_string()),
        VariantType::UDim => Variant::UDim(UDim::new(1.0, 2)),
        VariantType::UDim2 => Variant::UDim2(UDim2::new(UDim::new(1.0, 2), UDim::new(3.0, 4))),
        VariantType::Vector2 => Variant::Vector2(Vector2::new(1.0, 2.0)),
        VariantType::Vector3 => Variant::Vector3(v3),
        VariantType::Vector3int16 => Variant::Vector3int16(Vector3int16::new(1, 2, 3)),
        VariantType::OptionalCFrame => Variant::OptionalCFrame(Some(CFrame::new(v3, Matrix3::identity()))),
        VariantType::Tags => Variant::Tags(Tags::new()),
        VariantType::Attributes => Variant::Attributes(Attributes::new()),
        VariantType::Font => Variant::Font(Font::default()),
        VariantType::UniqueId => Variant::UniqueId(UniqueId::new(1, 2, 3)),
        VariantType::MaterialColors => Variant::MaterialColors(MaterialColors::new()),
        VariantType::SecurityCapabilities => Variant::SecurityCapabilities(SecurityCapabilities::from_bits(1)),
        VariantType::Content => Variant::Content(Content::from_uri("rbxassetid://1")),
        _ => return None,
    })
}

/// Name closure (the implementation side of `DbCheck.db_names_roundtrip`): every canonical property that
/// serializes and does not migrate, written alone on an instance of its declaring class with a plain value of
/// its declared type, must come back under its own name.  Returns (probed, skipped).
fn names_probe(orc: &mut impl Write, only: &Option<String>) -> (u64, u64) {
    let db = rbx_reflection_database::get();
    let (mut probed, mut skipped) = (0u64, 0u64);
    for c in sorted_classes(db) {
        if let Some(o) = only {
            if o != c.name.as_ref() {
                continue;
            }
        }
        let class = c.name.as_ref();
        let mut props: Vec<_> = c.properties.values().collect();
        props.sort_by(|a, b| a.name.cmp(&b.name));
        for p in props {
            let ser = match &p.kind {
                PropertyKind::Canonical { serialization } => serialization,
                _ => continue,
            };
            if p.name == "Name" {
                continue; // both codecs store Name as the instance name, not as a property
            }
            if matches!(ser, PropertySerialization::DoesNotSerialize | PropertySerialization::Migrate(_)) {
                continue;
            }
            let ty = match &p.data_type {
                DataType::Value(t) => *t,
                DataType::Enum(_) => VariantType::Enum,
                _ => continue,
            };
            let Some(value) = sample_value(ty) else {
                skipped += 1;
                continue;
            };
            probed += 1;
            let mut one = BTreeMap::new();
            one.insert(p.name.to_string(), value);
            for format in ["bin", "xml"] {
                match roundtrip(format, class, &one) {
                    Err((stage, text)) => writeln!(orc, "{class} C16 {format} name-probe-{stage} {}: {}", p.name, short(&text)).unwrap(),
                    Ok(read) => {
                        if !read.contains_key(p.name.as_ref()) {
                            let got: Vec<String> = read.keys().cloned().collect();
                            writeln!(
                                orc,
                                "{class} C16 {format} name-changed {}: written alone, read back as [{}] (SerializesAs target does not lead back to the property)",
                                p.name,
                                got.join(", ")
                            )
                            .unwrap();
                        }
                    }
                }
            }
        }
    }
    (probed, skipped)
}

pub fn cli(args: &[String]) -> bool {
    let cmd = args.get(1).map(|s| s.as_str()).unwrap_or("");
    if cmd != "dbdefaults-run" {
        return false;
    }
    if args.len() < 5 {
        fail("dbdefaults-run OBS ORACLE STATS [--class NAME]");
    }
    STRICT.store(false, std::sync::atomic::Ordering::Relaxed);
    let only = crate::util::arg_val(args, "--class");
    let dump = crate::util::has_flag(args, "--dump");
    let db = rbx_reflection_database::get();
    let mut obs = std::io::BufWriter::new(std::fs::File::create(&args[2]).unwrap());
    let mut orc = std::io::BufWriter::new(std::fs::File::create(&args[3]).unwrap());
    let (mut nclasses, mut nprops, mut nskipped, mut nfail_classes, mut ncompanion) = (0u64, 0u64, 0u64, 0u64, 0u64);
    let mut by_type: BTreeMap<String, u64> = BTreeMap::new();
    for c in sorted_classes(db) {
        if let Some(o) = &only {
            if o != c.name.as_ref() {
                continue;
            }
        }
        let class = c.name.as_ref();
        let all = chain_defaults(class);
        let props: BTreeMap<String, Variant> = all.iter().filter(|(k, _)| serializes(class, k)).map(|(k, v)| (k.clone(), v.clone())).collect();
        nclasses += 1;
        nprops += props.len() as u64;
        nskipped += (all.len() - props.len()) as u64;
        for v in props.values() {
            *by_type.entry(format!("{:?}", v.ty())).or_insert(0) += 1;
        }
        let mut status = Vec::new();
        for format in ["bin", "xml"] {
            let whole = roundtrip(format, class, &props);
            if dump {
                match &whole {
                    Ok(read) => {
                        for (k, v) in &props {
                            println!("{class} {format} wrote {k} = {}", short(&coq_value(v)));
                        }
                        for (k, v) in read {
                            println!("{class} {format} read  {k} = {}", short(&coq_value(v)));
                        }
                    }
                    Err((stage, text)) => println!("{class} {format} {stage}: {text}"),
                }
            }
            let clean = match &whole {
                Ok(read) => diff(&props, read).is_empty(),
                Err(_) => false,
            };
            status.push(if clean { "ok" } else { "FAIL" });
            if clean {
                continue;
            }
            // attribute the failure: every property alone
            let mut attributed = 0;
            for (k, v) in &props {
                let mut one = BTreeMap::new();
                one.insert(k.clone(), v.clone());
                match roundtrip(format, class, &one) {
                    Err((stage, text)) => {
                        attributed += 1;
                        writeln!(orc, "{class} C16 {format} {stage} {k}: {}", short(&text)).unwrap();
                    }
                    Ok(read) => {
                        for (kind, p, detail) in diff(&one, &read) {
                            attributed += 1;
                            writeln!(orc, "{class} C16 {format} {kind} {p}: (written alone as {k}) {detail}").unwrap();
                        }
                    }
                }
            }
            if attributed == 0 {
                // only the combination fails
                match &whole {
                    Err((stage, text)) => writeln!(orc, "{class} C16 {format} {stage} *: all defaults together: {}", short(text)).unwrap(),
                    Ok(read) => {
                        for (kind, p, detail) in diff(&props, read) {
                            writeln!(orc, "{class} C16 {format} {kind} {p}: (only with all defaults together) {detail}").unwrap();
                        }
                    }
                }
            }
        }
        if !props.is_empty() {
            ncompanion += 1;
            match companion(class, &props) {
                Err((stage, text)) => writeln!(orc, "{class} C16 bin default-fill-{stage} *: {}", short(&text)).unwrap(),
                Ok(lines) => {
                    for (p, detail) in lines {
                        writeln!(orc, "{class} C16 bin default-fill {p}: {detail}").unwrap();
                    }
                }
            }
        }
        if status.iter().any(|s| *s == "FAIL") {
            nfail_classes += 1;
        }
        writeln!(obs, "{class} props={} skipped={} bin={} xml={}", props.len(), all.len() - props.len(), status[0], status[1]).unwrap();
    }
    if only.is_none() {
        for l in reload_database() {
            writeln!(orc, "database C16 reload {l}").unwrap();
        }
    }
    let (nprobed, nprobe_skipped) = names_probe(&mut orc, &only);
    let types: Vec<String> = by_type.iter().map(|(k, v)| format!("\"{}\": {}", k, v)).collect();
    let mut st = std::fs::File::create(&args[4]).unwrap();
    writeln!(
        st,
        "{{\"classes\": {}, \"companion_files\": {}, \"default_properties_written\": {}, \"defaults_not_serializable_skipped\": {}, \"classes_not_unchanged\": {}, \"name_probe_properties\": {}, \"name_probe_skipped_no_sample_value\": {}, \"by_type\": {{{}}}}}",
        nclasses, ncompanion, nprops, nskipped, nfail_classes, nprobed, nprobe_skipped, types.join(", ")
    )
    .unwrap();
    true
}
