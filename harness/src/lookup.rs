//! lookup: exhaustive correspondence of BOTH Rust copies of `find_property_descriptors`
//! (rbx_binary/src/core.rs through `rbx_binary::verif`, rbx_xml/src/core.rs through `rbx_xml::verif`)
//! with `Db.find_desc_bin` / `Db.find_desc_xml` on the regenerated database.
//!
//!   lookup-gen --out FILE            one case per database class: every property name that occurs in
//!                                    the class chain + names that occur nowhere; plus unknown classes
//!   lookup-run CASES OBS ORACLE STATS
//!
//! Observation per query (one line, same text printed by ocaml/run_lookup.ml):
//!   B <canonical>:<type>|<serialized>:<type>   X <canonical>:<type>|<serialized>:<type>
//!   D <owner class>:V<variant type>            (ReflectionDatabase::find_default_property; model: DbOwner.find_default_owner)
//!   S <class>><superclass>>...                  (ReflectionDatabase::superclasses; model: DbOwner.chain_obs), once per class
//! with `-` for an absent result / absent serialized descriptor and `PANIC` for a panic.
//! Oracle lines (`<case> C16 <message>`): a lookup panicked, or the two copies disagree in a way
//! other than the DoesNotSerialize difference (binary: canonical without serialized; xml: nothing).
use super::{fail, sorted_classes};
use rbx_reflection::{DataType, PropertyDescriptor};
use std::collections::BTreeSet;
use std::io::Write;
use std::panic::{catch_unwind, AssertUnwindSafe};

const UNKNOWN_PROPS: [&str; 3] = ["NoSuchProperty", "nAME", "Zz9"];
const UNKNOWN_CLASSES: [&str; 3] = ["NoSuchClass", "part", "INSTANCE"];

fn ty(d: &PropertyDescriptor) -> String {
    match &d.data_type {
        DataType::Value(vt) => format!("V{}", super::vt_num(*vt)),
        DataType::Enum(n) => format!("E{}", n),
        other => fail(&format!("DataType {:?}", other)),
    }
}
fn desc(d: &PropertyDescriptor) -> String {
    format!("{}:{}", d.name, ty(d))
}

pub fn observe(class: &str, prop: &str) -> (String, String) {
    let db = rbx_reflection_database::get();
    let b = catch_unwind(AssertUnwindSafe(|| {
        match rbx_binary::verif::find_property_descriptors(db, rbx_dom_weak::ustr(class), rbx_dom_weak::ustr(prop)) {
            None => "-".to_string(),
            Some(d) => format!("{}|{}", desc(d.canonical), d.serialized.map(desc).unwrap_or_else(|| "-".to_string())),
        }
    }))
    .unwrap_or_else(|_| "PANIC".to_string());
    let x = catch_unwind(AssertUnwindSafe(|| {
        let c = rbx_xml::verif::find_canonical_property_descriptor(class, prop, db);
        let s = rbx_xml::verif::find_serialized_property_descriptor(class, prop, db);
        match (c, s) {
            (None, None) => "-".to_string(),
            (Some(c), Some(s)) => format!("{}|{}", desc(c), desc(s)),
            // the two public wrappers project one private function: they are both Some or both None
            (Some(c), None) => format!("{}|!", desc(c)),
            (None, Some(s)) => format!("!|{}", desc(s)),
        }
    }))
    .unwrap_or_else(|_| "PANIC".to_string());
    (b, x)
}

/// `ReflectionDatabase::find_default_property` observed as `<owner class>:V<variant type>` (`-` none, `noclass`, `PANIC`),
/// and the same computed by an independent nearest-ancestor walk (the oracle's expectation)
pub fn observe_default(class: &str, prop: &str) -> (String, String) {
    let db = rbx_reflection_database::get();
    let Some(cd) = db.classes.get(class) else { return ("noclass".to_string(), "noclass".to_string()) };
    let owner_of = |v: &rbx_types::Variant| -> String {
        let mut cur = Some(cd);
        let mut steps = 0usize;
        while let Some(c) = cur {
            if let Some(w) = c.default_properties.get(prop) {
                if std::ptr::eq(w, v) {
                    return c.name.to_string();
                }
            }
            cur = c.superclass.as_ref().and_then(|s| db.classes.get(s.as_ref()));
            steps += 1;
            if steps > db.classes.len() {
                break;
            }
        }
        "?".to_string()
    };
    let got = catch_unwind(AssertUnwindSafe(|| match db.find_default_property(cd, prop) {
        None => "-".to_string(),
        Some(v) => format!("{}:V{}", owner_of(v), super::vt_num(v.ty())),
    }))
    .unwrap_or_else(|_| "PANIC".to_string());
    let mut want = "-".to_string();
    let mut cur = Some(cd);
    let mut steps = 0usize;
    while let Some(c) = cur {
        if let Some(w) = c.default_properties.get(prop) {
            want = format!("{}:V{}", c.name, super::vt_num(w.ty()));
            break;
        }
        cur = c.superclass.as_ref().and_then(|s| db.classes.get(s.as_ref()));
        steps += 1;
        if steps > db.classes.len() {
            break;
        }
    }
    (got, want)
}

/// `ReflectionDatabase::superclasses` observed as `A>B>...` (`noclass`, `PANIC`), and what the property's first clause
/// demands of the three chain functions: `superclasses`, `superclasses_iter` and `has_superclass` describe the same
/// chain, the chain follows the `superclass` fields and ends at a class without superclass (oracle lines)
pub fn observe_chain(class: &str, orc: &mut Vec<String>) -> String {
    let db = rbx_reflection_database::get();
    let Some(cd) = db.classes.get(class) else { return "noclass".to_string() };
    // the chain by the `superclass` fields alone
    let mut want: Vec<String> = Vec::new();
    let mut cur = Some(cd);
    while let Some(c) = cur {
        want.push(c.name.to_string());
        if want.len() > db.classes.len() {
            break;
        }
        cur = c.superclass.as_ref().and_then(|s| db.classes.get(s.as_ref()));
    }
    let got = catch_unwind(AssertUnwindSafe(|| db.superclasses(cd).map(|l| l.iter().map(|c| c.name.to_string()).collect::<Vec<_>>())));
    let got = match got {
        Err(_) => {
            orc.push(format!("superclasses({class}) panics"));
            return "PANIC".to_string();
        }
        Ok(None) => {
            orc.push(format!("superclasses({class}) returns None for a class of the database"));
            return "-".to_string();
        }
        Ok(Some(l)) => l,
    };
    if got != want {
        orc.push(format!("superclasses({class}) = {} but the superclass fields give {}", got.join(">"), want.join(">")));
    }
    let it: Vec<String> = db.superclasses_iter(cd).take(db.classes.len() + 1).map(|c| c.name.to_string()).collect();
    if it != want {
        orc.push(format!("superclasses_iter({class}) = {} but the superclass fields give {}", it.join(">"), want.join(">")));
    }
    if let Some(last) = got.last().and_then(|n| db.classes.get(n.as_str())) {
        if last.superclass.is_some() {
            orc.push(format!("the chain superclasses({class}) stops at {} which is not a root class (its superclass is {:?})", last.name, last.superclass));
        }
    }
    for a in &want {
        if let Some(ad) = db.classes.get(a.as_str()) {
            if !db.has_superclass(cd, ad) {
                orc.push(format!("has_superclass({class}, {a}) is false although {a} is on the superclass chain of {class}"));
            }
        }
    }
    for other in ["Instance", "Part", "Folder", "DataModel", "ValueBase"] {
        if let Some(od) = db.classes.get(other) {
            if !want.iter().any(|w| w == other) && db.has_superclass(cd, od) {
                orc.push(format!("has_superclass({class}, {other}) is true although {other} is not on the superclass chain of {class}"));
            }
        }
    }
    got.join(">")
}

fn chain_names(class: &str) -> BTreeSet<String> {
    let db = rbx_reflection_database::get();
    let mut names = BTreeSet::new();
    let mut cur = db.classes.get(class);
    let mut steps = 0;
    while let Some(c) = cur {
        for k in c.properties.keys() {
            names.insert(k.to_string());
        }
        for k in c.default_properties.keys() {
            names.insert(k.to_string());
        }
        cur = c.superclass.as_ref().and_then(|s| db.classes.get(s.as_ref()));
        steps += 1;
        if steps > db.classes.len() {
            break; // cyclic chain: the coherence check reports it; do not hang here
        }
    }
    names
}

pub fn cli(args: &[String]) -> bool {
    let cmd = args.get(1).map(|s| s.as_str()).unwrap_or("");
    match cmd {
        "lookup-gen" => {
            let out = crate::util::arg_val(args, "--out").unwrap_or_else(|| fail("--out FILE"));
            let db = rbx_reflection_database::get();
            let mut f = std::io::BufWriter::new(std::fs::File::create(out).unwrap());
            for c in sorted_classes(db) {
                writeln!(f, "case {}", c.name).unwrap();
                writeln!(f, "class {}", c.name).unwrap();
                for n in chain_names(&c.name) {
                    writeln!(f, "p {}", n).unwrap();
                }
                for n in UNKNOWN_PROPS {
                    writeln!(f, "p {}", n).unwrap();
                }
                writeln!(f, "end").unwrap();
            }
            for (k, c) in UNKNOWN_CLASSES.iter().enumerate() {
                writeln!(f, "case unknown-class-{}", k).unwrap();
                writeln!(f, "class {}", c).unwrap();
                for n in ["Name", "Archivable", "NoSuchProperty"] {
                    writeln!(f, "p {}", n).unwrap();
                }
                writeln!(f, "end").unwrap();
            }
            true
        }
        "lookup-run" => {
            if args.len() < 6 {
                fail("lookup-run CASES OBS ORACLE STATS");
            }
            let cases = crate::util::read_cases(&args[2]);
            let mut obs = std::io::BufWriter::new(std::fs::File::create(&args[3]).unwrap());
            let mut orc = std::io::BufWriter::new(std::fs::File::create(&args[4]).unwrap());
            let (mut nq, mut nsome, mut ndiff, mut nalias, mut nseras) = (0u64, 0u64, 0u64, 0u64, 0u64);
            for (id, lines) in &cases {
                writeln!(obs, "case {id}").unwrap();
                let mut class = String::new();
                for l in lines {
                    if let Some(c) = l.strip_prefix("class ") {
                        class = c.to_string();
                        let mut lines: Vec<String> = Vec::new();
                        let chain = observe_chain(&class, &mut lines);
                        writeln!(obs, "S {chain}").unwrap();
                        for m in lines {
                            writeln!(orc, "{id} C16 {m}").unwrap();
                        }
                        continue;
                    }
                    let Some(p) = l.strip_prefix("p ") else { continue };
                    let (b, x) = observe(&class, p);
                    let (dgot, dwant) = observe_default(&class, p);
                    nq += 1;
                    writeln!(obs, "B {b} X {x} D {dgot}").unwrap();
                    if dgot != dwant {
                        writeln!(orc, "{id} C16 find_default_property({class}, {p}) gives `{dgot}`; the nearest class of the superclass chain that has a default for it gives `{dwant}`").unwrap();
                    }
                    if b == "PANIC" || x == "PANIC" {
                        writeln!(orc, "{id} C16 descriptor lookup of {class}.{p} panics (binary: {b}; xml: {x})").unwrap();
                        continue;
                    }
                    if b != "-" {
                        nsome += 1;
                        let canon = b.split('|').next().unwrap().split(':').next().unwrap();
                        let ser = b.split('|').nth(1).unwrap().split(':').next().unwrap();
                        if canon != p {
                            nalias += 1;
                        }
                        if ser != "-" && ser != canon {
                            nseras += 1;
                        }
                    }
                    // the only permitted difference: DoesNotSerialize (binary `canon|-`, xml `-`)
                    let agree = b == x || (x == "-" && b.ends_with("|-"));
                    if !agree {
                        writeln!(orc, "{id} C16 the two copies of find_property_descriptors disagree on {class}.{p}: binary `{b}` xml `{x}`").unwrap();
                    }
                    if b != x {
                        ndiff += 1;
                    }
                }
                writeln!(obs, "end").unwrap();
            }
            let mut st = std::fs::File::create(&args[5]).unwrap();
            writeln!(
                st,
                "{{\"cases\": {}, \"queries\": {}, \"resolved\": {}, \"through_alias\": {}, \"serialized_under_other_name\": {}, \"does_not_serialize_difference\": {}, \"distinct_nontrivial\": {}}}",
                cases.len(), nq, nsome, nalias, nseras, ndiff, nsome
            )
            .unwrap();
            true
        }
        _ => false,
    }
}
