//! xmlbin: the XML side of C06 -- the DOM decoded from the XML encoding of a source DOM against the DOM decoded from
//! its binary encoding (both through the public APIs).  Only DOMs inside C06's quantifier are compared: database
//! classes, serializable non-migrating properties carrying a value of the declared type, one spelling per property.
use crate::xmlfile::*;
use crate::xmloracle::{decoded_order, norm_nan};
use rbx_dom_weak::WeakDom;
use rbx_reflection::{PropertyKind, PropertySerialization};
use rbx_types::*;
use rbx_xml::verif::{find_canonical_property_descriptor, find_serialized_property_descriptor};
use rbx_dom_weak::types::VariantType;
use std::collections::{BTreeMap, BTreeSet, HashMap};

/// is the property (spelling `k` of class `class`, value `v`) inside C06's quantifier?  Returns the canonical name it denotes.
/// Serializable (Serializes or SerializesAs), non-migrating, reached through its canonical or an alias name, carrying a value
/// of the declared type which is also the serialized type; Refs point at written instances.
pub fn prop_scope(class: &str, k: &str, v: &Variant, labels: &BTreeSet<u64>) -> Option<String> {
    let (c, s) = match (find_canonical_property_descriptor(class, k, db()), find_serialized_property_descriptor(class, k, db())) {
        (Some(c), Some(s)) => (c, s),
        _ => return None,
    };
    if !matches!(&s.kind, PropertyKind::Canonical { serialization: PropertySerialization::Serializes }) && s.name == c.name {
        return None;
    }
    if is_migrate(c) || is_migrate(s) || k == "Name" {
        return None;
    }
    let (ct, st) = (data_type_vt(&c.data_type), data_type_vt(&s.data_type));
    // a value of the declared type, or one of the kinds both formats coerce to it in the same way (Proofs/CrossFormat.v:
    // cross_int32_as_int64, cross_float32_as_float64, cross_color3_as_color3uint8)
    let coercible = ct == st
        && matches!(
            (v.ty(), ct),
            (VariantType::Int32, VariantType::Int64) | (VariantType::Float32, VariantType::Float64) | (VariantType::Color3, VariantType::Color3uint8)
        );
    if !coercible && (v.ty() != ct || v.ty() != st) {
        return None;
    }
    match v {
        Variant::Ref(r) if r.is_some() => {
            if !(1..=64u64).any(|l| crate::val::synthetic_ref(l) == *r && labels.contains(&l)) {
                return None;
            }
        }
        Variant::Content(c) if matches!(c.value(), ContentType::Object(_)) => return None,
        Variant::Region3(_) | Variant::Region3int16(_) | Variant::EnumItem(_) | Variant::Vector2int16(_) => return None,
        Variant::ColorSequence(s) if s.keypoints.len() < 2 => return None,
        Variant::NumberSequence(s) if s.keypoints.len() < 2 => return None,
        _ => {}
    }
    Some(c.name.to_string())
}

fn in_scope(f: &Forest) -> bool {
    let labels: BTreeSet<u64> = f.nodes.iter().map(|n| n.label).collect();
    let tops: Vec<u64> = f.nodes.iter().filter(|n| n.parent == 0).map(|n| n.label).collect();
    if f.roots != tops || f.roots.is_empty() {
        return false;
    }
    // a well-formed source DOM holds every UniqueId once (the harness plants equal ids for C12 by by-passing insert)
    let mut ids = BTreeSet::new();
    for n in &f.nodes {
        for (_, v) in &n.props {
            if let Variant::UniqueId(u) = v {
                if !ids.insert((u.index(), u.time(), u.random())) {
                    return false;
                }
            }
        }
    }
    for n in &f.nodes {
        if !db().classes.contains_key(n.class.as_str()) {
            return false;
        }
        let mut canon_names = BTreeSet::new();
        for (k, v) in &n.props {
            match prop_scope(&n.class, k, v, &labels) {
                Some(cn) => {
                    if !canon_names.insert(cn) {
                        return false;
                    }
                }
                None => return false,
            }
        }
    }
    true
}

pub fn c06_check(id: &str, f: &Forest, dom: &WeakDom, roots: &[Ref], dx: &WeakDom, stats: &mut BTreeMap<String, u64>, out: &mut Vec<String>) {
    if !in_scope(f) {
        return;
    }
    *stats.entry("c06_checked".into()).or_insert(0) += 1;
    let bin = std::panic::catch_unwind(std::panic::AssertUnwindSafe(|| {
        let mut buf = Vec::new();
        rbx_binary::to_writer(&mut buf, dom, roots).map_err(|e| e.to_string())?;
        rbx_binary::from_reader(buf.as_slice()).map_err(|e| e.to_string())
    }));
    let db_ = match bin {
        Ok(Ok(d)) => d,
        Ok(Err(m)) => {
            out.push(format!("{id} C06 bin-fail the binary encoding of the same DOM could not be written or read: {}", m.chars().take(160).collect::<String>()));
            return;
        }
        Err(_) => {
            out.push(format!("{id} C06 bin-fail the binary codec panicked on the same DOM"));
            return;
        }
    };
    let (ox, ob) = (decoded_order(dx), decoded_order(&db_));
    if ox.len() != ob.len() {
        out.push(format!("{id} C06 tree XML decodes to {} instances, binary to {}", ox.len(), ob.len()));
        return;
    }
    let lx: HashMap<Ref, u64> = ox.iter().enumerate().map(|(i, r)| (*r, i as u64 + 1)).collect();
    let lb: HashMap<Ref, u64> = ob.iter().enumerate().map(|(i, r)| (*r, i as u64 + 1)).collect();
    let show = |v: &Variant, l: &HashMap<Ref, u64>| -> String {
        let mut ctx = crate::val::RefCtx::new();
        for (r, k) in l {
            ctx.bind(*k, *r);
        }
        let v2 = match v {
            Variant::Ref(r) if r.is_some() && !l.contains_key(r) => Variant::Ref(Ref::none()),
            Variant::MaterialColors(m) => Variant::BinaryString(m.encode().into()),
            o => o.clone(),
        };
        let s = crate::val::value_string(&norm_nan(&v2), &mut ctx);
        if s.len() > 120 { format!("{}...", &s[..(0..=120).rev().find(|i| s.is_char_boundary(*i)).unwrap_or(0)]) } else { s }
    };
    // source instances in pre-order give the property names that were explicitly set
    let mut src: Vec<&Node> = Vec::new();
    fn walk<'a>(f: &'a Forest, l: u64, out: &mut Vec<&'a Node>) {
        for n in f.nodes.iter().filter(|n| n.parent == l) {
            out.push(n);
            walk(f, n.label, out);
        }
    }
    walk(f, 0, &mut src);
    // per class: the read-back names that two DIFFERENT canonical properties, set on any instances of the class, are
    // returned under (two canonical properties sharing one serialized name: Sound.MaxDistance / RollOffMaxDistance ...).
    // The binary format then holds two columns that read back as one property, and an instance's own value can be
    // replaced by the other column's default: recorded class `shared-name-siblings`.
    let mut by_class: BTreeMap<String, BTreeMap<String, BTreeSet<String>>> = BTreeMap::new();
    for n in &src {
        for (k, _) in &n.props {
            if let Some(c) = find_canonical_property_descriptor(&n.class, k, db()) {
                let rb = find_serialized_property_descriptor(&n.class, &c.name, db())
                    .and_then(|s| find_canonical_property_descriptor(&n.class, &s.name, db()))
                    .map(|x| x.name.to_string())
                    .unwrap_or_else(|| c.name.to_string());
                by_class.entry(n.class.clone()).or_default().entry(rb).or_default().insert(c.name.to_string());
            }
        }
    }
    let shared_across = |class: &str, rb: &str| -> bool { by_class.get(class).and_then(|m| m.get(rb)).map(|s| s.len() > 1).unwrap_or(false) };
    for (i, n) in src.iter().enumerate() {
        let (ix, ib) = (dx.get_by_ref(ox[i]).unwrap(), db_.get_by_ref(ob[i]).unwrap());
        if ix.class == ib.class && lx.get(&ix.parent()) == lb.get(&ib.parent()) && ix.name != ib.name {
            out.push(format!("{id} C06 name instance #{} of class {} is named {:?} after the XML round trip and {:?} after the binary one", i + 1, ix.class, ix.name, ib.name));
            continue;
        }
        if ix.class != ib.class || ix.name != ib.name || lx.get(&ix.parent()) != lb.get(&ib.parent()) {
            out.push(format!("{id} C06 tree instance #{} differs: XML {}/{:?}, binary {}/{:?}", i + 1, ix.class, ix.name, ib.class, ib.name));
            return;
        }
        let explicit_canon: BTreeSet<String> = n.props.iter().map(|(k, _)| find_canonical_property_descriptor(&n.class, k, db()).unwrap().name.to_string()).collect();
        // the canonical name a reader gives back for what was written under the property's serialized name (differs from the
        // property's own canonical name where two canonical properties share one serialized name: C01 `canonical-name-changes`)
        let readback = |cn: &str| -> String {
            find_serialized_property_descriptor(&n.class, cn, db())
                .and_then(|s| find_canonical_property_descriptor(&n.class, &s.name, db()))
                .map(|c| c.name.to_string())
                .unwrap_or_else(|| cn.to_string())
        };
        let explicit_rb: Vec<String> = explicit_canon.iter().map(|c| readback(c)).collect();
        for (k, v) in &n.props {
            let cn0 = find_canonical_property_descriptor(&n.class, k, db()).unwrap().name.to_string();
            let cn = readback(&cn0);
            if explicit_rb.iter().filter(|x| **x == cn).count() > 1 {
                // two explicitly set properties are read back under one name: which value survives is C01's recorded finding;
                // C06 compares the survivor once, below, through the name-set rule
                *stats.entry("c06_skipped_shared_serialized_name".into()).or_insert(0) += 1;
                continue;
            }
            let (px, pb) = (ix.properties.get(&cn.as_str().into()), ib.properties.get(&cn.as_str().into()));
            match (px, pb) {
                (Some(a), Some(b)) => {
                    let (sa, sb) = (show(a, &lx), show(b, &lb));
                    if sa != sb {
                        if shared_across(&n.class, &cn) {
                            out.push(format!("{id} C06 shared-name-siblings {}.{cn}: XML decodes to {sa}, binary to {sb} (instances of the class set two canonical properties that are read back under this one name)", n.class));
                        } else {
                            out.push(format!("{id} C06 value-{:?} {}.{cn}: XML decodes to {sa}, binary to {sb}", v.ty(), n.class));
                        }
                    }
                }
                (None, Some(_)) => out.push(format!("{id} C06 missing-xml {}.{cn} ({:?}) is present after the binary round trip only", n.class, v.ty())),
                (Some(_), None) => out.push(format!("{id} C06 missing-bin {}.{cn} ({:?}) is present after the XML round trip only", n.class, v.ty())),
                (None, None) => {
                    // both readers may return the property under another canonical name (two canonical properties sharing one
                    // serialized name: C01's recorded `canonical-name-changes`); C06 asks that they agree with each other
                    out.push(format!("{id} C06 missing-both {}.{cn} ({:?}) was set explicitly and is lost by both formats", n.class, v.ty()))
                }
            }
        }
        // survivors of shared serialized names: both decoders must hold the same value
        for cn in explicit_rb.iter().collect::<BTreeSet<_>>() {
            if explicit_rb.iter().filter(|x| *x == cn).count() > 1 {
                match (ix.properties.get(&cn.as_str().into()), ib.properties.get(&cn.as_str().into())) {
                    (Some(a), Some(b)) => {
                        if show(a, &lx) != show(b, &lb) {
                            out.push(format!("{id} C06 value-shared-name {}.{cn}: XML decodes to {}, binary to {}", n.class, show(a, &lx), show(b, &lb)));
                        }
                    }
                    (None, None) => {}
                    (a, _) => out.push(format!("{id} C06 missing-{} {}.{cn} is present after one round trip only", if a.is_some() { "bin" } else { "xml" }, n.class)),
                }
            }
        }
        // a property the XML decoder returns and the binary decoder does not (the binary format alone may ADD defaults, never XML)
        for (kx, vx) in ix.properties.iter() {
            if !explicit_canon.contains(kx.as_str()) && !explicit_rb.iter().any(|x| x == kx.as_str()) && !ib.properties.contains_key(kx) {
                out.push(format!("{id} C06 missing-bin {}.{} ({:?}) is present after the XML round trip only (not set under that name in the source)", n.class, kx, vx.ty()));
            }
        }
    }
}
