//! binbytes: outcome-class correspondence of `rbx_binary::from_reader` on arbitrary bytes (kind
//! `binbytes`, property C13).  The implementation side of each case runs in a worker process (an abort
//! on a failed allocation or a hang must not take the run down).
//!
//!   binbytes-gen --seed S --cases N --out FILE [--all-prefixes K] [--prefix P]
//!   binbytes-run CASES OBS ORACLE STATS          (also writes CASES.hints: inflate results)
//!   binbytes-worker CASES START OUT HINTS        (internal)
//!
//! Case: `opt kind <mutation>` [`opt prefix 1` = strict prefix of a valid file] `bytes <hex>`.
//! Observation: `OK` + the decoded DOM (UniqueId values masked) / `ERR <class>` / `PANIC` / `ABORT` /
//! `TIMEOUT`.  Hints: `inflate <compressed-hex> <len-hex> OK <hex> | ERR eof | ERR io | BIG` for every
//! compressed chunk the chunk loop meets (what lz4 / zstd return for it; BIG = the header announces
//! more than 64 MiB, not inflated).
//! Oracle lines (implementation only): `<case> C13 panic-<site> ..`, `abort`, `hang`,
//! `ok-on-strict-prefix`.
use crate::binfile::{dec_err_class, guarded};
use crate::forest::{self, Catalogue, GenCfg};
use crate::rng::Rng;
use crate::util::*;
use crate::val::{hex, unhex, RefCtx};
use rbx_binary::CompressionType;
use rbx_types::Ref;
use std::collections::{BTreeMap, HashSet};
use std::io::Write;
use std::time::{Duration, Instant};

const BIG: u64 = 64 << 20;

// ------------------------------------------------------------------------------------------ generator

fn base_files(rng: &mut Rng, cat: &mut Catalogue, n: usize) -> Vec<(CompressionType, Vec<u8>)> {
    let mut out = Vec::new();
    let cfg = GenCfg { max_nodes: 6, unknown_pct: 40, same_class: false, hostile: false };
    let mut guard = 0;
    while out.len() < n && guard < n * 20 {
        guard += 1;
        let mut r = rng.fork();
        let f = forest::gen_forest(&mut r, cat, &cfg);
        if f.nodes.len() > 8 {
            continue;
        }
        let mut ctx = RefCtx::new();
        let dom = forest::build_dom(&f, &mut ctx);
        let roots: Vec<Ref> = f.roots.iter().map(|l| ctx.ref_of(*l)).collect();
        let c = *rng.pick(&[CompressionType::None, CompressionType::None, CompressionType::Lz4, CompressionType::Zstd]);
        if let crate::binfile::Enc::Bytes(b) = crate::binfile::encode(&dom, &roots, c) {
            if b.len() < 6000 {
                out.push((c, b));
            }
        }
    }
    out
}

/// offsets of the chunk headers of a (valid) file
fn chunk_offsets(b: &[u8]) -> Vec<usize> {
    let mut v = Vec::new();
    let mut pos = 32;
    while pos + 16 <= b.len() {
        v.push(pos);
        let clen = u32::from_le_bytes([b[pos + 4], b[pos + 5], b[pos + 6], b[pos + 7]]) as usize;
        let len = u32::from_le_bytes([b[pos + 8], b[pos + 9], b[pos + 10], b[pos + 11]]) as usize;
        pos += 16 + if clen == 0 { len } else { clen };
    }
    v
}

fn edit_value(old: u32, rng: &mut Rng) -> u32 {
    match rng.below(10) {
        0 => 0,
        1 => 1,
        2 => u32::MAX,
        3 => old.wrapping_add(1),
        4 => old.wrapping_sub(1),
        5 => 0x7fff_ffff,
        6 => 0x8000_0000,
        7 => old.wrapping_mul(2),
        8 => rng.below(70_000) as u32,
        _ => rng.next() as u32,
    }
}

fn mutate(kind: u64, base: &[u8], other: &[u8], rng: &mut Rng) -> (Vec<u8>, bool) {
    let mut b = base.to_vec();
    let mut prefix = false;
    match kind {
        1 => {
            let k = rng.below(b.len() as u64) as usize;
            b.truncate(k);
            prefix = true;
        }
        2 => {
            for _ in 0..rng.range(1, 3) {
                let i = rng.below(b.len() as u64) as usize;
                b[i] ^= 1 << rng.below(8);
            }
        }
        3 => {
            for _ in 0..rng.range(1, 4) {
                let i = rng.below(b.len() as u64) as usize;
                b[i] = match rng.below(4) {
                    0 => 0,
                    1 => 0xff,
                    2 => 0x80,
                    _ => rng.next() as u8,
                };
            }
        }
        4 => {
            // a 32-bit field: a chunk header field, a header count, or any offset
            let offs = chunk_offsets(&b);
            let at = match rng.below(4) {
                0 if !offs.is_empty() => *rng.pick(&offs) + 4 * rng.range(1, 3) as usize,
                1 => 16 + 4 * rng.below(2) as usize,
                2 if !offs.is_empty() => *rng.pick(&offs) + 16 + 4 * rng.below(4) as usize,
                _ => rng.below(b.len().saturating_sub(4).max(1) as u64) as usize,
            };
            if at + 4 <= b.len() {
                let old = u32::from_le_bytes([b[at], b[at + 1], b[at + 2], b[at + 3]]);
                b[at..at + 4].copy_from_slice(&edit_value(old, rng).to_le_bytes());
            }
        }
        5 => {
            // chunk splicing
            let offs = chunk_offsets(&b);
            if offs.len() >= 2 {
                let mut chunks: Vec<Vec<u8>> = Vec::new();
                for (i, o) in offs.iter().enumerate() {
                    let end = if i + 1 < offs.len() { offs[i + 1] } else { b.len() };
                    chunks.push(b[*o..end.min(b.len())].to_vec());
                }
                match rng.below(5) {
                    0 => {
                        let i = rng.below(chunks.len() as u64) as usize;
                        chunks.remove(i);
                    }
                    1 => {
                        let i = rng.below(chunks.len() as u64) as usize;
                        let c = chunks[i].clone();
                        let j = rng.below(chunks.len() as u64 + 1) as usize;
                        chunks.insert(j, c);
                    }
                    2 => {
                        let i = rng.below(chunks.len() as u64) as usize;
                        let j = rng.below(chunks.len() as u64) as usize;
                        chunks.swap(i, j);
                    }
                    3 => {
                        let oo = chunk_offsets(other);
                        if !oo.is_empty() {
                            let i = rng.below(oo.len() as u64) as usize;
                            let end = if i + 1 < oo.len() { oo[i + 1] } else { other.len() };
                            let j = rng.below(chunks.len() as u64 + 1) as usize;
                            chunks.insert(j, other[oo[i]..end.min(other.len())].to_vec());
                        }
                    }
                    _ => {
                        // an unknown chunk name / a META chunk
                        let mut c = b"XYZW".to_vec();
                        if rng.chance(50) {
                            c = b"META".to_vec();
                        }
                        let body: Vec<u8> = (0..rng.below(12)).map(|_| rng.next() as u8).collect();
                        c.extend_from_slice(&0u32.to_le_bytes());
                        c.extend_from_slice(&(body.len() as u32).to_le_bytes());
                        c.extend_from_slice(&0u32.to_le_bytes());
                        c.extend_from_slice(&body);
                        let j = rng.below(chunks.len() as u64) as usize;
                        chunks.insert(j, c);
                    }
                }
                let mut nb = b[..32.min(b.len())].to_vec();
                for c in chunks {
                    nb.extend_from_slice(&c);
                }
                b = nb;
            }
        }
        6 => {
            let k = rng.below(200) as usize;
            let tail: Vec<u8> = (0..k).map(|_| rng.next() as u8).collect();
            if rng.chance(70) {
                b.truncate(32.min(b.len()));
            } else {
                b.clear();
            }
            b.extend_from_slice(&tail);
        }
        7 => {
            if rng.chance(50) {
                let k = rng.below(20) as usize;
                b.extend((0..k).map(|_| rng.next() as u8));
            }
        }
        _ => {}
    }
    (b, prefix)
}

// ------------------------------------------------------------------------------------------ worker

/// what lz4 / zstd return for the compressed chunks the chunk loop meets, through Chunk::decode on a
/// re-framed copy of each chunk
fn inflate_hints(bytes: &[u8]) -> Vec<String> {
    let mut out = Vec::new();
    if bytes.len() < 32 {
        return out;
    }
    let mut pos = 32;
    let mut seen = HashSet::new();
    while pos + 16 <= bytes.len() {
        let name = &bytes[pos..pos + 4];
        let clen = u32::from_le_bytes([bytes[pos + 4], bytes[pos + 5], bytes[pos + 6], bytes[pos + 7]]) as u64;
        let len = u32::from_le_bytes([bytes[pos + 8], bytes[pos + 9], bytes[pos + 10], bytes[pos + 11]]) as u64;
        let reserved = u32::from_le_bytes([bytes[pos + 12], bytes[pos + 13], bytes[pos + 14], bytes[pos + 15]]);
        if reserved != 0 {
            break;
        }
        let body = if clen == 0 { len } else { clen };
        let start = pos + 16;
        let end = (start as u64 + body).min(bytes.len() as u64) as usize;
        if clen != 0 {
            let comp = &bytes[start..end];
            if seen.insert((comp.to_vec(), len)) {
                if len > BIG || clen > BIG {
                    out.push(format!("inflate {} {:x} BIG", hex(comp), len));
                } else {
                    let mut framed = b"XXXX".to_vec();
                    framed.extend_from_slice(&(comp.len() as u32).to_le_bytes());
                    framed.extend_from_slice(&(len as u32).to_le_bytes());
                    framed.extend_from_slice(&0u32.to_le_bytes());
                    framed.extend_from_slice(comp);
                    let r = if comp.is_empty() {
                        // compressed_len != 0 but nothing left: the re-framed copy would be read as uncompressed
                        Err("io".to_string())
                    } else {
                        match guarded(|| rbx_binary::verif::Chunk::decode(&framed[..])) {
                            Ok(Ok(c)) => Ok(c.data),
                            Ok(Err(e)) => Err(if e.to_string().starts_with("chunk payload is") { "eof".to_string() } else { "io".to_string() }),
                            Err(_) => Err("panic".to_string()),
                        }
                    };
                    match r {
                        Ok(d) => out.push(format!("inflate {} {:x} OK {}", hex(comp), len, hex(&d))),
                        Err(k) => out.push(format!("inflate {} {:x} ERR {k}", hex(comp), len)),
                    }
                }
            }
        }
        if (start as u64 + body) > bytes.len() as u64 || name == b"END\0" {
            break;
        }
        pos = end;
    }
    out
}

fn case_bytes(lines: &[String]) -> Vec<u8> {
    for l in lines {
        if let Some(h) = l.strip_prefix("bytes ") {
            return unhex(h.trim()).unwrap_or_default();
        }
    }
    Vec::new()
}

fn is_prefix_case(lines: &[String]) -> bool {
    lines.iter().any(|l| l.trim() == "opt prefix 1")
}

fn worker(cases_path: &str, start: usize, out_path: &str, hints_path: &str) {
    unsafe {
        let lim = libc::rlimit { rlim_cur: 8 << 30, rlim_max: 8 << 30 };
        libc::setrlimit(libc::RLIMIT_AS, &lim);
    }
    let cases = read_cases(cases_path);
    let mut out = std::fs::OpenOptions::new().create(true).append(true).open(out_path).expect("out");
    let mut hints = std::fs::OpenOptions::new().create(true).append(true).open(hints_path).expect("hints");
    let masked: HashSet<(u32, u32, i64)> = HashSet::new();
    for (k, (id, lines)) in cases.iter().enumerate().skip(start) {
        // announce the case first: if the process dies, the parent knows which one it was
        writeln!(out, "begin {k}").unwrap();
        out.flush().unwrap();
        let b = case_bytes(lines);
        let h = inflate_hints(&b);
        let mut ht = format!("case {id}\n");
        for l in &h {
            ht.push_str(l);
            ht.push('\n');
        }
        ht.push_str("end\n");
        hints.write_all(ht.as_bytes()).unwrap();
        hints.flush().unwrap();
        let mut block = Vec::new();
        match crate::binfile::decode(&b) {
            crate::binfile::Dec::Dom(d) => {
                block.push("OK".to_string());
                block.extend(forest::print_dom_opts(&d, Some(&masked)));
            }
            crate::binfile::Dec::Err(c, m) => {
                block.push(format!("ERR {c}"));
                block.push(format!("#msg {}", m.replace('\n', " ")));
            }
            crate::binfile::Dec::Panic(m) => {
                block.push("PANIC".to_string());
                block.push(format!("#msg {}", m.replace('\n', " ")));
            }
        }
        let mut text = format!("case {id}\n");
        for l in &block {
            text.push_str(l);
            text.push('\n');
        }
        text.push_str("end\n");
        out.write_all(text.as_bytes()).unwrap();
        out.flush().unwrap();
    }
    writeln!(out, "done").unwrap();
}

fn panic_site_key(msg: &str) -> String {
    // "<file>:<line>: <message>"
    let file = msg.split(':').next().unwrap_or("?");
    let stem = file.rsplit('/').next().unwrap_or(file).trim_end_matches(".rs");
    let text = msg.splitn(3, ':').nth(2).unwrap_or("").trim();
    let mut words = String::new();
    let mut count = 0;
    for w in text.split(|c: char| !c.is_ascii_alphabetic()) {
        if w.is_empty() {
            continue;
        }
        if count > 0 {
            words.push('-');
        }
        words.push_str(&w.to_ascii_lowercase());
        count += 1;
        if count >= 4 {
            break;
        }
    }
    format!("panic-{stem}-{words}")
}

pub fn cli(args: &[String]) -> bool {
    if args.len() < 2 {
        return false;
    }
    match args[1].as_str() {
        "binbytes-gen" => {
            let seed = arg_num(args, "--seed", 1);
            let cases = arg_num(args, "--cases", 100);
            let all_prefixes = arg_num(args, "--all-prefixes", 0) as usize;
            let out = arg_val(args, "--out").expect("--out");
            let prefix = arg_val(args, "--prefix").unwrap_or_else(|| "y".to_string());
            let mut rng = Rng::new(seed ^ 0xb17e5);
            let mut cat = Catalogue::new();
            let bases = base_files(&mut rng, &mut cat, 40);
            let mut w = std::io::BufWriter::new(std::fs::File::create(&out).expect("create"));
            let mut k = 0;
            // every truncation offset of the smallest valid files
            let mut small: Vec<&(CompressionType, Vec<u8>)> = bases.iter().collect();
            small.sort_by_key(|x| x.1.len());
            for (c, b) in small.iter().take(all_prefixes) {
                for cut in 0..b.len() {
                    write_case(&mut w, &format!("{prefix}t{k}"), &[format!("opt kind truncate-{c:?}"), "opt prefix 1".to_string(), format!("bytes {}", hex(&b[..cut]))]);
                    k += 1;
                }
            }
            for i in 0..cases {
                let (c, base) = rng.pick(&bases).clone();
                let (_, other) = rng.pick(&bases).clone();
                let kind = match rng.below(20) {
                    0..=2 => 1,
                    3..=6 => 2,
                    7..=9 => 3,
                    10..=14 => 4,
                    15..=17 => 5,
                    18 => 6,
                    _ => 7,
                };
                let (b, pre) = mutate(kind, &base, &other, &mut rng);
                let mut lines = vec![format!("opt kind {}-{c:?}", ["", "truncate", "bitflip", "subst", "u32edit", "splice", "random", "valid"][kind as usize])];
                if pre {
                    lines.push("opt prefix 1".to_string());
                }
                lines.push(format!("bytes {}", hex(&b)));
                write_case(&mut w, &format!("{prefix}{i}"), &lines);
            }
            true
        }
        "binbytes-worker" => {
            worker(&args[2], args[3].parse().unwrap(), &args[4], &args[5]);
            true
        }
        "binbytes-run" => {
            let cases = read_cases(&args[2]);
            let tmp = format!("{}.worker", &args[3]);
            let hints_path = format!("{}.hints", &args[2]);
            let _ = std::fs::remove_file(&tmp);
            let _ = std::fs::remove_file(&hints_path);
            let _ = std::fs::remove_file(format!("{}.stderr", &args[3]));
            let exe = std::env::current_exe().expect("exe");
            let mut start = 0usize;
            let mut special: BTreeMap<usize, String> = BTreeMap::new();
            let mut guard = 0;
            while start < cases.len() && guard < cases.len() + 5 {
                guard += 1;
                let mut child = std::process::Command::new(&exe)
                    .args(["binbytes-worker", &args[2], &start.to_string(), &tmp, &hints_path])
                    .stderr(std::fs::OpenOptions::new().create(true).append(true).open(format!("{}.stderr", &args[3])).map(std::process::Stdio::from).unwrap_or(std::process::Stdio::null()))
                    .spawn()
                    .expect("spawn worker");
                let mut last_len = 0u64;
                let mut last_change = Instant::now();
                let mut timed_out = false;
                loop {
                    match child.try_wait() {
                        Ok(Some(_)) => break,
                        Ok(None) => {}
                        Err(_) => break,
                    }
                    let len = std::fs::metadata(&tmp).map(|m| m.len()).unwrap_or(0);
                    if len != last_len {
                        last_len = len;
                        last_change = Instant::now();
                    } else if last_change.elapsed() > Duration::from_secs(30) {
                        let _ = child.kill();
                        let _ = child.wait();
                        timed_out = true;
                        break;
                    }
                    std::thread::sleep(Duration::from_millis(20));
                }
                // how far did it get?
                let text = std::fs::read_to_string(&tmp).unwrap_or_default();
                if text.lines().last() == Some("done") {
                    break;
                }
                let mut last_begin: Option<usize> = None;
                let mut completed = true;
                for l in text.lines() {
                    if let Some(k) = l.strip_prefix("begin ") {
                        last_begin = k.parse().ok();
                        completed = false;
                    } else if l == "end" {
                        completed = true;
                    }
                }
                match last_begin {
                    Some(k) if !completed => {
                        special.insert(k, if timed_out { "TIMEOUT".to_string() } else { "ABORT".to_string() });
                        start = k + 1;
                    }
                    Some(k) => start = k + 1,
                    None => {
                        special.insert(start, if timed_out { "TIMEOUT".to_string() } else { "ABORT".to_string() });
                        start += 1;
                    }
                }
            }
            // assemble
            let done: BTreeMap<String, Vec<String>> = read_cases(&tmp).into_iter().collect();
            let mut obs = std::io::BufWriter::new(std::fs::File::create(&args[3]).expect("obs"));
            let mut orc = std::io::BufWriter::new(std::fs::File::create(&args[4]).expect("oracle"));
            let mut outcome_count: BTreeMap<String, u64> = BTreeMap::new();
            let mut kinds: BTreeMap<String, u64> = BTreeMap::new();
            let mut distinct = HashSet::new();
            let abort_msgs: Vec<String> = std::fs::read_to_string(format!("{}.stderr", &args[3]))
                .unwrap_or_default()
                .lines()
                .filter(|l| l.starts_with("memory allocation of"))
                .map(|l| l.to_string())
                .collect();
            let mut abort_seen = 0usize;
            for (k, (id, lines)) in cases.iter().enumerate() {
                let kind = lines.iter().find_map(|l| l.strip_prefix("opt kind ")).unwrap_or("?").to_string();
                *kinds.entry(kind.clone()).or_default() += 1;
                distinct.insert(lines.join("\n"));
                let block: Vec<String> = if let Some(s) = special.get(&k) {
                    vec![s.clone()]
                } else {
                    done.get(id).cloned().unwrap_or_else(|| vec!["MISSING".to_string()])
                };
                let head = block.first().cloned().unwrap_or_default();
                let class = head.split(' ').next().unwrap_or("").to_string();
                *outcome_count.entry(class.clone()).or_default() += 1;
                let msg = block.iter().find_map(|l| l.strip_prefix("#msg ")).unwrap_or("").to_string();
                match class.as_str() {
                    "PANIC" => writeln!(orc, "{id} C13 {} kind={kind} from_reader panics: {}", panic_site_key(&msg), &msg[..msg.len().min(200)]).unwrap(),
                    "ABORT" => {
                        let n = abort_msgs.get(abort_seen).cloned().unwrap_or_default();
                        abort_seen += 1;
                        writeln!(orc, "{id} C13 abort-alloc kind={kind} from_reader aborts the process on {} input bytes: {n}", case_bytes(lines).len()).unwrap()
                    }
                    "TIMEOUT" => writeln!(orc, "{id} C13 hang kind={kind} from_reader made no progress for 30 s").unwrap(),
                    "OK" if is_prefix_case(lines) => writeln!(orc, "{id} C13 ok-on-strict-prefix kind={kind} a strict prefix ({} bytes) of a valid file decodes Ok", case_bytes(lines).len()).unwrap(),
                    _ => {}
                }
                let visible: Vec<String> = block.into_iter().filter(|l| !l.starts_with("#msg")).collect();
                write_case(&mut obs, id, &visible);
            }
            let st = serde_json::json!({"cases": cases.len(), "distinct_nontrivial": distinct.len(), "outcomes": outcome_count, "kinds": kinds});
            std::fs::write(&args[5], serde_json::to_string_pretty(&st).unwrap()).expect("stats");
            true
        }
        _ => false,
    }
}
