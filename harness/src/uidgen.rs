//! uidgen: UniqueId::now() never repeats within a process, also when generated concurrently (C12).
use rbx_types::UniqueId;
use std::collections::HashSet;

/// refgen: the assumption the dom-ops models rest on (Ref::new() never returns a value seen before) observed on the
/// implementation where the differential run cannot: builders created on several threads (and on threads that start
/// later), then brought together in ONE DOM.  Prints `<pid> refgen: ...` lines for C09 (every live referent maps to one
/// instance, descendants() visits each once) and C10 (insert returns the builder's referent; all instances arrive).
fn refgen(threads: usize, per: usize) {
    use rbx_dom_weak::{InstanceBuilder, WeakDom};
    use rbx_types::Ref;
    let build = move |t: usize| -> Vec<InstanceBuilder> {
        (0..per).map(|k| InstanceBuilder::new("Folder").with_name(format!("t{t}i{k}")).with_child(InstanceBuilder::new("Folder").with_name(format!("t{t}i{k}c")))).collect()
    };
    let mut batches: Vec<Vec<InstanceBuilder>> = Vec::new();
    // two generations of threads, so that per-thread state of finished threads is in play as well
    for gen in 0..2 {
        let joins: Vec<_> = (0..threads).map(|t| std::thread::spawn(move || build(gen * 1000 + t))).collect();
        for j in joins {
            batches.push(j.join().unwrap());
        }
    }
    batches.push(build(9999));
    let mut dom = WeakDom::new(InstanceBuilder::new("DataModel"));
    let root = dom.root_ref();
    let mut tops: HashSet<Ref> = HashSet::new();
    let (mut total, mut returned_other) = (0usize, 0usize);
    for b in batches.into_iter().flatten() {
        let want = b.referent();
        total += 2;
        let got = dom.insert(root, b);
        if got != want {
            returned_other += 1;
        }
        tops.insert(got);
    }
    let desc: Vec<Ref> = dom.descendants().map(|i| i.referent()).collect();
    let distinct: HashSet<Ref> = desc.iter().copied().collect();
    let kids = dom.root().children().len();
    println!("refgen threads={threads} per={per} built={total} descendants={} distinct={} root_children={kids} distinct_top_refs={}", desc.len(), distinct.len(), tops.len());
    if distinct.len() != total + 1 || desc.len() != total + 1 {
        println!("C09 refgen: {} instances built on {threads}x2 threads and inserted into one DOM; descendants() yields {} entries with {} distinct referents (two builders received the same referent: one overwrote the other)", total, desc.len(), distinct.len());
        println!("C10 refgen: {} instances were inserted but only {} distinct ones are reachable", total, distinct.len().saturating_sub(1));
    }
    if tops.len() != total / 2 || kids != total / 2 {
        println!("C09 refgen: the root lists {kids} children with {} distinct referents for {} inserted builders", tops.len(), total / 2);
    }
    if returned_other > 0 {
        println!("C10 refgen: insert returned a referent other than the builder's own in {returned_other} cases");
    }
}

pub fn cli(args: &[String]) -> bool {
    use crate::util::arg_num;
    if args.get(1).map(|s| s.as_str()) == Some("refgen-run") {
        refgen(arg_num(args, "--threads", 8) as usize, arg_num(args, "--per", 300) as usize);
        return true;
    }
    if args.get(1).map(|s| s.as_str()) != Some("uidgen-run") {
        return false;
    }
    let threads = arg_num(args, "--threads", 16) as usize;
    let per = arg_num(args, "--per", 100_000) as usize;
    // sequential: indices are consecutive (the model's run_sched with one thread)
    let a: Vec<UniqueId> = (0..1000).map(|_| UniqueId::now().unwrap()).collect();
    let consecutive = a.windows(2).all(|w| w[1].index() == w[0].index().wrapping_add(1));
    let mut joins = Vec::new();
    for _ in 0..threads {
        joins.push(std::thread::spawn(move || (0..per).map(|_| UniqueId::now().unwrap()).collect::<Vec<_>>()));
    }
    let mut all: HashSet<UniqueId> = HashSet::new();
    let mut idx: HashSet<u32> = HashSet::new();
    let mut total = 0usize;
    for j in joins {
        for u in j.join().unwrap() {
            total += 1;
            all.insert(u);
            idx.insert(u.index());
        }
    }
    println!(
        "uidgen threads={threads} per={per} total={total} distinct_ids={} distinct_indices={} sequential_consecutive={consecutive}",
        all.len(),
        idx.len()
    );
    if all.len() != total {
        println!("C12 uidgen: UniqueId::now() returned a repeated id under concurrency");
    }
    if idx.len() != total && total < (1usize << 32) {
        println!("C12 uidgen: UniqueId::now() returned a repeated index under concurrency (counter is not atomic?)");
    }
    if !consecutive {
        println!("C12 uidgen: sequential calls do not return consecutive indices");
    }
    true
}
