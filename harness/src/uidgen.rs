//! uidgen: UniqueId::now() never repeats within a process, also when generated concurrently (C12).
use rbx_types::UniqueId;
use std::collections::HashSet;

pub fn cli(args: &[String]) -> bool {
    use crate::util::arg_num;
    if args.get(1).map(|s| s.as_str()) != Some("uidgen-run") {
        return false;
    }
    let threads = arg_num(args, "--threads", 16) as usize;
    let per = arg_num(args, "--per", 100_000) as usize;
    // sequential: indices are consecutive (the model's run_sched with one thread)
    let a: Vec<UniqueId> = (0..1000).map(|_| UniqueId::now().unwrap()).collect();
    let consecutive = a.windows(2).all(|w| w[1].index() == w[0].index().wrapping_add(1));
    let mut joins = Vec::new();
    for _ in 0..threads {
        joins.push(std::thread::spawn(move || (0..per).map(|_| UniqueId::now().unwrap()).collect::<Vec<_>>()));
    }
    let mut all: HashSet<UniqueId> = HashSet::new();
    let mut idx: HashSet<u32> = HashSet::new();
    let mut total = 0usize;
    for j in joins {
        for u in j.join().unwrap() {
            total += 1;
            all.insert(u);
            idx.insert(u.index());
        }
    }
    println!(
        "uidgen threads={threads} per={per} total={total} distinct_ids={} distinct_indices={} sequential_consecutive={consecutive}",
        all.len(),
        idx.len()
    );
    if all.len() != total {
        println!("C12 uidgen: UniqueId::now() returned a repeated id under concurrency");
    }
    if idx.len() != total && total < (1usize << 32) {
        println!("C12 uidgen: UniqueId::now() returned a repeated index under concurrency (counter is not atomic?)");
    }
    if !consecutive {
        println!("C12 uidgen: sequential calls do not return consecutive indices");
    }
    true
}
