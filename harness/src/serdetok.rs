//! serdetok: the serde DATA MODEL of rbx_types' hand-written `Serialize` / `Deserialize` impls, as token streams
//! (coq/Model/SerdeTok.v): a recording `Serializer` and a replaying `Deserializer`, both with `is_human_readable` as a
//! parameter, so that the impls are compared with the Coq model (Model/Serde17.v) independently of any concrete format.
//!
//!   serdetok-run CASES OBS ORACLE STATS
//! case lines:  `ser <mode> <type> <value tokens…>`   -> obs `TOK <tokens>` (what Serialize emits) or `ERR`
//!              `de  <mode> <type> | <tokens…>`       -> obs `VAL <value tokens…>` / `ERR` / `PANIC`
//! with mode = H | C and type one of Axes Faces BinaryString BrickColor PhysicalProperties Ref SharedString UniqueId.
//! value tokens: Axes/Faces `<bits dec>`; BinaryString/SharedString `<hex or ->`; BrickColor `<number>`; Ref `<u128 dec>`;
//! UniqueId `<index> <time> <random>`; PhysicalProperties `D` or `C <5 f32 hex bits>`.
//! Oracle lines (`<case> C17 tok-<key> …`): a value that does not survive Serialize -> tokens -> Deserialize of the real
//! impls in either mode, a panic.
use rbx_types::*;
use serde::de::{self, DeserializeSeed, EnumAccess, IntoDeserializer, MapAccess, SeqAccess, VariantAccess, Visitor};
use serde::ser::{self, Serialize};
use serde::Deserialize;
use std::fmt;
use std::io::Write;

#[derive(Debug, Clone, PartialEq)]
pub enum Tok {
    Bool(bool),
    U8(u8),
    U16(u16),
    U32(u32),
    U64(u64),
    U128(u128),
    I8(i8),
    I16(i16),
    I32(i32),
    I64(i64),
    F32(u32),
    F64(u64),
    Str(Vec<u8>),
    Bytes(Vec<u8>),
    None,
    Some,
    Unit,
    Seq(Option<usize>),
    SeqEnd,
    Tuple(usize),
    TupleEnd,
    Map(Option<usize>),
    MapEnd,
    Struct(String, usize),
    Field(String),
    StructEnd,
    UnitVariant(String, u32, String),
    NewtypeVariant(String, u32, String),
    StructVariant(String, u32, String, usize),
    StructVariantEnd,
    TupleVariant(String, u32, String, usize),
    TupleVariantEnd,
    NewtypeStruct(String),
}

fn hexs(b: &[u8]) -> String {
    if b.is_empty() {
        "-".to_string()
    } else {
        b.iter().map(|x| format!("{x:02x}")).collect()
    }
}
fn unhex(s: &str) -> Option<Vec<u8>> {
    if s == "-" {
        return Some(Vec::new());
    }
    if s.len() % 2 != 0 {
        return None;
    }
    (0..s.len() / 2).map(|i| u8::from_str_radix(&s[2 * i..2 * i + 2], 16).ok()).collect()
}

pub fn show(t: &Tok) -> String {
    match t {
        Tok::Bool(b) => format!("b{}", *b as u8),
        Tok::U8(n) => format!("u8:{n}"),
        Tok::U16(n) => format!("u16:{n}"),
        Tok::U32(n) => format!("u32:{n}"),
        Tok::U64(n) => format!("u64:{n}"),
        Tok::U128(n) => format!("u128:{n}"),
        Tok::I8(n) => format!("i8:{n}"),
        Tok::I16(n) => format!("i16:{n}"),
        Tok::I32(n) => format!("i32:{n}"),
        Tok::I64(n) => format!("i64:{n}"),
        Tok::F32(b) => format!("f32:{b:x}"),
        Tok::F64(b) => format!("f64:{b:x}"),
        Tok::Str(s) => format!("s:{}", hexs(s)),
        Tok::Bytes(s) => format!("y:{}", hexs(s)),
        Tok::None => "none".into(),
        Tok::Some => "some".into(),
        Tok::Unit => "unit".into(),
        Tok::Seq(l) => format!("seq:{}", l.map(|x| x.to_string()).unwrap_or_else(|| "-".into())),
        Tok::SeqEnd => "end".into(),
        Tok::Tuple(n) => format!("tup:{n}"),
        Tok::TupleEnd => "tend".into(),
        Tok::Map(l) => format!("map:{}", l.map(|x| x.to_string()).unwrap_or_else(|| "-".into())),
        Tok::MapEnd => "mend".into(),
        Tok::Struct(n, l) => format!("st:{n}:{l}"),
        Tok::Field(n) => format!("f:{n}"),
        Tok::StructEnd => "send".into(),
        Tok::UnitVariant(e, i, v) => format!("uv:{e}:{i}:{v}"),
        Tok::NewtypeVariant(e, i, v) => format!("nv:{e}:{i}:{v}"),
        Tok::StructVariant(e, i, v, l) => format!("sv:{e}:{i}:{v}:{l}"),
        Tok::StructVariantEnd => "svend".into(),
        Tok::TupleVariant(e, i, v, l) => format!("tv:{e}:{i}:{v}:{l}"),
        Tok::TupleVariantEnd => "tvend".into(),
        Tok::NewtypeStruct(n) => format!("ns:{n}"),
    }
}

pub fn parse(t: &str) -> Option<Tok> {
    let (k, rest) = match t.find(':') {
        Some(i) => (&t[..i], &t[i + 1..]),
        None => (t, ""),
    };
    let p: Vec<&str> = rest.split(':').collect();
    Some(match k {
        "b0" => Tok::Bool(false),
        "b1" => Tok::Bool(true),
        "u8" => Tok::U8(rest.parse().ok()?),
        "u16" => Tok::U16(rest.parse().ok()?),
        "u32" => Tok::U32(rest.parse().ok()?),
        "u64" => Tok::U64(rest.parse().ok()?),
        "u128" => Tok::U128(rest.parse().ok()?),
        "i8" => Tok::I8(rest.parse().ok()?),
        "i16" => Tok::I16(rest.parse().ok()?),
        "i32" => Tok::I32(rest.parse().ok()?),
        "i64" => Tok::I64(rest.parse().ok()?),
        "f32" => Tok::F32(u32::from_str_radix(rest, 16).ok()?),
        "f64" => Tok::F64(u64::from_str_radix(rest, 16).ok()?),
        "s" => Tok::Str(unhex(rest)?),
        "y" => Tok::Bytes(unhex(rest)?),
        "none" => Tok::None,
        "some" => Tok::Some,
        "unit" => Tok::Unit,
        "seq" => Tok::Seq(if rest == "-" { None } else { Some(rest.parse().ok()?) }),
        "end" => Tok::SeqEnd,
        "tup" => Tok::Tuple(rest.parse().ok()?),
        "tend" => Tok::TupleEnd,
        "map" => Tok::Map(if rest == "-" { None } else { Some(rest.parse().ok()?) }),
        "mend" => Tok::MapEnd,
        "st" => Tok::Struct(p.first()?.to_string(), p.get(1)?.parse().ok()?),
        "f" => Tok::Field(rest.to_string()),
        "send" => Tok::StructEnd,
        "uv" => Tok::UnitVariant(p.first()?.to_string(), p.get(1)?.parse().ok()?, p.get(2)?.to_string()),
        "nv" => Tok::NewtypeVariant(p.first()?.to_string(), p.get(1)?.parse().ok()?, p.get(2)?.to_string()),
        "sv" => Tok::StructVariant(p.first()?.to_string(), p.get(1)?.parse().ok()?, p.get(2)?.to_string(), p.get(3)?.parse().ok()?),
        "svend" => Tok::StructVariantEnd,
        "tv" => Tok::TupleVariant(p.first()?.to_string(), p.get(1)?.parse().ok()?, p.get(2)?.to_string(), p.get(3)?.parse().ok()?),
        "tvend" => Tok::TupleVariantEnd,
        "ns" => Tok::NewtypeStruct(rest.to_string()),
        _ => return None,
    })
}

// ------------------------------------------------------------------------------------------ errors
#[derive(Debug)]
pub struct TErr(pub String);
impl fmt::Display for TErr {
    fn fmt(&self, f: &mut fmt::Formatter) -> fmt::Result {
        write!(f, "{}", self.0)
    }
}
impl std::error::Error for TErr {}
impl ser::Error for TErr {
    fn custom<T: fmt::Display>(m: T) -> Self {
        TErr(m.to_string())
    }
}
impl de::Error for TErr {
    fn custom<T: fmt::Display>(m: T) -> Self {
        TErr(m.to_string())
    }
}

// ------------------------------------------------------------------------------------------ recording Serializer
pub struct Rec<'a> {
    pub out: &'a mut Vec<Tok>,
    pub human: bool,
}
pub struct RecSub<'a> {
    out: &'a mut Vec<Tok>,
    human: bool,
    end: Tok,
}

impl<'a> ser::Serializer for Rec<'a> {
    type Ok = ();
    type Error = TErr;
    type SerializeSeq = RecSub<'a>;
    type SerializeTuple = RecSub<'a>;
    type SerializeTupleStruct = RecSub<'a>;
    type SerializeTupleVariant = RecSub<'a>;
    type SerializeMap = RecSub<'a>;
    type SerializeStruct = RecSub<'a>;
    type SerializeStructVariant = RecSub<'a>;
    fn is_human_readable(&self) -> bool {
        self.human
    }
    fn serialize_bool(self, v: bool) -> Result<(), TErr> {
        self.out.push(Tok::Bool(v));
        Ok(())
    }
    fn serialize_i8(self, v: i8) -> Result<(), TErr> {
        self.out.push(Tok::I8(v));
        Ok(())
    }
    fn serialize_i16(self, v: i16) -> Result<(), TErr> {
        self.out.push(Tok::I16(v));
        Ok(())
    }
    fn serialize_i32(self, v: i32) -> Result<(), TErr> {
        self.out.push(Tok::I32(v));
        Ok(())
    }
    fn serialize_i64(self, v: i64) -> Result<(), TErr> {
        self.out.push(Tok::I64(v));
        Ok(())
    }
    fn serialize_u8(self, v: u8) -> Result<(), TErr> {
        self.out.push(Tok::U8(v));
        Ok(())
    }
    fn serialize_u16(self, v: u16) -> Result<(), TErr> {
        self.out.push(Tok::U16(v));
        Ok(())
    }
    fn serialize_u32(self, v: u32) -> Result<(), TErr> {
        self.out.push(Tok::U32(v));
        Ok(())
    }
    fn serialize_u64(self, v: u64) -> Result<(), TErr> {
        self.out.push(Tok::U64(v));
        Ok(())
    }
    fn serialize_u128(self, v: u128) -> Result<(), TErr> {
        self.out.push(Tok::U128(v));
        Ok(())
    }
    fn serialize_f32(self, v: f32) -> Result<(), TErr> {
        self.out.push(Tok::F32(v.to_bits()));
        Ok(())
    }
    fn serialize_f64(self, v: f64) -> Result<(), TErr> {
        self.out.push(Tok::F64(v.to_bits()));
        Ok(())
    }
    fn serialize_char(self, v: char) -> Result<(), TErr> {
        self.out.push(Tok::Str(v.to_string().into_bytes()));
        Ok(())
    }
    fn serialize_str(self, v: &str) -> Result<(), TErr> {
        self.out.push(Tok::Str(v.as_bytes().to_vec()));
        Ok(())
    }
    fn serialize_bytes(self, v: &[u8]) -> Result<(), TErr> {
        self.out.push(Tok::Bytes(v.to_vec()));
        Ok(())
    }
    fn serialize_none(self) -> Result<(), TErr> {
        self.out.push(Tok::None);
        Ok(())
    }
    fn serialize_some<T: ?Sized + Serialize>(self, v: &T) -> Result<(), TErr> {
        self.out.push(Tok::Some);
        v.serialize(Rec { out: self.out, human: self.human })
    }
    fn serialize_unit(self) -> Result<(), TErr> {
        self.out.push(Tok::Unit);
        Ok(())
    }
    fn serialize_unit_struct(self, _: &'static str) -> Result<(), TErr> {
        self.out.push(Tok::Unit);
        Ok(())
    }
    fn serialize_unit_variant(self, e: &'static str, i: u32, v: &'static str) -> Result<(), TErr> {
        self.out.push(Tok::UnitVariant(e.into(), i, v.into()));
        Ok(())
    }
    fn serialize_newtype_struct<T: ?Sized + Serialize>(self, n: &'static str, v: &T) -> Result<(), TErr> {
        self.out.push(Tok::NewtypeStruct(n.into()));
        v.serialize(Rec { out: self.out, human: self.human })
    }
    fn serialize_newtype_variant<T: ?Sized + Serialize>(self, e: &'static str, i: u32, vn: &'static str, v: &T) -> Result<(), TErr> {
        self.out.push(Tok::NewtypeVariant(e.into(), i, vn.into()));
        v.serialize(Rec { out: self.out, human: self.human })
    }
    fn serialize_seq(self, len: Option<usize>) -> Result<RecSub<'a>, TErr> {
        self.out.push(Tok::Seq(len));
        Ok(RecSub { out: self.out, human: self.human, end: Tok::SeqEnd })
    }
    fn serialize_tuple(self, len: usize) -> Result<RecSub<'a>, TErr> {
        self.out.push(Tok::Tuple(len));
        Ok(RecSub { out: self.out, human: self.human, end: Tok::TupleEnd })
    }
    fn serialize_tuple_struct(self, _: &'static str, len: usize) -> Result<RecSub<'a>, TErr> {
        self.out.push(Tok::Tuple(len));
        Ok(RecSub { out: self.out, human: self.human, end: Tok::TupleEnd })
    }
    fn serialize_tuple_variant(self, e: &'static str, i: u32, v: &'static str, len: usize) -> Result<RecSub<'a>, TErr> {
        self.out.push(Tok::TupleVariant(e.into(), i, v.into(), len));
        Ok(RecSub { out: self.out, human: self.human, end: Tok::TupleVariantEnd })
    }
    fn serialize_map(self, len: Option<usize>) -> Result<RecSub<'a>, TErr> {
        self.out.push(Tok::Map(len));
        Ok(RecSub { out: self.out, human: self.human, end: Tok::MapEnd })
    }
    fn serialize_struct(self, n: &'static str, len: usize) -> Result<RecSub<'a>, TErr> {
        self.out.push(Tok::Struct(n.into(), len));
        Ok(RecSub { out: self.out, human: self.human, end: Tok::StructEnd })
    }
    fn serialize_struct_variant(self, e: &'static str, i: u32, v: &'static str, len: usize) -> Result<RecSub<'a>, TErr> {
        self.out.push(Tok::StructVariant(e.into(), i, v.into(), len));
        Ok(RecSub { out: self.out, human: self.human, end: Tok::StructVariantEnd })
    }
}

macro_rules! sub_elems {
    ($tr:path, $f:ident) => {
        impl<'a> $tr for RecSub<'a> {
            type Ok = ();
            type Error = TErr;
            fn $f<T: ?Sized + Serialize>(&mut self, v: &T) -> Result<(), TErr> {
                v.serialize(Rec { out: self.out, human: self.human })
            }
            fn end(self) -> Result<(), TErr> {
                self.out.push(self.end);
                Ok(())
            }
        }
    };
}
sub_elems!(ser::SerializeSeq, serialize_element);
sub_elems!(ser::SerializeTuple, serialize_element);
sub_elems!(ser::SerializeTupleStruct, serialize_field);
sub_elems!(ser::SerializeTupleVariant, serialize_field);
impl<'a> ser::SerializeMap for RecSub<'a> {
    type Ok = ();
    type Error = TErr;
    fn serialize_key<T: ?Sized + Serialize>(&mut self, k: &T) -> Result<(), TErr> {
        k.serialize(Rec { out: self.out, human: self.human })
    }
    fn serialize_value<T: ?Sized + Serialize>(&mut self, v: &T) -> Result<(), TErr> {
        v.serialize(Rec { out: self.out, human: self.human })
    }
    fn end(self) -> Result<(), TErr> {
        self.out.push(self.end);
        Ok(())
    }
}
impl<'a> ser::SerializeStruct for RecSub<'a> {
    type Ok = ();
    type Error = TErr;
    fn serialize_field<T: ?Sized + Serialize>(&mut self, k: &'static str, v: &T) -> Result<(), TErr> {
        self.out.push(Tok::Field(k.into()));
        v.serialize(Rec { out: self.out, human: self.human })
    }
    fn end(self) -> Result<(), TErr> {
        self.out.push(self.end);
        Ok(())
    }
}
impl<'a> ser::SerializeStructVariant for RecSub<'a> {
    type Ok = ();
    type Error = TErr;
    fn serialize_field<T: ?Sized + Serialize>(&mut self, k: &'static str, v: &T) -> Result<(), TErr> {
        self.out.push(Tok::Field(k.into()));
        v.serialize(Rec { out: self.out, human: self.human })
    }
    fn end(self) -> Result<(), TErr> {
        self.out.push(self.end);
        Ok(())
    }
}

pub fn record<T: Serialize>(v: &T, human: bool) -> Result<Vec<Tok>, String> {
    let mut out = Vec::new();
    v.serialize(Rec { out: &mut out, human }).map_err(|e| e.0)?;
    Ok(out)
}

// ------------------------------------------------------------------------------------------ replaying Deserializer
/// Presents a token stream to a `Deserialize` impl the way a self-describing format would (every `deserialize_*` hint is
/// answered by the token at hand, like serde_json does): strings as `visit_str` (not borrowed), bytes as `visit_bytes`.
pub struct Play<'t> {
    pub toks: &'t [Tok],
    pub pos: usize,
    pub human: bool,
}

impl<'t> Play<'t> {
    fn peek(&self) -> Option<&'t Tok> {
        self.toks.get(self.pos)
    }
    fn next(&mut self) -> Result<&'t Tok, TErr> {
        let t = self.toks.get(self.pos).ok_or_else(|| TErr("end of tokens".into()))?;
        self.pos += 1;
        Ok(t)
    }
    fn expect(&mut self, want: &Tok) -> Result<(), TErr> {
        let t = self.next()?;
        if t == want {
            Ok(())
        } else {
            Err(TErr(format!("expected {}, found {}", show(want), show(t))))
        }
    }
}

impl<'de, 't, 'p> de::Deserializer<'de> for &'p mut Play<'t> {
    type Error = TErr;
    fn is_human_readable(&self) -> bool {
        self.human
    }
    fn deserialize_any<V: Visitor<'de>>(self, v: V) -> Result<V::Value, TErr> {
        match self.next()?.clone() {
            Tok::Bool(b) => v.visit_bool(b),
            Tok::U8(n) => v.visit_u8(n),
            Tok::U16(n) => v.visit_u16(n),
            Tok::U32(n) => v.visit_u32(n),
            Tok::U64(n) => v.visit_u64(n),
            Tok::U128(n) => v.visit_u128(n),
            Tok::I8(n) => v.visit_i8(n),
            Tok::I16(n) => v.visit_i16(n),
            Tok::I32(n) => v.visit_i32(n),
            Tok::I64(n) => v.visit_i64(n),
            Tok::F32(b) => v.visit_f32(f32::from_bits(b)),
            Tok::F64(b) => v.visit_f64(f64::from_bits(b)),
            Tok::Str(s) => match String::from_utf8(s) {
                Ok(s) => v.visit_str(&s),
                Err(_) => Err(TErr("string token is not UTF-8".into())),
            },
            Tok::Bytes(b) => v.visit_bytes(&b),
            Tok::None => v.visit_none(),
            Tok::Some => v.visit_some(self),
            Tok::Unit => v.visit_unit(),
            Tok::Seq(_) => {
                let r = v.visit_seq(Elems { p: &mut *self, end: Tok::SeqEnd })?;
                self.expect(&Tok::SeqEnd)?;
                Ok(r)
            }
            Tok::Tuple(_) => {
                let r = v.visit_seq(Elems { p: &mut *self, end: Tok::TupleEnd })?;
                self.expect(&Tok::TupleEnd)?;
                Ok(r)
            }
            Tok::Map(_) => {
                let r = v.visit_map(Fields { p: &mut *self, end: Tok::MapEnd, raw_keys: true })?;
                self.expect(&Tok::MapEnd)?;
                Ok(r)
            }
            Tok::Struct(..) => {
                let r = v.visit_map(Fields { p: &mut *self, end: Tok::StructEnd, raw_keys: false })?;
                self.expect(&Tok::StructEnd)?;
                Ok(r)
            }
            Tok::NewtypeStruct(_) => v.visit_newtype_struct(self),
            Tok::UnitVariant(..) | Tok::NewtypeVariant(..) | Tok::StructVariant(..) | Tok::TupleVariant(..) => {
                self.pos -= 1;
                v.visit_enum(Variant { p: self })
            }
            other => Err(TErr(format!("unexpected token {}", show(&other)))),
        }
    }
    fn deserialize_option<V: Visitor<'de>>(self, v: V) -> Result<V::Value, TErr> {
        match self.peek() {
            Some(Tok::None) => {
                self.pos += 1;
                v.visit_none()
            }
            Some(Tok::Some) => {
                self.pos += 1;
                v.visit_some(self)
            }
            _ => v.visit_some(self),
        }
    }
    fn deserialize_enum<V: Visitor<'de>>(self, _: &'static str, _: &'static [&'static str], v: V) -> Result<V::Value, TErr> {
        v.visit_enum(Variant { p: self })
    }
    fn deserialize_newtype_struct<V: Visitor<'de>>(self, _: &'static str, v: V) -> Result<V::Value, TErr> {
        if let Some(Tok::NewtypeStruct(_)) = self.peek() {
            self.pos += 1;
        }
        v.visit_newtype_struct(self)
    }
    serde::forward_to_deserialize_any! {
        bool i8 i16 i32 i64 i128 u8 u16 u32 u64 u128 f32 f64 char str string bytes byte_buf unit unit_struct seq tuple
        tuple_struct map struct identifier ignored_any
    }
}

struct Elems<'p, 't> {
    p: &'p mut Play<'t>,
    end: Tok,
}
impl<'de, 'p, 't> SeqAccess<'de> for Elems<'p, 't> {
    type Error = TErr;
    fn next_element_seed<S: DeserializeSeed<'de>>(&mut self, seed: S) -> Result<Option<S::Value>, TErr> {
        if self.p.peek() == Some(&self.end) || self.p.peek().is_none() {
            return Ok(None);
        }
        seed.deserialize(&mut *self.p).map(Some)
    }
}
struct Fields<'p, 't> {
    p: &'p mut Play<'t>,
    end: Tok,
    raw_keys: bool,
}
impl<'de, 'p, 't> MapAccess<'de> for Fields<'p, 't> {
    type Error = TErr;
    fn next_key_seed<S: DeserializeSeed<'de>>(&mut self, seed: S) -> Result<Option<S::Value>, TErr> {
        if self.p.peek() == Some(&self.end) || self.p.peek().is_none() {
            return Ok(None);
        }
        if self.raw_keys {
            return seed.deserialize(&mut *self.p).map(Some);
        }
        match self.p.next()? {
            Tok::Field(n) => seed.deserialize(n.as_str().into_deserializer()).map(Some),
            other => Err(TErr(format!("expected a field, found {}", show(other)))),
        }
    }
    fn next_value_seed<S: DeserializeSeed<'de>>(&mut self, seed: S) -> Result<S::Value, TErr> {
        seed.deserialize(&mut *self.p)
    }
}
struct Variant<'p, 't> {
    p: &'p mut Play<'t>,
}
impl<'de, 'p, 't> EnumAccess<'de> for Variant<'p, 't> {
    type Error = TErr;
    type Variant = Self;
    fn variant_seed<S: DeserializeSeed<'de>>(self, seed: S) -> Result<(S::Value, Self), TErr> {
        let name = match self.p.peek() {
            Some(Tok::UnitVariant(_, _, v)) | Some(Tok::NewtypeVariant(_, _, v)) | Some(Tok::StructVariant(_, _, v, _)) | Some(Tok::TupleVariant(_, _, v, _)) => v.clone(),
            Some(Tok::Str(s)) => String::from_utf8_lossy(s).to_string(),
            other => return Err(TErr(format!("expected a variant, found {:?}", other.map(show)))),
        };
        let val = seed.deserialize(name.as_str().into_deserializer())?;
        Ok((val, self))
    }
}
impl<'de, 'p, 't> VariantAccess<'de> for Variant<'p, 't> {
    type Error = TErr;
    fn unit_variant(self) -> Result<(), TErr> {
        match self.p.next()? {
            Tok::UnitVariant(..) | Tok::Str(_) => Ok(()),
            other => Err(TErr(format!("expected a unit variant, found {}", show(other)))),
        }
    }
    fn newtype_variant_seed<S: DeserializeSeed<'de>>(self, seed: S) -> Result<S::Value, TErr> {
        match self.p.next()? {
            Tok::NewtypeVariant(..) => seed.deserialize(&mut *self.p),
            other => Err(TErr(format!("expected a newtype variant, found {}", show(other)))),
        }
    }
    fn tuple_variant<V: Visitor<'de>>(self, _: usize, v: V) -> Result<V::Value, TErr> {
        match self.p.next()? {
            Tok::TupleVariant(..) => {
                let r = v.visit_seq(Elems { p: &mut *self.p, end: Tok::TupleVariantEnd })?;
                self.p.expect(&Tok::TupleVariantEnd)?;
                Ok(r)
            }
            other => Err(TErr(format!("expected a tuple variant, found {}", show(other)))),
        }
    }
    fn struct_variant<V: Visitor<'de>>(self, _: &'static [&'static str], v: V) -> Result<V::Value, TErr> {
        match self.p.next()? {
            Tok::StructVariant(..) => {
                let r = v.visit_map(Fields { p: &mut *self.p, end: Tok::StructVariantEnd, raw_keys: false })?;
                self.p.expect(&Tok::StructVariantEnd)?;
                Ok(r)
            }
            other => Err(TErr(format!("expected a struct variant, found {}", show(other)))),
        }
    }
}

pub fn replay<'a, T: Deserialize<'a>>(toks: &[Tok], human: bool) -> Result<(T, usize), String> {
    let mut p = Play { toks, pos: 0, human };
    let v = T::deserialize(&mut p).map_err(|e| e.0)?;
    Ok((v, p.pos))
}

// ------------------------------------------------------------------------------------------ the eight types
#[derive(Debug, Clone, PartialEq)]
pub enum V17 {
    Axes(Axes),
    Faces(Faces),
    BinaryString(Vec<u8>),
    BrickColor(BrickColor),
    Phys(PhysicalProperties),
    Ref(Ref),
    Shared(Vec<u8>),
    Uid(UniqueId),
}

pub const TYPES: [&str; 8] = ["Axes", "Faces", "BinaryString", "BrickColor", "PhysicalProperties", "Ref", "SharedString", "UniqueId"];

pub fn value_tokens(v: &V17) -> String {
    match v {
        V17::Axes(a) => format!("{}", a.bits()),
        V17::Faces(a) => format!("{}", a.bits()),
        V17::BinaryString(b) | V17::Shared(b) => hexs(b),
        V17::BrickColor(b) => format!("{}", *b as u16),
        V17::Phys(PhysicalProperties::Default) => "D".into(),
        V17::Phys(PhysicalProperties::Custom(c)) => format!(
            "C {:x} {:x} {:x} {:x} {:x}",
            c.density.to_bits(), c.friction.to_bits(), c.elasticity.to_bits(), c.friction_weight.to_bits(), c.elasticity_weight.to_bits()
        ),
        V17::Ref(r) => format!("{}", u128::from_str_radix(&r.to_string(), 16).unwrap_or(0)),
        V17::Uid(u) => format!("{} {} {}", u.index(), u.time(), u.random()),
    }
}

pub fn parse_value(ty: &str, t: &[&str]) -> Option<V17> {
    Some(match ty {
        "Axes" => V17::Axes(Axes::from_bits(t.first()?.parse().ok()?)?),
        "Faces" => V17::Faces(Faces::from_bits(t.first()?.parse().ok()?)?),
        "BinaryString" => V17::BinaryString(unhex(t.first()?)?),
        "SharedString" => V17::Shared(unhex(t.first()?)?),
        "BrickColor" => V17::BrickColor(BrickColor::from_number(t.first()?.parse().ok()?)?),
        "PhysicalProperties" => {
            if *t.first()? == "D" {
                V17::Phys(PhysicalProperties::Default)
            } else {
                let f = |k: usize| -> Option<f32> { Some(f32::from_bits(u32::from_str_radix(t.get(k)?, 16).ok()?)) };
                V17::Phys(PhysicalProperties::Custom(CustomPhysicalProperties { density: f(1)?, friction: f(2)?, elasticity: f(3)?, friction_weight: f(4)?, elasticity_weight: f(5)? }))
            }
        }
        "Ref" => {
            let n: u128 = t.first()?.parse().ok()?;
            V17::Ref(format!("{n:032x}").parse::<Ref>().ok()?)
        }
        "UniqueId" => V17::Uid(UniqueId::new(t.first()?.parse().ok()?, t.get(1)?.parse().ok()?, t.get(2)?.parse().ok()?)),
        _ => return None,
    })
}

pub fn ser17(v: &V17, human: bool) -> Result<Vec<Tok>, String> {
    match v {
        V17::Axes(x) => record(x, human),
        V17::Faces(x) => record(x, human),
        V17::BinaryString(b) => record(&BinaryString::from(b.clone()), human),
        V17::BrickColor(x) => record(x, human),
        V17::Phys(x) => record(x, human),
        V17::Ref(x) => record(x, human),
        V17::Shared(b) => record(&SharedString::new(b.clone()), human),
        V17::Uid(x) => record(x, human),
    }
}

pub fn de17(ty: &str, toks: &[Tok], human: bool) -> Result<(V17, usize), String> {
    Ok(match ty {
        "Axes" => replay::<Axes>(toks, human).map(|(v, n)| (V17::Axes(v), n))?,
        "Faces" => replay::<Faces>(toks, human).map(|(v, n)| (V17::Faces(v), n))?,
        "BinaryString" => replay::<BinaryString>(toks, human).map(|(v, n)| (V17::BinaryString(AsRef::<[u8]>::as_ref(&v).to_vec()), n))?,
        "BrickColor" => replay::<BrickColor>(toks, human).map(|(v, n)| (V17::BrickColor(v), n))?,
        "PhysicalProperties" => replay::<PhysicalProperties>(toks, human).map(|(v, n)| (V17::Phys(v), n))?,
        "Ref" => replay::<Ref>(toks, human).map(|(v, n)| (V17::Ref(v), n))?,
        "SharedString" => replay::<SharedString>(toks, human).map(|(v, n)| (V17::Shared(v.data().to_vec()), n))?,
        "UniqueId" => replay::<UniqueId>(toks, human).map(|(v, n)| (V17::Uid(v), n))?,
        other => return Err(format!("unknown type {other}")),
    })
}

fn same(a: &V17, b: &V17) -> bool {
    match (a, b) {
        (V17::Phys(PhysicalProperties::Custom(x)), V17::Phys(PhysicalProperties::Custom(y))) => {
            x.density.to_bits() == y.density.to_bits()
                && x.friction.to_bits() == y.friction.to_bits()
                && x.elasticity.to_bits() == y.elasticity.to_bits()
                && x.friction_weight.to_bits() == y.friction_weight.to_bits()
                && x.elasticity_weight.to_bits() == y.elasticity_weight.to_bits()
        }
        _ => a == b,
    }
}

/// boundary values per type (the case generator)
pub fn samples(rng: &mut crate::rng::Rng, n: usize) -> Vec<V17> {
    let mut v = Vec::new();
    for b in 0..8u8 {
        v.push(V17::Axes(Axes::from_bits(b).unwrap()));
    }
    for b in 0..64u8 {
        v.push(V17::Faces(Faces::from_bits(b).unwrap()));
    }
    for b in [vec![], vec![0u8], vec![0xff, 0xfe, 0x00], b"hello world".to_vec(), (0..=255u8).collect::<Vec<u8>>()] {
        v.push(V17::BinaryString(b.clone()));
        v.push(V17::Shared(b));
    }
    for n in [1u16, 21, 194, 1032, 321, 219, 1017, 365] {
        if let Some(b) = BrickColor::from_number(n) {
            v.push(V17::BrickColor(b));
        }
    }
    v.push(V17::Phys(PhysicalProperties::Default));
    for bits in [[0x3f800000u32, 0x3e99999a, 0x3f000000, 0x3f800000, 0x3f800000], [0, 0x80000000, 0x7f800000, 0xff800000, 0x7fc00001], [1, 0x007fffff, 0x7f7fffff, 0x3eaaaaab, 0xc2f6e979]] {
        v.push(V17::Phys(PhysicalProperties::Custom(CustomPhysicalProperties {
            density: f32::from_bits(bits[0]), friction: f32::from_bits(bits[1]), elasticity: f32::from_bits(bits[2]),
            friction_weight: f32::from_bits(bits[3]), elasticity_weight: f32::from_bits(bits[4]),
        })));
    }
    for n in [0u128, 1, 30, u64::MAX as u128, (u64::MAX as u128) + 1, u128::MAX, 0x0123456789abcdef0123456789abcdef] {
        v.push(V17::Ref(format!("{n:032x}").parse::<Ref>().unwrap()));
    }
    for (i, t, r) in [(0u32, 0u32, 0i64), (1, 2, 3), (u32::MAX, u32::MAX, i64::MAX), (7, 8, -1), (0x80000000, 1, i64::MIN), (5, 0, -0x0123456789abcdef)] {
        v.push(V17::Uid(UniqueId::new(i, t, r)));
    }
    for _ in 0..n {
        match rng.below(4) {
            0 => v.push(V17::Ref(Ref::new())),
            1 => v.push(V17::Uid(UniqueId::new(rng.next() as u32, rng.next() as u32, rng.next() as i64))),
            2 => {
                let len = rng.below(40) as usize;
                v.push(V17::BinaryString((0..len).map(|_| rng.next() as u8).collect()));
            }
            _ => {
                let len = rng.below(40) as usize;
                v.push(V17::Shared((0..len).map(|_| rng.next() as u8).collect()));
            }
        }
    }
    v
}

fn type_of(v: &V17) -> &'static str {
    match v {
        V17::Axes(_) => "Axes",
        V17::Faces(_) => "Faces",
        V17::BinaryString(_) => "BinaryString",
        V17::BrickColor(_) => "BrickColor",
        V17::Phys(_) => "PhysicalProperties",
        V17::Ref(_) => "Ref",
        V17::Shared(_) => "SharedString",
        V17::Uid(_) => "UniqueId",
    }
}

pub fn cli(args: &[String]) -> bool {
    use crate::util::{arg_num, arg_val, read_cases};
    let cmd = args.get(1).map(|s| s.as_str()).unwrap_or("");
    match cmd {
        "serdetok-gen" => {
            let seed = arg_num(args, "--seed", 1);
            let n = arg_num(args, "--cases", 200) as usize;
            let out = arg_val(args, "--out").expect("--out");
            let mut f = std::io::BufWriter::new(std::fs::File::create(out).unwrap());
            let mut rng = crate::rng::Rng::new(seed);
            for (k, v) in samples(&mut rng, n).iter().enumerate() {
                for (m, human) in [("H", true), ("C", false)] {
                    writeln!(f, "case t{k}{m}").unwrap();
                    writeln!(f, "ser {m} {} {}", type_of(v), value_tokens(v)).unwrap();
                    // the implementation's own tokens are also offered to the model's deserializer (and vice versa in -run)
                    if let Ok(t) = ser17(v, human) {
                        writeln!(f, "de {m} {} | {}", type_of(v), t.iter().map(show).collect::<Vec<_>>().join(" ")).unwrap();
                        // the malformed stream: the same tokens cut short, with one token replaced / dropped / doubled,
                        // offered to the other mode, or with a token of another kind in front
                        let junk = [Tok::Unit, Tok::None, Tok::Bool(true), Tok::U8(200), Tok::U64(u64::MAX), Tok::I64(-1), Tok::F64(0x7ff8000000000001), Tok::Str(b"Default".to_vec()), Tok::Str(vec![0xff]),
                                    Tok::Bytes(vec![0; 16]), Tok::Bytes(vec![1; 15]), Tok::Seq(None), Tok::SeqEnd, Tok::Map(Some(1)), Tok::Field("density".into()), Tok::Str(b"Top".to_vec()), Tok::Str(b"X".to_vec()),
                                    Tok::U128(u128::MAX), Tok::U16(4), Tok::NewtypeVariant("TaggedPhysicalProperties".into(), 1, "Custom".into()), Tok::UnitVariant("E".into(), 0, "Default".into())];
                        for _ in 0..3 {
                            let mut u = t.clone();
                            match rng.below(6) {
                                0 if !u.is_empty() => {
                                    u.truncate(rng.below(u.len() as u64) as usize);
                                }
                                1 if !u.is_empty() => {
                                    let i = rng.below(u.len() as u64) as usize;
                                    u[i] = junk[rng.below(junk.len() as u64) as usize].clone();
                                }
                                2 if !u.is_empty() => {
                                    let i = rng.below(u.len() as u64) as usize;
                                    u.remove(i);
                                }
                                3 if !u.is_empty() => {
                                    let i = rng.below(u.len() as u64) as usize;
                                    let x = u[i].clone();
                                    u.insert(i, x);
                                }
                                4 => u.insert(0, junk[rng.below(junk.len() as u64) as usize].clone()),
                                _ => u.push(junk[rng.below(junk.len() as u64) as usize].clone()),
                            }
                            let other = if rng.chance(25) { if human { "C" } else { "H" } } else { m };
                            writeln!(f, "de {other} {} | {}", type_of(v), u.iter().map(show).collect::<Vec<_>>().join(" ")).unwrap();
                        }
                    }
                    writeln!(f, "end").unwrap();
                }
            }
            true
        }
        "serdetok-run" => {
            let cases = read_cases(&args[2]);
            let mut obs = std::io::BufWriter::new(std::fs::File::create(&args[3]).unwrap());
            let mut orc = std::io::BufWriter::new(std::fs::File::create(&args[4]).unwrap());
            let (mut nser, mut nde, mut nrt) = (0u64, 0u64, 0u64);
            for (id, lines) in &cases {
                writeln!(obs, "case {id}").unwrap();
                for l in lines {
                    let t: Vec<&str> = l.split_whitespace().collect();
                    if t.len() < 3 {
                        continue;
                    }
                    let human = t[1] == "H";
                    if t[0] == "ser" {
                        nser += 1;
                        let Some(v) = parse_value(t[2], &t[3..]) else {
                            writeln!(obs, "BADCASE").unwrap();
                            continue;
                        };
                        let r = std::panic::catch_unwind(|| ser17(&v, human));
                        match r {
                            Err(_) => {
                                writeln!(obs, "PANIC").unwrap();
                                writeln!(orc, "{id} C17 tok-panic Serialize of {} {} panics (mode {})", t[2], value_tokens(&v), t[1]).unwrap();
                            }
                            Ok(Err(e)) => {
                                writeln!(obs, "ERR").unwrap();
                                writeln!(orc, "{id} C17 tok-ser-error Serialize of {} {} fails in mode {}: {e}", t[2], value_tokens(&v), t[1]).unwrap();
                            }
                            Ok(Ok(toks)) => {
                                writeln!(obs, "TOK {}", toks.iter().map(show).collect::<Vec<_>>().join(" ")).unwrap();
                                // the property itself, at the data-model level: the value survives
                                nrt += 1;
                                match std::panic::catch_unwind(|| de17(t[2], &toks, human)) {
                                    Err(_) => writeln!(orc, "{id} C17 tok-panic Deserialize of the tokens of {} {} panics (mode {})", t[2], value_tokens(&v), t[1]).unwrap(),
                                    Ok(Err(e)) => writeln!(orc, "{id} C17 tok-roundtrip {} {} does not deserialize from its own tokens in mode {}: {e}", t[2], value_tokens(&v), t[1]).unwrap(),
                                    Ok(Ok((v2, used))) => {
                                        if !same(&v, &v2) || used != toks.len() {
                                            writeln!(orc, "{id} C17 tok-roundtrip {} {} comes back as {} from its own tokens in mode {} ({} of {} tokens used)", t[2], value_tokens(&v), value_tokens(&v2), t[1], used, toks.len()).unwrap();
                                        }
                                    }
                                }
                            }
                        }
                    } else if t[0] == "de" {
                        nde += 1;
                        let bar = t.iter().position(|x| *x == "|").unwrap_or(t.len());
                        let toks: Option<Vec<Tok>> = t[bar + 1..].iter().map(|x| parse(x)).collect();
                        let Some(toks) = toks else {
                            writeln!(obs, "BADCASE").unwrap();
                            continue;
                        };
                        match std::panic::catch_unwind(|| de17(t[2], &toks, human)) {
                            Err(_) => {
                                writeln!(obs, "PANIC").unwrap();
                                writeln!(orc, "{id} C17 tok-panic Deserialize of {} from `{}` panics (mode {})", t[2], t[bar + 1..].join(" "), t[1]).unwrap();
                            }
                            Ok(Err(_)) => writeln!(obs, "ERR").unwrap(),
                            Ok(Ok((v, used))) => writeln!(obs, "VAL {} | {}", value_tokens(&v), toks.len() - used).unwrap(),
                        }
                    }
                }
                writeln!(obs, "end").unwrap();
            }
            let mut st = std::fs::File::create(&args[5]).unwrap();
            writeln!(st, "{{\"cases\": {}, \"serialize_lines\": {}, \"deserialize_lines\": {}, \"roundtrips_through_tokens\": {}, \"distinct_nontrivial\": {}}}", cases.len(), nser, nde, nrt, cases.len()).unwrap();
            true
        }
        _ => false,
    }
}
