//! binspec: the document side of the binary format (kind `binspec`), properties C03 and C04.
//! The document codec is coq/Spec/BinSpec.v (+ Spec/Lz4.v), extracted and run by `modelrun binspec`.
//!
//!   binspec-gen   --seed S --cases N --out FILE        forest cases `s<k>` (C03) and logical-file cases `e<k>` (C04)
//!   binspec-run   CASES OBS ORACLE STATS               C03: real `Serializer` x {None, Lz4, Zstd}; writes CASES.hints
//!                                                      (`file <comp> <hex>`, `zstd <compressed> <inflated>`) for modelrun
//!   binspec-judge CASES MODELOUT ORACLE STATS          compares what modelrun printed with the source DOM (C03) /
//!                                                      feeds the spec-encoded bytes to `rbx_binary::from_reader` (C04)
//!
//! C03  real bytes -> (own de-framing only to find the Zstandard chunks, which are inflated through the crate's
//!      chunk reader: declared non-independent; LZ4 is inflated by the extracted Coq decoder) -> extracted
//!      `bspec_decode_gen` -> `bspec_to_dom` -> typed by the reflection database (`raise`) -> compared with the source
//!      forest by the C01 normalisation oracle (`binoracle::compare_roundtrip`); every structural clause is evaluated
//!      by the extracted boolean functions.  Oracle lines `<case> C03 <key> comp=.. <text>`.  Under the *literal* reading
//!      of the document the differences that disappear under the amended reading are reported as `doc-<what>`.
//! C04  logical file + choices -> extracted `bspec_encode` -> real reader -> DOM observation compared with
//!      `bspec_to_dom` (typed by `raise`); the same chunks re-framed with the real LZ4 / Zstandard compressors
//!      (all-lz4, all-zstd, mixed).  Oracle lines `<case> C04 <key> variant=.. tags=.. <text>`; key = the case's primary tag.
//!
//! `raise` is the only place where the reflection database is consulted on the document side: the document
//! describes wire types and serialized names, the DOM holds database types under canonical names
//! (String -> Tags / Attributes / ContentId / MaterialColors / BinaryString; Int32 -> Int64 and Float32 -> Float64
//! where the database declares the wider type).
use crate::binfile::{decode, encode, guarded, Dec, Enc};
use crate::binoracle;
use crate::forest::{self, Catalogue, Forest, GenCfg, Node};
use crate::rng::Rng;
use crate::util::*;
use crate::val::{self, hex, unhex, RefCtx, Toks};
use rbx_binary::CompressionType;
use rbx_dom_weak::WeakDom;
use rbx_reflection::DataType;
use rbx_types::*;
use std::collections::{BTreeMap, BTreeSet, HashMap, HashSet};
use std::io::Write;

// ------------------------------------------------------------------------------------------ framing per the document

pub struct RawChunk {
    pub name: [u8; 4],
    pub clen: u32,
    pub ulen: u32,
    pub data: Vec<u8>,
}

/// docs/binary.md "Chunks": name(4) compressed-length(u32) uncompressed-length(u32) reserved(4) data
pub fn deframe_doc(bytes: &[u8]) -> Option<Vec<RawChunk>> {
    if bytes.len() < 32 {
        return None;
    }
    let mut pos = 32;
    let mut out = Vec::new();
    while pos < bytes.len() {
        if pos + 16 > bytes.len() {
            return None;
        }
        let name = [bytes[pos], bytes[pos + 1], bytes[pos + 2], bytes[pos + 3]];
        let clen = u32::from_le_bytes([bytes[pos + 4], bytes[pos + 5], bytes[pos + 6], bytes[pos + 7]]);
        let ulen = u32::from_le_bytes([bytes[pos + 8], bytes[pos + 9], bytes[pos + 10], bytes[pos + 11]]);
        let body = if clen == 0 { ulen } else { clen } as usize;
        if pos + 16 + body > bytes.len() {
            return None;
        }
        out.push(RawChunk { name, clen, ulen, data: bytes[pos + 16..pos + 16 + body].to_vec() });
        pos += 16 + body;
        if &name == b"END\0" {
            break;
        }
    }
    Some(out)
}

fn frame_doc(name: &[u8], clen: u32, ulen: u32, data: &[u8]) -> Vec<u8> {
    let mut v = Vec::new();
    let mut n = name.to_vec();
    n.resize(4, 0);
    v.extend_from_slice(&n[..4]);
    v.extend_from_slice(&clen.to_le_bytes());
    v.extend_from_slice(&ulen.to_le_bytes());
    v.extend_from_slice(&[0, 0, 0, 0]);
    v.extend_from_slice(data);
    v
}

const ZSTD_MAGIC: [u8; 4] = [0x28, 0xb5, 0x2f, 0xfd];

/// inflate one Zstandard chunk through the crate's chunk reader (non-independent by declaration)
fn inflate_zstd(c: &RawChunk) -> Option<Vec<u8>> {
    let framed = frame_doc(&c.name, c.clen, c.ulen, &c.data);
    guarded(|| rbx_binary::verif::Chunk::decode(&mut &framed[..])).ok()?.ok().map(|x| x.data)
}

/// the compressed body the real compressors produce for `data` (None: stored uncompressed)
fn compress_real(data: &[u8], c: CompressionType) -> Option<Vec<u8>> {
    let name: &'static [u8] = b"XXXX";
    let mut b = rbx_binary::verif::ChunkBuilder::new(name, c);
    b.write_all(data).ok()?;
    let mut out = Vec::new();
    b.dump(&mut out).ok()?;
    let clen = u32::from_le_bytes([out[4], out[5], out[6], out[7]]);
    if clen == 0 {
        None
    } else {
        Some(out[16..].to_vec())
    }
}

// ------------------------------------------------------------------------------------------ spec DOM -> typed DOM

#[derive(Clone, Debug)]
enum Wire {
    Str(Vec<u8>),
    V(Variant),
}

struct SNode {
    label: u64,
    parent: u64,
    class: String,
    name: String,
    props: Vec<(String, Wire)>,
}

fn utf8(b: Vec<u8>) -> Result<String, String> {
    String::from_utf8(b).map_err(|_| "not UTF-8".to_string())
}

/// node/prop lines printed by modelrun (forest-format.md observation), `Str` kept as raw bytes
fn parse_spec_dom(lines: &[String]) -> Result<Vec<SNode>, String> {
    let mut out: Vec<SNode> = Vec::new();
    let mut ctx = RefCtx::new();
    for l in lines {
        let mut t = Toks::new(l);
        match t.word()? {
            "node" => {
                let label = t.u64()?;
                let parent = t.u64()?;
                let class = utf8(t.bytes()?)?;
                let name = utf8(t.bytes()?)?;
                out.push(SNode { label, parent, class, name, props: Vec::new() });
            }
            "prop" => {
                let pname = utf8(t.bytes()?)?;
                let rest = l.splitn(3, ' ').nth(2).unwrap_or("");
                let w = if let Some(h) = rest.strip_prefix("Str ") {
                    Wire::Str(unhex(h.trim())?)
                } else {
                    Wire::V(val::parse(&mut t, &mut ctx)?)
                };
                out.last_mut().ok_or("prop before node")?.props.push((pname, w));
            }
            w => return Err(format!("unexpected line `{w}`")),
        }
    }
    Ok(out)
}

/// what a reader that knows the reflection database makes of (serialized name, wire value) on `class`
fn raise(class: &str, pname: &str, w: &Wire, keep_empty_tags: bool) -> Result<(String, Variant), String> {
    let db = rbx_reflection_database::get();
    let d = match rbx_binary::verif::find_property_descriptors(db, class.into(), pname.into()) {
        None => {
            return Ok((pname.to_string(), match w {
                Wire::Str(b) => Variant::BinaryString(b.clone().into()),
                Wire::V(v) => v.clone(),
            }))
        }
        Some(d) => d,
    };
    let name = d.canonical.name.to_string();
    let target = match &d.canonical.data_type {
        DataType::Value(t) => Some(*t),
        _ => None,
    };
    let v = match (w, target) {
        (Wire::Str(b), Some(VariantType::String)) => Variant::String(utf8(b.clone())?),
        (Wire::Str(b), Some(VariantType::BinaryString)) => Variant::BinaryString(b.clone().into()),
        (Wire::Str(b), Some(VariantType::ContentId)) => Variant::ContentId(utf8(b.clone())?.into()),
        (Wire::Str(b), Some(VariantType::Content)) => Variant::Content(Content::from_uri(utf8(b.clone())?)),
        // blobs: opaque at this level; one that its own codec rejects stays a byte string
        // Tags: the NUL-separated pieces, empty ones kept (Tags::decode drops them: recorded finding of C17, not a matter of the file format)
        (Wire::Str(b), Some(VariantType::Tags)) if !keep_empty_tags => Tags::decode(b).map(Variant::Tags).unwrap_or_else(|_| Variant::BinaryString(b.clone().into())),
        (Wire::Str(b), Some(VariantType::Tags)) => match String::from_utf8(b.clone()) {
            Ok(st) => {
                let mut t = Tags::new();
                if !st.is_empty() {
                    for piece in st.split('\0') {
                        t.push(piece);
                    }
                }
                Variant::Tags(t)
            }
            Err(_) => Variant::BinaryString(b.clone().into()),
        },
        (Wire::Str(b), Some(VariantType::Attributes)) => Attributes::from_reader(&b[..]).map(Variant::Attributes).unwrap_or_else(|_| Variant::BinaryString(b.clone().into())),
        (Wire::Str(b), Some(VariantType::MaterialColors)) => MaterialColors::decode(b).map(Variant::MaterialColors).unwrap_or_else(|_| Variant::BinaryString(b.clone().into())),
        (Wire::Str(b), _) => Variant::BinaryString(b.clone().into()),
        (Wire::V(Variant::Int32(x)), Some(VariantType::Int64)) => Variant::Int64(*x as i64),
        (Wire::V(Variant::Float32(x)), Some(VariantType::Float64)) => Variant::Float64(*x as f64),
        (Wire::V(v), _) => v.clone(),
    };
    Ok((name, v))
}

/// typed forest of a spec DOM; Refs inside values are synthetic refs of the spec's labels
fn raise_dom(nodes: &[SNode], keep_empty_tags: bool) -> Result<Forest, String> {
    let mut f = Forest::default();
    for n in nodes {
        let mut props: Vec<(String, Variant)> = Vec::new();
        for (k, w) in &n.props {
            let (k2, v2) = raise(&n.class, k, w, keep_empty_tags).map_err(|e| format!("{}.{k}: {e}", n.class))?;
            if let Some(p) = props.iter_mut().find(|(q, _)| *q == k2) {
                p.1 = v2;
            } else {
                props.push((k2, v2));
            }
        }
        f.nodes.push(Node { label: n.label, parent: n.parent, class: n.class.clone(), name: n.name.clone(), props });
    }
    Ok(f)
}

fn dom_of_spec_lines(lines: &[String], keep_empty_tags: bool) -> Result<WeakDom, String> {
    let nodes = parse_spec_dom(lines)?;
    let f = raise_dom(&nodes, keep_empty_tags)?;
    let mut ctx = RefCtx::new();
    Ok(forest::build_dom(&f, &mut ctx))
}

// ------------------------------------------------------------------------------------------ model output

fn err_name(code: &str) -> String {
    let k = u64::from_str_radix(code, 16).unwrap_or(0);
    match k {
        1 => "eof",
        60 => "lz4-block",
        61 => "lz4-length",
        70 => "file-header",
        71 => "chunk-header-reserved",
        72 => "no-zstd-inflater",
        73 => "inflated-length",
        74 => "trailing-bytes",
        75 => "bool-byte",
        76 => "physicalproperties-flag",
        77 => "rotation-id",
        78 => "object-format",
        79 => "ocf-inner-type-id",
        80 => "content-layout",
        81 => "chunk-version",
        82 => "prop-before-inst",
        83 => "duplicate-chunk",
        84 => "no-prnt",
        85 => "no-end",
        86 => "end-magic",
        87 => "end-compressed",
        88 => "header-counts",
        89 => "duplicate-class-id",
        90 => "sharedstring-index",
        91 => "prnt-incomplete",
        92 => "column-short",
        _ => return format!("code-{k}"),
    }
    .to_string()
}

#[derive(Clone, Debug, PartialEq)]
enum SpecDom {
    Ok(Vec<String>),
    Err(String),
}

/// `dec <comp> <reading> OK` + lines + `enddom` | `dec .. ERR <code>` | `dec .. SAME <comp> <reading>`
fn parse_decs(lines: &[String]) -> (HashMap<(String, String), SpecDom>, HashMap<String, Vec<(String, bool)>>) {
    let mut decs: HashMap<(String, String), SpecDom> = HashMap::new();
    let mut clauses: HashMap<String, Vec<(String, bool)>> = HashMap::new();
    let mut i = 0;
    while i < lines.len() {
        let w: Vec<&str> = lines[i].split(' ').collect();
        i += 1;
        if w[0] == "dec" && w.len() >= 4 {
            let key = (w[1].to_string(), w[2].to_string());
            match w[3] {
                "OK" => {
                    let mut body = Vec::new();
                    while i < lines.len() && lines[i] != "enddom" {
                        body.push(lines[i].clone());
                        i += 1;
                    }
                    i += 1;
                    decs.insert(key, SpecDom::Ok(body));
                }
                "ERR" => {
                    decs.insert(key, SpecDom::Err(w.get(4).unwrap_or(&"0").to_string()));
                }
                "SAME" if w.len() >= 6 => {
                    if let Some(d) = decs.get(&(w[4].to_string(), w[5].to_string())).cloned() {
                        decs.insert(key, d);
                    }
                }
                _ => {}
            }
        } else if w[0] == "clauses" && w.len() >= 2 {
            let v = w[2..].iter().filter_map(|kv| kv.split_once('=')).map(|(k, v)| (k.to_string(), v == "1")).collect();
            clauses.insert(w[1].to_string(), v);
        }
    }
    (decs, clauses)
}

fn cut(s: &str) -> String {
    if s.len() > 220 {
        format!("{}..", &s[..220])
    } else {
        s.to_string()
    }
}

fn finding_id(text: &str) -> String {
    text.split(':').next().unwrap_or("").to_string()
}

// ------------------------------------------------------------------------------------------ C03 judge

fn doc_key(key: &str, text: &str) -> String {
    if key.contains("uniqueid") || text.contains("UId ") {
        "doc-uniqueid-layout".into()
    } else if key.contains("sharedstring") || text.contains("SStr ") {
        "doc-sharedstring-index-endianness".into()
    } else if key.contains("content") || text.contains("Content ") {
        "doc-content-sourcetypes".into()
    } else {
        format!("doc-{key}")
    }
}

fn judge_c03(id: &str, lines: &[String], model: &[String], out: &mut Vec<String>, st: &mut BTreeMap<String, u64>) {
    let (f, _ctx) = match forest::parse_case(lines) {
        Ok(x) => x,
        Err(e) => {
            out.push(format!("{id} C03 badcase {e}"));
            return;
        }
    };
    if let Some(m) = model.iter().find(|l| l.starts_with("MODELFAIL")) {
        out.push(format!("{id} C03 modelfail {m}"));
        return;
    }
    if model.iter().any(|l| l == "nofiles") {
        return;
    }
    let (decs, clauses) = parse_decs(model);
    for comp in ["none", "lz4", "zstd"] {
        let am = match decs.get(&(comp.to_string(), "amended".to_string())) {
            Some(x) => x,
            None => continue, // the serializer returned Err for this DOM: outside the quantifier
        };
        *st.entry("c03_files_decoded".into()).or_default() += 1;
        let mut seen: HashSet<String> = HashSet::new();
        let mut am_ids: HashSet<String> = HashSet::new();
        let mut am_clean = false;
        match am {
            SpecDom::Err(c) => {
                let k = format!("spec-rejects-{}", err_name(c));
                out.push(format!("{id} C03 {k} comp={comp} the document decoder (amended reading) rejects the written file"));
            }
            SpecDom::Ok(body) => match dom_of_spec_lines(body, true) {
                Err(e) => out.push(format!("{id} C03 untypable comp={comp} the decoded values cannot be typed by the database: {}", cut(&e))),
                Ok(dom) => {
                    let fs = binoracle::compare_roundtrip(&f, &f.roots, &dom);
                    am_clean = fs.is_empty();
                    for x in fs {
                        am_ids.insert(finding_id(&x.text));
                        // which canonical name the database files a serialized name under is C01's business, not the file format's
                        if x.key == "canonical-name-changes" {
                            continue;
                        }
                        // an instance that lacked UniqueId gets the nil default (0,0,0) in the file; building a WeakDom from the
                        // decoded forest regenerates nil / repeated ids (WeakDom's uniqueness rule, C12), exactly as for the reader
                        if x.key == "default-uniqueid-regenerated" || x.key == "nil-uniqueid-regenerated" || (x.key == "uniqueid-regenerated" && x.text.contains("expected `UId 0 0 0`")) {
                            continue;
                        }
                        // which value the serializer fills in for an instance that lacked a property its class-mates carry is C01's
                        // normalisation (d) / C08; C03 speaks about the values that were in the DOM
                        if x.key.starts_with("default-") {
                            *st.entry("c03_default_fill_differences_left_to_C01".into()).or_default() += 1;
                            continue;
                        }
                        // docs/binary.md has no section for type id 0x21 (SecurityCapabilities): the column is an unknown type to the document
                        let key = if x.key.contains("securitycapabilities") { "doc-type-0x21-undocumented".to_string() } else { x.key.clone() };
                        if seen.insert(key.clone()) {
                            out.push(format!("{id} C03 {key} comp={comp} {}", cut(&x.text)));
                        }
                    }
                }
            },
        }
        if am_clean {
            *st.entry("c03_files_equal_to_source".into()).or_default() += 1;
        }
        // the literal reading of the document
        if let Some(lit) = decs.get(&(comp.to_string(), "literal".to_string())) {
            if lit != am {
                match lit {
                    SpecDom::Err(c) => {
                        let k = if c == "5a" {
                            "doc-sharedstring-index-endianness".to_string()
                        } else if c == "50" {
                            "doc-content-sourcetypes".to_string()
                        } else {
                            format!("doc-literal-rejects-{}", err_name(c))
                        };
                        out.push(format!("{id} C03 {k} comp={comp} read literally the document rejects the written file ({}); the amended reading accepts it", err_name(c)));
                    }
                    SpecDom::Ok(body) => match dom_of_spec_lines(body, true) {
                        Err(e) => out.push(format!("{id} C03 doc-untypable comp={comp} literal reading: {}", cut(&e))),
                        Ok(dom) => {
                            let mut seen2 = HashSet::new();
                            for x in binoracle::compare_roundtrip(&f, &f.roots, &dom) {
                                if am_ids.contains(&finding_id(&x.text)) {
                                    continue;
                                }
                                let k = doc_key(&x.key, &x.text);
                                if seen2.insert(k.clone()) {
                                    out.push(format!("{id} C03 {k} comp={comp} document read literally: {}", cut(&x.text)));
                                }
                            }
                        }
                    },
                }
            }
        }
        match clauses.get(comp) {
            None => out.push(format!("{id} C03 clauses-missing comp={comp} modelrun printed no structural clauses")),
            Some(cl) => {
                for (k, v) in cl {
                    *st.entry(format!("clause_{k}_evaluated")).or_default() += 1;
                    if !*v {
                        out.push(format!("{id} C03 clause-{k} comp={comp} the structural clause `{k}` does not hold for the written file"));
                    }
                }
            }
        }
    }
}

// ------------------------------------------------------------------------------------------ C04 judge

fn real_dom_lines(bytes: &[u8]) -> Result<Vec<String>, String> {
    match decode(bytes) {
        Dec::Dom(d) => Ok(forest::print_dom(&d)),
        Dec::Err(c, m) => Err(format!("Err({c}): {m}")),
        Dec::Panic(m) => Err(format!("PANIC: {m}")),
    }
}

fn split_nodes(lines: &[String]) -> Vec<(String, BTreeMap<String, String>)> {
    let mut out: Vec<(String, BTreeMap<String, String>)> = Vec::new();
    for l in lines {
        if l.starts_with("node ") {
            // drop the property count: it is implied by the property lines
            let head = l.rsplitn(2, ' ').nth(1).unwrap_or(l).to_string();
            out.push((head, BTreeMap::new()));
        } else if let Some(rest) = l.strip_prefix("prop ") {
            let (k, v) = rest.split_once(' ').unwrap_or((rest, ""));
            if let Some(n) = out.last_mut() {
                n.1.insert(k.to_string(), v.to_string());
            }
        }
    }
    out
}

fn pname(h: &str) -> String {
    unhex(h).ok().and_then(|b| String::from_utf8(b).ok()).unwrap_or_else(|| h.to_string())
}

/// first difference between the DOM the document describes and the DOM the reader returned
fn first_diff(exp: &[String], got: &[String]) -> Option<String> {
    let (e, g) = (split_nodes(exp), split_nodes(got));
    for k in 0..e.len().max(g.len()) {
        match (e.get(k), g.get(k)) {
            (Some(a), Some(b)) => {
                if a.0 != b.0 {
                    return Some(format!("instance {}: the document describes `{}`, the reader returned `{}`", k + 1, cut(&a.0), cut(&b.0)));
                }
                for (p, v) in &a.1 {
                    match b.1.get(p) {
                        None => return Some(format!("instance {} ({}): property {} = `{}` is missing from what the reader returned", k + 1, a.0, pname(p), cut(v))),
                        Some(w) if w != v => return Some(format!("instance {} property {}: the document describes `{}`, the reader returned `{}`", k + 1, pname(p), cut(v), cut(w))),
                        _ => {}
                    }
                }
                for (p, w) in &b.1 {
                    if !a.1.contains_key(p) {
                        return Some(format!("instance {} ({}): the reader returned a property {} = `{}` the file does not describe", k + 1, a.0, pname(p), cut(w)));
                    }
                }
            }
            (Some(a), None) => return Some(format!("instance {} `{}` is missing from what the reader returned", k + 1, cut(&a.0))),
            (None, Some(b)) => return Some(format!("the reader returned an extra instance {} `{}`", k + 1, cut(&b.0))),
            (None, None) => {}
        }
    }
    None
}

fn judge_c04(id: &str, lines: &[String], model: &[String], out: &mut Vec<String>, st: &mut BTreeMap<String, u64>) {
    let tags: Vec<String> = lines.iter().find(|l| l.starts_with("tag ")).map(|l| l[4..].split(' ').map(|s| s.to_string()).collect()).unwrap_or_default();
    let primary = tags.first().cloned().unwrap_or_else(|| "baseline".to_string());
    let tagstr = tags.join("+");
    if let Some(m) = model.iter().find(|l| l.starts_with("MODELFAIL")) {
        out.push(format!("{id} C04 modelfail {m}"));
        return;
    }
    let get = |p: &str| model.iter().find(|l| l.starts_with(p)).map(|l| l[p.len()..].to_string());
    if get("wf ").as_deref() != Some("1 1") {
        out.push(format!("{id} C04 generator-not-wf tags={tagstr} the generated logical file is not well-formed: wf {:?}", get("wf ")));
        return;
    }
    for r in ["literal", "amended"] {
        let v = get(&format!("rt {r} "));
        if v.as_deref() != Some("OK") {
            out.push(format!("{id} C04 spec-self-roundtrip tags={tagstr} bspec_decode (bspec_encode L) under the {r} reading: {v:?}"));
        }
    }
    // expected DOM
    let dpos = model.iter().position(|l| l.starts_with("dom "));
    let exp = match dpos {
        Some(p) if model[p] == "dom OK" => {
            let body: Vec<String> = model[p + 1..].iter().take_while(|l| *l != "enddom").cloned().collect();
            match dom_of_spec_lines(&body, false) {
                Ok(d) => forest::print_dom(&d),
                Err(e) => {
                    out.push(format!("{id} C04 generator-untypable tags={tagstr} {}", cut(&e)));
                    return;
                }
            }
        }
        _ => {
            out.push(format!("{id} C04 generator-no-dom tags={tagstr} bspec_to_dom: {:?}", dpos.map(|p| model[p].clone())));
            return;
        }
    };
    let am = match get("bytes amended ").and_then(|h| unhex(&h).ok()) {
        Some(b) => b,
        None => {
            out.push(format!("{id} C04 modelfail no amended bytes"));
            return;
        }
    };
    *st.entry("c04_files".into()).or_default() += 1;
    *st.entry(format!("c04_tag_{primary}")).or_default() += 1;
    let mut base_ok = false;
    match real_dom_lines(&am) {
        Ok(got) => match first_diff(&exp, &got) {
            None => base_ok = true,
            Some(d) if tags.iter().any(|t| t == "chunk-order") && (d.contains("describes `Ref ") || d.contains("describes `Content 2")) => {
                out.push(format!("{id} C04 ref-to-later-inst variant=spec-framing tags={tagstr} {d}"))
            }
            Some(d) if std::env::var("BINSPEC_DEBUG").is_ok() => {
                eprintln!("== {id} expected\n{}\n== {id} reader\n{}", exp.join("\n"), got.join("\n"));
                out.push(format!("{id} C04 {primary} variant=spec-framing tags={tagstr} {d}"))
            }
            Some(d) => out.push(format!("{id} C04 {primary} variant=spec-framing tags={tagstr} {d}")),
        },
        Err(e) => out.push(format!("{id} C04 {primary} variant=spec-framing tags={tagstr} the reader fails on a conformant file: {}", cut(&e))),
    }
    if base_ok {
        *st.entry("c04_files_read_as_described".into()).or_default() += 1;
    }
    // the literal reading's bytes
    if !base_ok {
        return;
    }
    for what in ["uniqueid-layout", "sharedstring-index-endianness", "content-sourcetypes"] {
        if let Some(h) = get(&format!("bytes only-{what} ")) {
            if h != "SAME" {
                if let Ok(b) = unhex(&h) {
                    *st.entry(format!("c04_literal_files_{what}")).or_default() += 1;
                    let bad = match real_dom_lines(&b) {
                        Ok(got) => first_diff(&exp, &got),
                        Err(e) => Some(format!("the reader fails: {}", cut(&e))),
                    };
                    match bad {
                        Some(d) => out.push(format!("{id} C04 doc-{what} variant=literal-{what} tags={tagstr} the file written as the document literally says: {d}")),
                        None => *st.entry(format!("c04_literal_files_{what}_read_alike")).or_default() += 1,
                    }
                }
            }
        }
    }
    // the same chunks through the real compressors
    if let Some(cl) = get("chunks ") {
        let toks: Vec<&str> = cl.split(' ').collect();
        let n = usize::from_str_radix(toks[0], 16).unwrap_or(0);
        let mut chunks: Vec<(Vec<u8>, Vec<u8>)> = Vec::new();
        for k in 0..n {
            let nm = unhex(toks[1 + 2 * k]).unwrap_or_default();
            let d = unhex(toks[2 + 2 * k]).unwrap_or_default();
            chunks.push((nm, d));
        }
        let mut rng = Rng::new(id.bytes().fold(7u64, |h, b| h.wrapping_mul(131) ^ b as u64));
        for variant in ["all-lz4", "all-zstd", "mixed", "zstd-stream", "zstd-checksum", "lz4-hc"] {
            let mut file = am[..32].to_vec();
            for (nm, d) in &chunks {
                let c = if nm == b"END\0" {
                    CompressionType::None
                } else {
                    match variant {
                        "all-lz4" => CompressionType::Lz4,
                        "all-zstd" => CompressionType::Zstd,
                        _ => *rng.pick(&[CompressionType::None, CompressionType::Lz4, CompressionType::Zstd]),
                    }
                };
                // frames of OTHER conformant compressors: a streaming Zstandard encoder (the frame header carries no content
                // size), a frame with a content checksum, a high-compression LZ4 block
                let foreign: Option<Vec<u8>> = if nm == b"END\0" || d.is_empty() {
                    None
                } else {
                    match variant {
                        "zstd-stream" => (|| {
                            let mut e = zstd::stream::Encoder::new(Vec::new(), 3).ok()?;
                            std::io::Write::write_all(&mut e, d).ok()?;
                            e.finish().ok()
                        })(),
                        "zstd-checksum" => (|| {
                            let mut e = zstd::stream::Encoder::new(Vec::new(), 19).ok()?;
                            e.include_checksum(true).ok()?;
                            e.set_pledged_src_size(Some(d.len() as u64)).ok()?;
                            std::io::Write::write_all(&mut e, d).ok()?;
                            e.finish().ok()
                        })(),
                        "lz4-hc" => lz4::block::compress(d, Some(lz4::block::CompressionMode::HIGHCOMPRESSION(9)), false).ok(),
                        _ => None,
                    }
                };
                let c = if matches!(variant, "zstd-stream" | "zstd-checksum" | "lz4-hc") { if foreign.is_some() { CompressionType::Lz4 } else { CompressionType::None } } else { c };
                let body = if foreign.is_some() { foreign } else if c == CompressionType::None { None } else { compress_real(d, c) };
                match body {
                    Some(z) => file.extend(frame_doc(nm, z.len() as u32, d.len() as u32, &z)),
                    None => file.extend(frame_doc(nm, 0, d.len() as u32, d)),
                }
            }
            *st.entry("c04_recompressed_files".into()).or_default() += 1;
            let bad = match real_dom_lines(&file) {
                Ok(got) => first_diff(&exp, &got),
                Err(e) => Some(format!("the reader fails: {}", cut(&e))),
            };
            if let Some(d) = bad {
                out.push(format!("{id} C04 mixed-compression variant={variant} tags={tagstr} {d}"));
            }
        }
    }
}

// ------------------------------------------------------------------------------------------ C04 generator

struct KProp {
    name: &'static str,
    ty: u8,
    /// narrower legacy type the document also allows the column to be stored with
    narrow: Option<u8>,
}
struct KClass {
    name: &'static str,
    service: bool,
    props: &'static [KProp],
}
const fn kp(name: &'static str, ty: u8) -> KProp {
    KProp { name, ty, narrow: None }
}
const KNOWN: [KClass; 22] = [
    KClass { name: "Folder", service: false, props: &[kp("Tags", 0x01), kp("AttributesSerialize", 0x01), KProp { name: "SourceAssetId", ty: 0x1b, narrow: Some(0x03) }] },
    KClass { name: "Part", service: false, props: &[kp("Anchored", 0x02), kp("CFrame", 0x10), kp("size", 0x0e), kp("Color3uint8", 0x1a), kp("Transparency", 0x04), kp("Material", 0x12), kp("CustomPhysicalProperties", 0x19), kp("PivotOffset", 0x10), kp("shape", 0x12)] },
    KClass { name: "IntValue", service: false, props: &[KProp { name: "Value", ty: 0x1b, narrow: Some(0x03) }] },
    KClass { name: "NumberValue", service: false, props: &[KProp { name: "Value", ty: 0x05, narrow: Some(0x04) }] },
    KClass { name: "StringValue", service: false, props: &[kp("Value", 0x01)] },
    KClass { name: "ObjectValue", service: false, props: &[kp("Value", 0x13)] },
    KClass { name: "BoolValue", service: false, props: &[kp("Value", 0x02)] },
    KClass { name: "Vector3Value", service: false, props: &[kp("Value", 0x0e)] },
    KClass { name: "CFrameValue", service: false, props: &[kp("Value", 0x10)] },
    KClass { name: "Color3Value", service: false, props: &[kp("Value", 0x0c)] },
    KClass { name: "BrickColorValue", service: false, props: &[kp("Value", 0x0b)] },
    KClass { name: "RayValue", service: false, props: &[kp("Value", 0x08)] },
    KClass { name: "TextLabel", service: false, props: &[kp("FontFace", 0x20), kp("Text", 0x01), kp("TextColor3", 0x0c), kp("Size", 0x07), kp("Position", 0x07), kp("BackgroundTransparency", 0x04), kp("TextSize", 0x04)] },
    KClass { name: "ParticleEmitter", service: false, props: &[kp("Size", 0x15), kp("Color", 0x16), kp("Lifetime", 0x17), kp("Transparency", 0x15)] },
    KClass { name: "ImageLabel", service: false, props: &[kp("SliceCenter", 0x18), kp("ImageContent", 0x22)] },
    KClass { name: "MeshPart", service: false, props: &[kp("MeshContent", 0x22), kp("TextureContent", 0x22), kp("Anchored", 0x02)] },
    KClass { name: "Model", service: false, props: &[kp("WorldPivotData", 0x1e), kp("ModelMeshData", 0x1c), KProp { name: "LevelOfDetail", ty: 0x12, narrow: None }] },
    KClass { name: "Workspace", service: true, props: &[kp("Gravity", 0x04), kp("FallenPartsDestroyHeight", 0x04), kp("WorldPivotData", 0x1e)] },
    KClass { name: "Lighting", service: true, props: &[kp("Ambient", 0x0c), kp("Brightness", 0x04), kp("GlobalShadows", 0x02)] },
    KClass { name: "Handles", service: false, props: &[kp("Faces", 0x09)] },
    KClass { name: "ArcHandles", service: false, props: &[kp("Axes", 0x0a)] },
    KClass { name: "UIPadding", service: false, props: &[kp("PaddingLeft", 0x06), kp("PaddingTop", 0x06)] },
];
const UNKNOWN_CLASSES: [&str; 4] = ["UnkA", "UnkB", "Ünk", "Unk With Space"];
pub const DOC_TYPES: [u8; 31] = [
    0x01, 0x02, 0x03, 0x04, 0x05, 0x06, 0x07, 0x08, 0x09, 0x0a, 0x0b, 0x0c, 0x0d, 0x0e, 0x10, 0x12, 0x13, 0x14, 0x15, 0x16, 0x17, 0x18, 0x19,
    0x1a, 0x1b, 0x1c, 0x1d, 0x1e, 0x1f, 0x20, 0x22,
];

fn hx32(x: f32) -> String {
    format!("{:x}", x.to_bits())
}
fn gz(x: i64) -> String {
    if x < 0 {
        format!("-{:x}", (x as i128).unsigned_abs())
    } else {
        format!("{x:x}")
    }
}
fn gbytes(b: &[u8]) -> String {
    hex(b)
}

struct CellCtx<'a> {
    referents: &'a [i32],
    nsstr: usize,
    junk_bits: bool,
    junk_env: bool,
    junk_ocf: bool,
    /// how many Object items this Content column may still get (the reader assigns them in reverse: own feature)
    objs_left: u32,
    uid_seen: &'a mut HashSet<(u32, u32, i64)>,
}

fn gen_cf_tokens(rng: &mut Rng) -> String {
    let c = val::gen_cframe(rng);
    let m = &c.orientation;
    [c.position.x, c.position.y, c.position.z, m.x.x, m.x.y, m.x.z, m.y.x, m.y.y, m.y.z, m.z.x, m.z.y, m.z.z].iter().map(|x| hx32(*x)).collect::<Vec<_>>().join(" ")
}

/// one value of a column of wire type `ty`, in the token format read by run_binspec.ml
fn gen_cell(rng: &mut Rng, ty: u8, cx: &mut CellCtx) -> String {
    let f = |rng: &mut Rng| hx32(val::gen_f32(rng));
    match ty {
        0x01 => gbytes(val::gen_utf8(rng).as_bytes()),
        0x1d => gbytes(&val::gen_bytes(rng)),
        0x02 => format!("{}", rng.below(2)),
        0x03 => gz(val::gen_i32(rng) as i64),
        0x04 => f(rng),
        0x05 => format!("{:x}", val::gen_f64(rng).to_bits()),
        0x06 => format!("{} {}", f(rng), gz(val::gen_i32(rng) as i64)),
        0x07 => format!("{} {} {} {}", f(rng), gz(val::gen_i32(rng) as i64), f(rng), gz(val::gen_i32(rng) as i64)),
        0x08 => (0..6).map(|_| f(rng)).collect::<Vec<_>>().join(" "),
        0x09 => format!("{:x}", rng.below(64) + if cx.junk_bits { 64 * rng.range(1, 3) } else { 0 }),
        0x0a => format!("{:x}", rng.below(8) + if cx.junk_bits { 8 * rng.range(1, 31) } else { 0 }),
        0x0b => format!("{:x}", *rng.pick(&val::brick_numbers())),
        0x0c | 0x0e => (0..3).map(|_| f(rng)).collect::<Vec<_>>().join(" "),
        0x0d => (0..2).map(|_| f(rng)).collect::<Vec<_>>().join(" "),
        0x10 => gen_cf_tokens(rng),
        0x12 => format!("{:x}", match rng.below(3) { 0 => rng.below(10) as u32, 1 => rng.below(3000) as u32, _ => val::gen_u32(rng) }),
        0x13 => {
            let r = match rng.below(6) {
                0 => -1,
                1 => loop {
                    let x = val::gen_i32(rng);
                    if x != -1 && !cx.referents.contains(&x) {
                        break x;
                    }
                },
                _ => *rng.pick(cx.referents),
            };
            gz(r as i64)
        }
        0x14 => (0..3).map(|_| gz(val::gen_i16(rng) as i64)).collect::<Vec<_>>().join(" "),
        0x15 => {
            let k = rng.below(4);
            let mut s = format!("{k:x}");
            for _ in 0..k * 3 {
                s.push(' ');
                s.push_str(&f(rng));
            }
            s
        }
        0x16 => {
            let k = rng.below(4);
            let mut s = format!("{k:x}");
            for _ in 0..k {
                for _ in 0..4 {
                    s.push(' ');
                    s.push_str(&f(rng));
                }
                s.push(' ');
                s.push_str(&if cx.junk_env { f(rng) } else { "0".to_string() });
            }
            s
        }
        0x17 => format!("{} {}", f(rng), f(rng)),
        0x18 => (0..4).map(|_| f(rng)).collect::<Vec<_>>().join(" "),
        0x19 => {
            if rng.chance(40) {
                "0".to_string()
            } else {
                format!("1 {}", (0..5).map(|_| f(rng)).collect::<Vec<_>>().join(" "))
            }
        }
        0x1a => format!("{:x} {:x} {:x}", rng.below(256), rng.below(256), rng.below(256)),
        0x1b => gz(val::gen_i64(rng)),
        0x1c => format!("{:x}", rng.below(cx.nsstr.max(1) as u64)),
        0x1e => {
            let present = rng.chance(60);
            let c = if present || cx.junk_ocf {
                gen_cf_tokens(rng)
            } else {
                // doc: "the valueless OptionalCoordinateFrame is written as the identity CFrame"
                format!("0 0 0 {o} 0 0 0 {o} 0 0 0 {o}", o = "3f800000")
            };
            format!("{c} {}", present as u8)
        }
        0x1f => loop {
            let u = (val::gen_u32(rng), rng.next() as u32, val::gen_i64(rng));
            if cx.uid_seen.insert(u) {
                break format!("{:x} {:x} {}", u.0, u.1, gz(u.2));
            }
        },
        0x20 => {
            let ft = val::gen_font(rng);
            format!(
                "{} {:x} {:x} {}",
                gbytes(ft.family.as_bytes()),
                ft.weight.as_u16(),
                ft.style.as_u8(),
                gbytes(ft.cached_face_id.as_deref().unwrap_or("").as_bytes())
            )
        }
        0x22 => match rng.below(4) {
            0 => "0".to_string(),
            3 if cx.objs_left > 0 => {
                cx.objs_left -= 1;
                format!("2 {}", gz(if rng.chance(80) { *rng.pick(cx.referents) } else { -1 } as i64))
            }
            _ => format!("1 {}", gbytes(val::gen_utf8(rng).as_bytes())),
        },
        _ => unreachable!(),
    }
}

const FEATURES: [&str; 27] = [
    "baseline",
    "all-types",
    "known-props",
    "meta",
    "unknown-chunk-name",
    "service-format",
    "sparse-referents",
    "sparse-class-ids",
    "prnt-order",
    "chunk-order",
    "prnt-before-inst",
    "widen-i32-i64",
    "widen-f32-f64",
    "prop-ends-after-name",
    "unknown-type-id",
    "lz4-literal-blocks",
    "faces-axes-meaningless-bits",
    "colorsequence-envelope",
    "ocf-valueless-cframe",
    "rotation-written-in-full",
    "content-external-refs",
    "no-name-property",
    "color3uint8-unknown-property",
    "bytecode-type",
    "content-object-order",
    "combo",
    "combo",
];

/// a valid attribute blob (rbx_types writer; attribute blobs are opaque at this level, C14 owns them)
fn gen_attr_blob(rng: &mut Rng) -> Vec<u8> {
    let mut a = Attributes::new();
    for _ in 0..rng.below(3) {
        let v = match rng.below(3) {
            0 => Variant::Bool(rng.chance(50)),
            1 => Variant::Float64(val::gen_f64(rng)),
            _ => Variant::BinaryString(val::gen_bytes(rng).into()),
        };
        a.insert(val::gen_utf8(rng), v);
    }
    let mut out = Vec::new();
    let _ = a.to_writer(&mut out);
    out
}

fn gen_lfile(rng: &mut Rng, primary: &str) -> Vec<String> {
    let combo = primary == "combo";
    let mut tags: Vec<String> = vec![primary.to_string()];
    let mut on = |rng: &mut Rng, t: &str, tags: &mut Vec<String>| -> bool {
        let v = primary == t || (combo && rng.chance(35));
        if v && primary != t {
            tags.push(t.to_string());
        }
        v
    };
    let f_all = on(rng, "all-types", &mut tags);
    let f_known = on(rng, "known-props", &mut tags) || primary.starts_with("widen") || primary == "service-format";
    let f_meta = on(rng, "meta", &mut tags);
    let f_unkchunk = on(rng, "unknown-chunk-name", &mut tags);
    let f_service = on(rng, "service-format", &mut tags);
    let f_sparse_ref = on(rng, "sparse-referents", &mut tags);
    let f_sparse_cls = on(rng, "sparse-class-ids", &mut tags);
    let f_prnt = on(rng, "prnt-order", &mut tags);
    let f_order = on(rng, "chunk-order", &mut tags);
    let f_wi = on(rng, "widen-i32-i64", &mut tags);
    let f_wf = on(rng, "widen-f32-f64", &mut tags);
    let f_trunc = on(rng, "prop-ends-after-name", &mut tags);
    let f_unkty = on(rng, "unknown-type-id", &mut tags);
    let f_lz4 = on(rng, "lz4-literal-blocks", &mut tags);
    let f_jbits = on(rng, "faces-axes-meaningless-bits", &mut tags);
    let f_jenv = on(rng, "colorsequence-envelope", &mut tags);
    let f_jocf = on(rng, "ocf-valueless-cframe", &mut tags);
    let f_c3u8 = primary == "color3uint8-unknown-property";
    let f_bytecode = primary == "bytecode-type";
    let f_objorder = primary == "content-object-order";
    let f_prnt_first = primary == "prnt-before-inst";
    let f_rotfull = on(rng, "rotation-written-in-full", &mut tags);
    let f_ext = on(rng, "content-external-refs", &mut tags);
    let f_noname = on(rng, "no-name-property", &mut tags);

    // ---- shape
    let n = match rng.below(5) {
        _ if primary == "content-object-order" => rng.range(3, 7),
        0 => 1,
        1..=3 => rng.range(2, 7),
        _ => rng.range(6, 14),
    } as usize;
    let parents: Vec<Option<usize>> = (0..n).map(|i| if i == 0 || rng.chance(25) { None } else { Some(rng.below(i as u64) as usize) }).collect();
    // ---- classes
    let mut class_names: Vec<(String, bool, Option<usize>)> = Vec::new(); // name, service, index in KNOWN
    let mut inst_class: Vec<usize> = Vec::new();
    for i in 0..n {
        let pick_known = f_known || f_wi || f_wf || f_service || rng.chance(35);
        let (nm, svc, kix) = if f_objorder {
            ("UnkA".to_string(), false, None)
        } else if f_wi && i == 0 {
            ("IntValue".to_string(), false, Some(2))
        } else if f_wf && i == 0 {
            ("NumberValue".to_string(), false, Some(3))
        } else if f_service && i == 0 {
            let k = if rng.chance(50) { 17 } else { 18 };
            (KNOWN[k].name.to_string(), true, Some(k))
        } else if pick_known && rng.chance(70) {
            let k = rng.below(KNOWN.len() as u64) as usize;
            // a service class stored in the regular object format is also what the document allows
            (KNOWN[k].name.to_string(), KNOWN[k].service && f_service, Some(k))
        } else {
            (rng.pick(&UNKNOWN_CLASSES).to_string(), false, None)
        };
        // a service must be a root instance to make sense; keep it anywhere: the document does not say
        let ix = match class_names.iter().position(|c| c.0 == nm) {
            Some(ix) => ix,
            None => {
                class_names.push((nm, svc, kix));
                class_names.len() - 1
            }
        };
        inst_class.push(ix);
    }
    // class order in the file
    let mut corder: Vec<usize> = (0..class_names.len()).collect();
    if f_order || combo {
        rng.shuffle(&mut corder);
    }
    // ---- numbering
    let mut class_ids: Vec<u32> = Vec::new();
    for k in 0..class_names.len() {
        let id = if f_sparse_cls {
            loop {
                let x = match rng.below(3) {
                    0 => val::gen_u32(rng),
                    1 => 0x8000_0000u32.wrapping_add(rng.below(1000) as u32),
                    _ => rng.below(100000) as u32,
                };
                if !class_ids.contains(&x) {
                    break x;
                }
            }
        } else {
            k as u32
        };
        class_ids.push(id);
    }
    // members per class in file order; referents
    let mut referents: Vec<i32> = vec![0; n];
    {
        let mut used: HashSet<i32> = HashSet::new();
        let mut next = 0i32;
        for &c in &corder {
            for i in 0..n {
                if inst_class[i] == c {
                    let r = if f_sparse_ref {
                        loop {
                            let x = match rng.below(4) {
                                0 => val::gen_i32(rng),
                                1 => -(rng.range(2, 100000) as i32),
                                2 => i32::MAX - rng.below(50) as i32,
                                _ => rng.below(1_000_000) as i32,
                            };
                            if x != -1 && used.insert(x) {
                                break x;
                            }
                        }
                    } else {
                        let x = next;
                        next += 1;
                        used.insert(x);
                        x
                    };
                    referents[i] = r;
                }
            }
        }
    }
    // ---- shared strings
    let pool: [&[u8]; 4] = [b"", b"shared-a", b"shared-b\0\xff", b"mesh data 0123456789"];
    let nsstr = if f_all || rng.chance(40) { rng.range(1, 4) as usize } else { 0 };
    let mut out: Vec<String> = Vec::new();
    out.push("opt mode c04".to_string());
    // ---- properties
    let mut uid_seen: HashSet<(u32, u32, i64)> = HashSet::new();
    let mut prop_lines: Vec<(usize, String)> = Vec::new(); // (class index, line)
    let mut has_sstr_col = false;
    for (ci, (cname, _svc, kix)) in class_names.iter().enumerate() {
        let members: Vec<usize> = (0..n).filter(|i| inst_class[*i] == ci).collect();
        let cnt = members.len();
        let cid = class_ids[ci];
        let mut plan: Vec<(String, u8)> = Vec::new();
        if !(f_noname && rng.chance(60)) {
            plan.push(("Name".to_string(), 0x01));
        }
        if let Some(k) = kix {
            for p in KNOWN[*k].props {
                if rng.chance(60) || f_known {
                    let mut ty = p.ty;
                    if let Some(nt) = p.narrow {
                        if (f_wi && nt == 0x03) || (f_wf && nt == 0x04) {
                            ty = nt;
                        }
                    }
                    plan.push((p.name.to_string(), ty));
                }
            }
        }
        if kix.is_none() || rng.chance(30) {
            let k = if f_all { DOC_TYPES.len() } else { rng.below(5) as usize };
            // Color3uint8 on a property the database does not know and Bytecode have their own features
            let mut tys: Vec<u8> = DOC_TYPES.iter().copied().filter(|t| *t != 0x1a && *t != 0x1d).collect();
            let k = k.min(tys.len());
            if !f_all {
                rng.shuffle(&mut tys);
            }
            for t in tys.into_iter().take(k) {
                plan.push((format!("U{t:02x}"), t));
            }
        }
        if f_jbits {
            plan.push(("J09".to_string(), 0x09));
            plan.push(("J0a".to_string(), 0x0a));
        }
        if f_jenv {
            plan.push(("J16".to_string(), 0x16));
        }
        if f_jocf {
            plan.push(("J1e".to_string(), 0x1e));
        }
        if f_c3u8 {
            plan.push(("U1a".to_string(), 0x1a));
        }
        if f_bytecode {
            plan.push(("U1d".to_string(), 0x1d));
        }
        if f_rotfull {
            plan.push(("RotCF".to_string(), 0x10));
        }
        if f_ext {
            plan.push(("ExtContent".to_string(), 0x22));
        }
        if f_objorder {
            plan.push(("Objs".to_string(), 0x22));
        }
        for (pname, ty) in plan {
            if ty == 0x1c && nsstr == 0 {
                continue;
            }
            if ty == 0x1c {
                has_sstr_col = true;
            }
            let mut cx = CellCtx { referents: &referents, nsstr, junk_bits: f_jbits && pname.starts_with('J'), junk_env: f_jenv, junk_ocf: f_jocf, objs_left: if pname == "Objs" { 1000 } else { 1 }, uid_seen: &mut uid_seen };
            let mut cells: Vec<String> = Vec::new();
            for m in &members {
                if pname == "Name" {
                    cells.push(gbytes(format!("n{m}").as_bytes()));
                } else if pname == "Objs" {
                    // every item an Object, distinct referents: the assignment order is visible
                    cells.push(format!("2 {}", gz(referents[(*m + 1) % n] as i64)));
                } else if pname == "AttributesSerialize" {
                    cells.push(gbytes(&gen_attr_blob(rng)));
                } else {
                    cells.push(gen_cell(rng, ty, &mut cx));
                }
            }
            let mut line = format!("lf prop {cid:x} {} V {ty:x} {cnt:x} {}", gbytes(pname.as_bytes()), cells.join(" "));
            if ty == 0x22 {
                let k = if f_ext { rng.range(1, 3) } else { 0 };
                line.push_str(&format!(" ext {k:x}"));
                for _ in 0..k {
                    line.push_str(&format!(" {}", gz(val::gen_i32(rng) as i64)));
                }
            }
            prop_lines.push((ci, line.trim_end().to_string()));
        }
        if f_trunc {
            prop_lines.push((ci, format!("lf prop {cid:x} {} T", gbytes(b"EndsAfterName"))));
            if kix.is_some() {
                // also for a property the database knows
                let k = kix.unwrap();
                prop_lines.push((ci, format!("lf prop {cid:x} {} T", gbytes(KNOWN[k].props[0].name.as_bytes()))));
            }
        }
        if f_unkty {
            let ty = *rng.pick(&[0x00u8, 0x0f, 0x11, 0x23, 0x24, 0x40, 0x7f, 0xff]);
            prop_lines.push((ci, format!("lf prop {cid:x} {} U {ty:x} {}", gbytes(b"UnknownTypeId"), gbytes(&val::gen_bytes(rng)))));
        }
    }
    // PROP order inside the file: grouped by class in class order (Roblox), or shuffled
    let mut porder: Vec<usize> = Vec::new();
    for &c in &corder {
        for (k, (ci, _)) in prop_lines.iter().enumerate() {
            if *ci == c {
                porder.push(k);
            }
        }
    }
    if f_order {
        rng.shuffle(&mut porder);
    }
    // ---- emit
    if f_meta {
        let k = rng.range(0, 3);
        let mut s = format!("lf meta 1 {k:x}");
        for j in 0..k {
            if j == 0 {
                s.push_str(&format!(" {} {}", gbytes(b"ExplicitAutoJoints"), gbytes(if rng.chance(50) { b"true" } else { b"false" })));
            } else {
                s.push_str(&format!(" {} {}", gbytes(val::gen_utf8(rng).as_bytes()), gbytes(val::gen_utf8(rng).as_bytes())));
            }
        }
        out.push(s);
    } else {
        out.push("lf meta 0".into());
    }
    if nsstr > 0 || has_sstr_col {
        let mut s = format!("lf sstr 1 {nsstr:x}");
        for j in 0..nsstr {
            let md5: Vec<u8> = if rng.chance(50) { vec![0; 16] } else { (0..16).map(|_| rng.next() as u8).collect() };
            s.push_str(&format!(" {} {}", gbytes(&md5), gbytes(pool[j % pool.len()])));
        }
        out.push(s);
    } else {
        out.push("lf sstr 0".into());
    }
    for &c in &corder {
        let members: Vec<usize> = (0..n).filter(|i| inst_class[*i] == c).collect();
        let svc = class_names[c].1;
        let mut s = format!("lf class {:x} {} {} {:x}", class_ids[c], gbytes(class_names[c].0.as_bytes()), svc as u8, members.len());
        for m in &members {
            s.push_str(&format!(" {}", gz(referents[*m] as i64)));
        }
        s.push_str(&format!(" {}", if svc { gbytes(&vec![1u8; members.len()]) } else { "-".to_string() }));
        out.push(s);
    }
    for k in &porder {
        out.push(prop_lines[*k].1.clone());
    }
    // PRNT rows
    let mut rows: Vec<usize> = Vec::new();
    {
        // children first = post-order (what Roblox writes)
        fn post(i: usize, parents: &[Option<usize>], out: &mut Vec<usize>) {
            for c in 0..parents.len() {
                if parents[c] == Some(i) {
                    post(c, parents, out);
                }
            }
            out.push(i);
        }
        for i in 0..n {
            if parents[i].is_none() {
                post(i, &parents, &mut rows);
            }
        }
        if f_prnt {
            match rng.below(3) {
                0 => rows.reverse(),                       // parents first
                1 => rows = (0..n).collect(),              // creation order (parents first, siblings in order)
                _ => rng.shuffle(&mut rows),
            }
        }
    }
    let mut s = format!("lf prnt {:x}", rows.len());
    for r in &rows {
        s.push_str(&format!(" {} {}", gz(referents[*r] as i64), gz(parents[*r].map(|p| referents[p]).unwrap_or(-1) as i64)));
    }
    out.push(s);
    let mut nunk = 0;
    if f_unkchunk {
        nunk = rng.range(1, 3) as usize;
        for _ in 0..nunk {
            let nm: &[u8] = *rng.pick(&[&b"SIGN"[..], b"XXXX", b"ab\0\0", b"meta", b"END1", b"\0\0\0\0"]);
            out.push(format!("lf unknown {} {}", gbytes(nm), gbytes(&val::gen_bytes(rng))));
        }
    }
    // ---- choices: chunk order
    let ncls = corder.len();
    let nprops = porder.len();
    let mut keys: Vec<String> = Vec::new();
    if f_order {
        // a random order that keeps every INST before the PROPs of its class (and END last)
        let mut pending: Vec<String> = vec!["M".into()];
        keys.push("S".into());
        for k in 0..ncls {
            pending.push(format!("I{k:x}"));
        }
        for k in 0..nunk {
            pending.push(format!("U{k:x}"));
        }
        let mut props_left: Vec<usize> = (0..nprops).collect();
        let mut inst_done: HashSet<usize> = HashSet::new();
        while !pending.is_empty() || !props_left.is_empty() {
            let ready: Vec<usize> = props_left
                .iter()
                .copied()
                .filter(|k| {
                    let ci = prop_lines[porder[*k]].0;
                    let pos = corder.iter().position(|c| *c == ci).unwrap();
                    inst_done.contains(&pos)
                })
                .collect();
            if inst_done.len() == ncls && !keys.contains(&"R".to_string()) && !pending.contains(&"R".to_string()) {
                pending.push("R".into());
            }
            let total = pending.len() + ready.len();
            let j = rng.below(total as u64) as usize;
            if j < pending.len() {
                let k = pending.remove(j);
                if let Some(x) = k.strip_prefix('I') {
                    inst_done.insert(usize::from_str_radix(x, 16).unwrap());
                }
                keys.push(k);
            } else {
                let p = ready[j - pending.len()];
                props_left.retain(|x| *x != p);
                keys.push(format!("P{p:x}"));
            }
        }
    } else {
        keys.push("M".into());
        keys.push("S".into());
        for k in 0..ncls {
            keys.push(format!("I{k:x}"));
        }
        for k in 0..nprops {
            keys.push(format!("P{k:x}"));
        }
        keys.push("R".into());
        for k in 0..nunk {
            keys.push(format!("U{k:x}"));
        }
    }
    if f_prnt_first {
        // the hierarchy before the INST chunks it talks about
        keys.retain(|k| k != "R");
        keys.insert(rng.below(2) as usize, "R".into());
    }
    out.push(format!("ch order {}", keys.join(" ")));
    let comp: String = (0..keys.len() + 1).map(|_| if f_lz4 && rng.chance(60) { '1' } else { '0' }).collect();
    out.push(format!("ch comp {comp}"));
    out.push(format!("ch rotids {}", if f_rotfull { 0 } else { 1 }));
    out.insert(1, format!("tag {}", tags.join(" ")));
    out
}

// ------------------------------------------------------------------------------------------ cli

fn case_mode(lines: &[String]) -> &'static str {
    if lines.iter().any(|l| l == "opt mode c04") {
        "c04"
    } else {
        "c03"
    }
}

pub fn cli(args: &[String]) -> bool {
    if args.len() < 2 {
        return false;
    }
    match args[1].as_str() {
        "binspec-gen" => {
            let seed = arg_num(args, "--seed", 1);
            let cases = arg_num(args, "--cases", 100);
            let out = arg_val(args, "--out").expect("--out");
            let only = arg_val(args, "--only");
            let mut rng = Rng::new(seed ^ 0xb5bec);
            let mut cat = Catalogue::new();
            let mut w = std::io::BufWriter::new(std::fs::File::create(&out).expect("create"));
            for k in 0..cases {
                let mut r = rng.fork();
                let c03 = match only.as_deref() {
                    Some("c03") => true,
                    Some("c04") => false,
                    _ => k % 2 == 0,
                };
                if c03 {
                    let mut cfg = GenCfg::default();
                    cfg.hostile = false;
                    cfg.max_nodes = arg_num(args, "--max-nodes", 16);
                    if k % 10 == 8 {
                        cfg.unknown_pct = 100;
                    }
                    let mut f = forest::gen_forest(&mut r, &mut cat, &cfg);
                    f.opts.push(("mode".into(), "c03".into()));
                    write_case(&mut w, &format!("s{k}"), &forest::case_lines(&f));
                } else {
                    let feat = FEATURES[((k / 2) % FEATURES.len() as u64) as usize];
                    let lines = gen_lfile(&mut r, feat);
                    write_case(&mut w, &format!("e{k}"), &lines);
                }
            }
            true
        }
        "binspec-run" => {
            let cases = read_cases(&args[2]);
            let mut obs = std::io::BufWriter::new(std::fs::File::create(&args[3]).expect("obs"));
            let mut orc = std::io::BufWriter::new(std::fs::File::create(&args[4]).expect("oracle"));
            let mut hints = std::io::BufWriter::new(std::fs::File::create(format!("{}.hints", &args[2])).expect("hints"));
            let mut st: BTreeMap<String, u64> = BTreeMap::new();
            let mut distinct = HashSet::new();
            let mut nontriv = 0u64;
            for (id, lines) in &cases {
                let mut o = Vec::new();
                let mut h = Vec::new();
                if case_mode(lines) == "c04" {
                    o.push("lfile".to_string());
                    *st.entry("c04_cases".into()).or_default() += 1;
                    if lines.iter().filter(|l| l.starts_with("lf class ")).count() >= 1 && distinct.insert(lines.join("\n")) {
                        nontriv += 1;
                    }
                } else {
                    *st.entry("c03_cases".into()).or_default() += 1;
                    match forest::parse_case(lines) {
                        Err(e) => o.push(format!("BADCASE {e}")),
                        Ok((f, mut ctx)) => {
                            if f.nodes.len() >= 2 && distinct.insert(lines.join("\n")) {
                                nontriv += 1;
                            }
                            let dom = forest::build_dom(&f, &mut ctx);
                            let roots: Vec<Ref> = f.roots.iter().map(|l| ctx.ref_of(*l)).collect();
                            let mut zseen: HashSet<Vec<u8>> = HashSet::new();
                            for (c, cn) in [(CompressionType::None, "none"), (CompressionType::Lz4, "lz4"), (CompressionType::Zstd, "zstd")] {
                                match encode(&dom, &roots, c) {
                                    Enc::Bytes(b) => {
                                        o.push(format!("enc {cn} OK {:x}", b.len()));
                                        *st.entry(format!("c03_encoded_{cn}")).or_default() += 1;
                                        if b.len() > 300_000 {
                                            *st.entry("c03_files_skipped_over_300kB".into()).or_default() += 1;
                                            continue;
                                        }
                                        h.push(format!("file {cn} {}", hex(&b)));
                                        match deframe_doc(&b) {
                                            None => writeln!(orc, "{id} C03 unframeable comp={cn} the written file cannot be split into chunks by the document's framing").unwrap(),
                                            Some(chunks) => {
                                                for ch in &chunks {
                                                    if ch.clen != 0 && ch.data.len() >= 4 && ch.data[..4] == ZSTD_MAGIC && zseen.insert(ch.data.clone()) {
                                                        match inflate_zstd(ch) {
                                                            Some(d) => h.push(format!("zstd {} {}", hex(&ch.data), hex(&d))),
                                                            None => writeln!(orc, "{id} C03 zstd-inflate comp={cn} a Zstandard chunk cannot be inflated").unwrap(),
                                                        }
                                                    }
                                                    if ch.clen != 0 {
                                                        *st.entry(format!("c03_compressed_chunks_{cn}")).or_default() += 1;
                                                    }
                                                }
                                            }
                                        }
                                    }
                                    Enc::Err(k, _) => {
                                        o.push(format!("enc {cn} ERR {k}"));
                                        *st.entry("c03_encode_err".into()).or_default() += 1;
                                    }
                                    Enc::Panic(_) => {
                                        o.push(format!("enc {cn} PANIC"));
                                        *st.entry("c03_encode_panic".into()).or_default() += 1;
                                    }
                                }
                            }
                        }
                    }
                }
                write_case(&mut obs, id, &o);
                write_case(&mut hints, id, &h);
            }
            let mut j = serde_json::Map::new();
            j.insert("cases".into(), serde_json::json!(cases.len()));
            j.insert("distinct_nontrivial".into(), serde_json::json!(nontriv));
            for (k, v) in st {
                j.insert(k, serde_json::json!(v));
            }
            std::fs::write(&args[5], serde_json::to_string_pretty(&serde_json::Value::Object(j)).unwrap()).expect("stats");
            true
        }
        "binspec-real" => {
            // debugging aid: decode the hex file given as argument with the real reader and print the observation
            let h = std::fs::read_to_string(&args[2]).expect("read");
            match real_dom_lines(&unhex(h.trim()).expect("hex")) {
                Ok(l) => println!("{}", l.join("\n")),
                Err(e) => println!("ERR {e}"),
            }
            true
        }
        "binspec-judge" => {
            let cases = read_cases(&args[2]);
            let model: HashMap<String, Vec<String>> = read_cases(&args[3]).into_iter().collect();
            let mut orc = std::io::BufWriter::new(std::fs::File::create(&args[4]).expect("oracle"));
            let mut st: BTreeMap<String, u64> = BTreeMap::new();
            let empty: Vec<String> = Vec::new();
            for (id, lines) in &cases {
                let m = model.get(id).unwrap_or(&empty);
                let mut out = Vec::new();
                if m.is_empty() {
                    out.push(format!("{id} {} modelfail no model output", if case_mode(lines) == "c04" { "C04" } else { "C03" }));
                } else if case_mode(lines) == "c04" {
                    judge_c04(id, lines, m, &mut out, &mut st);
                } else {
                    judge_c03(id, lines, m, &mut out, &mut st);
                }
                for l in out {
                    writeln!(orc, "{l}").unwrap();
                }
            }
            let mut j = serde_json::Map::new();
            for (k, v) in st {
                j.insert(k, serde_json::json!(v));
            }
            std::fs::write(&args[5], serde_json::to_string_pretty(&serde_json::Value::Object(j)).unwrap()).expect("stats");
            true
        }
        _ => false,
    }
}
