//! val: `rbx_types::Variant` (all 40 variants) <-> the token format of /verif/notes/wire-format.md,
//! plus the boundary-value generator shared by the codec slices (attributes, binary, XML).
//!
//! Conventions (must stay in step with ocaml/mvalue.ml and coq/Model/Value.v):
//!   N      lower-case hex, `0` for zero            Z      optional `-` then hex magnitude
//!   bytes  hex, two digits per byte, `-` if empty  f32/f64  their IEEE bit pattern as N
//!   Ref    hex of its label (0 = Ref::none()), labels handed out by `RefCtx`
//! Floats never pass through a decimal representation, so NaN payloads, signed zeros and subnormals
//! survive.  `String`-like variants require UTF-8 when parsed (an error otherwise); `BinaryString`
//! and `SharedString` carry arbitrary bytes.
use crate::rng::Rng;
use rbx_types::*;
use std::collections::HashMap;
use std::str::FromStr;

// ------------------------------------------------------------------------------------------ tokens

pub struct Toks<'a> {
    v: Vec<&'a str>,
    i: usize,
}

impl<'a> Toks<'a> {
    pub fn new(line: &'a str) -> Toks<'a> {
        Toks { v: line.split_whitespace().collect(), i: 0 }
    }
    pub fn word(&mut self) -> Result<&'a str, String> {
        let w = self.v.get(self.i).copied().ok_or_else(|| "unexpected end of tokens".to_string())?;
        self.i += 1;
        Ok(w)
    }
    pub fn at_end(&self) -> bool {
        self.i >= self.v.len()
    }
    pub fn u128(&mut self) -> Result<u128, String> {
        let w = self.word()?;
        u128::from_str_radix(w, 16).map_err(|e| format!("bad hex number `{w}`: {e}"))
    }
    pub fn u64(&mut self) -> Result<u64, String> {
        let v = self.u128()?;
        u64::try_from(v).map_err(|_| format!("number {v:x} does not fit u64"))
    }
    pub fn u32(&mut self) -> Result<u32, String> {
        let v = self.u128()?;
        u32::try_from(v).map_err(|_| format!("number {v:x} does not fit u32"))
    }
    pub fn u16(&mut self) -> Result<u16, String> {
        let v = self.u128()?;
        u16::try_from(v).map_err(|_| format!("number {v:x} does not fit u16"))
    }
    pub fn u8(&mut self) -> Result<u8, String> {
        let v = self.u128()?;
        u8::try_from(v).map_err(|_| format!("number {v:x} does not fit u8"))
    }
    pub fn usize(&mut self) -> Result<usize, String> {
        Ok(self.u64()? as usize)
    }
    pub fn i128(&mut self) -> Result<i128, String> {
        let w = self.word()?;
        let (neg, mag) = match w.strip_prefix('-') {
            Some(m) => (true, m),
            None => (false, w),
        };
        let m = u128::from_str_radix(mag, 16).map_err(|e| format!("bad signed hex `{w}`: {e}"))?;
        if m > (1u128 << 126) {
            return Err(format!("signed number `{w}` too large"));
        }
        Ok(if neg { -(m as i128) } else { m as i128 })
    }
    pub fn i64(&mut self) -> Result<i64, String> {
        let v = self.i128()?;
        i64::try_from(v).map_err(|_| format!("number {v} does not fit i64"))
    }
    pub fn i32(&mut self) -> Result<i32, String> {
        let v = self.i128()?;
        i32::try_from(v).map_err(|_| format!("number {v} does not fit i32"))
    }
    pub fn i16(&mut self) -> Result<i16, String> {
        let v = self.i128()?;
        i16::try_from(v).map_err(|_| format!("number {v} does not fit i16"))
    }
    pub fn f32(&mut self) -> Result<f32, String> {
        Ok(f32::from_bits(self.u32()?))
    }
    pub fn f64(&mut self) -> Result<f64, String> {
        Ok(f64::from_bits(self.u64()?))
    }
    pub fn bytes(&mut self) -> Result<Vec<u8>, String> {
        unhex(self.word()?)
    }
    pub fn utf8(&mut self) -> Result<String, String> {
        String::from_utf8(self.bytes()?).map_err(|e| format!("string token is not UTF-8: {e}"))
    }
}

pub fn hex(b: &[u8]) -> String {
    if b.is_empty() {
        return "-".to_string();
    }
    const D: &[u8; 16] = b"0123456789abcdef";
    let mut s = String::with_capacity(b.len() * 2);
    for x in b {
        s.push(D[(x >> 4) as usize] as char);
        s.push(D[(x & 15) as usize] as char);
    }
    s
}

pub fn unhex(s: &str) -> Result<Vec<u8>, String> {
    if s == "-" {
        return Ok(Vec::new());
    }
    if s.len() % 2 != 0 {
        return Err(format!("odd number of hex digits in byte token `{}`", &s[..s.len().min(40)]));
    }
    let nib = |c: u8| -> Result<u8, String> {
        match c {
            b'0'..=b'9' => Ok(c - b'0'),
            b'a'..=b'f' => Ok(c - b'a' + 10),
            _ => Err(format!("bad hex digit `{}`", c as char)),
        }
    };
    let b = s.as_bytes();
    let mut out = Vec::with_capacity(b.len() / 2);
    for k in (0..b.len()).step_by(2) {
        out.push(nib(b[k])? << 4 | nib(b[k + 1])?);
    }
    Ok(out)
}

fn n(out: &mut Vec<String>, v: u128) {
    out.push(format!("{v:x}"));
}
fn z(out: &mut Vec<String>, v: i128) {
    if v < 0 {
        out.push(format!("-{:x}", v.unsigned_abs()));
    } else {
        out.push(format!("{v:x}"));
    }
}
fn f(out: &mut Vec<String>, v: f32) {
    n(out, v.to_bits() as u128)
}
fn by(out: &mut Vec<String>, b: &[u8]) {
    out.push(hex(b))
}

// ------------------------------------------------------------------------------------------ Ref labels

/// label <-> Ref.  Label 0 is `Ref::none()`.  Refs met for the first time get the next free label;
/// labels met for the first time get a synthetic Ref that is a function of the label only.
pub struct RefCtx {
    to_label: HashMap<Ref, u64>,
    to_ref: HashMap<u64, Ref>,
    next: u64,
}

pub fn synthetic_ref(label: u64) -> Ref {
    if label == 0 {
        return Ref::none();
    }
    Ref::from_str(&format!("{:x}", (0x5eed_c0de_u128 << 64) | label as u128)).unwrap()
}

impl RefCtx {
    pub fn new() -> RefCtx {
        RefCtx { to_label: HashMap::new(), to_ref: HashMap::new(), next: 1 }
    }
    pub fn bind(&mut self, label: u64, r: Ref) {
        assert!(label != 0 && r.is_some());
        self.to_label.insert(r, label);
        self.to_ref.insert(label, r);
        if label >= self.next {
            self.next = label + 1;
        }
    }
    pub fn label_of(&mut self, r: Ref) -> u64 {
        if r.is_none() {
            return 0;
        }
        if let Some(l) = self.to_label.get(&r) {
            return *l;
        }
        let l = self.next;
        self.bind(l, r);
        l
    }
    pub fn ref_of(&mut self, label: u64) -> Ref {
        if label == 0 {
            return Ref::none();
        }
        if let Some(r) = self.to_ref.get(&label) {
            return *r;
        }
        let r = synthetic_ref(label);
        self.bind(label, r);
        r
    }
}

// ------------------------------------------------------------------------------------------ tables

pub const TERRAIN_MATERIALS: [TerrainMaterials; 21] = [
    TerrainMaterials::Grass,
    TerrainMaterials::Slate,
    TerrainMaterials::Concrete,
    TerrainMaterials::Brick,
    TerrainMaterials::Sand,
    TerrainMaterials::WoodPlanks,
    TerrainMaterials::Rock,
    TerrainMaterials::Glacier,
    TerrainMaterials::Snow,
    TerrainMaterials::Sandstone,
    TerrainMaterials::Mud,
    TerrainMaterials::Basalt,
    TerrainMaterials::Ground,
    TerrainMaterials::CrackedLava,
    TerrainMaterials::Asphalt,
    TerrainMaterials::Cobblestone,
    TerrainMaterials::Ice,
    TerrainMaterials::LeafyGrass,
    TerrainMaterials::Salt,
    TerrainMaterials::Limestone,
    TerrainMaterials::Pavement,
];

/// VariantType in discriminant order (= `vtype` of coq/Model/Value.v)
pub const VARIANT_TYPES: [VariantType; 40] = [
    VariantType::Axes,
    VariantType::BinaryString,
    VariantType::Bool,
    VariantType::BrickColor,
    VariantType::CFrame,
    VariantType::Color3,
    VariantType::Color3uint8,
    VariantType::ColorSequence,
    VariantType::ContentId,
    VariantType::Enum,
    VariantType::Faces,
    VariantType::Float32,
    VariantType::Float64,
    VariantType::Int32,
    VariantType::Int64,
    VariantType::NumberRange,
    VariantType::NumberSequence,
    VariantType::PhysicalProperties,
    VariantType::Ray,
    VariantType::Rect,
    VariantType::Ref,
    VariantType::Region3,
    VariantType::Region3int16,
    VariantType::SharedString,
    VariantType::String,
    VariantType::UDim,
    VariantType::UDim2,
    VariantType::Vector2,
    VariantType::Vector2int16,
    VariantType::Vector3,
    VariantType::Vector3int16,
    VariantType::OptionalCFrame,
    VariantType::Tags,
    VariantType::Attributes,
    VariantType::Font,
    VariantType::UniqueId,
    VariantType::MaterialColors,
    VariantType::SecurityCapabilities,
    VariantType::EnumItem,
    VariantType::Content,
];

pub fn vtype_index(t: VariantType) -> u32 {
    VARIANT_TYPES.iter().position(|x| *x == t).expect("VariantType missing from VARIANT_TYPES") as u32
}

/// index of the VariantType whose `Debug` name is `name`
pub fn vtype_index_by_name(name: &str) -> Option<u32> {
    VARIANT_TYPES.iter().position(|x| format!("{x:?}") == name).map(|k| k as u32)
}

/// every number accepted by `BrickColor::from_number`, ascending (the real table)
pub fn brick_numbers() -> Vec<u16> {
    (0..=u16::MAX).filter(|k| BrickColor::from_number(*k).is_some()).collect()
}

/// the 24 ids accepted by `Matrix3::from_basic_rotation_id`
pub fn rotation_ids() -> Vec<u8> {
    (0..=255u8).filter(|k| Matrix3::from_basic_rotation_id(*k).is_ok()).collect()
}

// ------------------------------------------------------------------------------------------ printing

fn v3(out: &mut Vec<String>, v: &Vector3) {
    f(out, v.x);
    f(out, v.y);
    f(out, v.z);
}
fn cf(out: &mut Vec<String>, c: &CFrame) {
    v3(out, &c.position);
    v3(out, &c.orientation.x);
    v3(out, &c.orientation.y);
    v3(out, &c.orientation.z);
}
fn udim(out: &mut Vec<String>, u: &UDim) {
    f(out, u.scale);
    z(out, u.offset as i128);
}

/// explicit entries of a MaterialColors (the map is private; its transparent serde form exposes them)
pub fn material_entries(m: &MaterialColors) -> Vec<(u8, [u8; 3])> {
    let v = serde_json::to_value(m).expect("MaterialColors serialises");
    let mut out = Vec::new();
    if let Some(o) = v.as_object() {
        for (k, c) in o {
            let mat = TerrainMaterials::from_str(k).expect("terrain material name");
            let a = c.as_array().expect("colour array");
            let g = |i: usize| a[i].as_u64().unwrap() as u8;
            out.push((mat as u8, [g(0), g(1), g(2)]));
        }
    }
    out.sort();
    out
}

pub fn to_tokens(v: &Variant, out: &mut Vec<String>, ctx: &mut RefCtx) {
    match v {
        Variant::Axes(a) => {
            out.push("Axes".into());
            n(out, a.bits() as u128)
        }
        Variant::BinaryString(b) => {
            out.push("BStr".into());
            by(out, b.as_ref())
        }
        Variant::Bool(b) => {
            out.push("Bool".into());
            n(out, *b as u128)
        }
        Variant::BrickColor(b) => {
            out.push("Brick".into());
            n(out, *b as u16 as u128)
        }
        Variant::CFrame(c) => {
            out.push("CF".into());
            cf(out, c)
        }
        Variant::Color3(c) => {
            out.push("C3".into());
            f(out, c.r);
            f(out, c.g);
            f(out, c.b)
        }
        Variant::Color3uint8(c) => {
            out.push("C3u8".into());
            n(out, c.r as u128);
            n(out, c.g as u128);
            n(out, c.b as u128)
        }
        Variant::ColorSequence(s) => {
            out.push("CSeq".into());
            n(out, s.keypoints.len() as u128);
            for k in &s.keypoints {
                f(out, k.time);
                f(out, k.color.r);
                f(out, k.color.g);
                f(out, k.color.b);
            }
        }
        Variant::ContentId(c) => {
            out.push("CId".into());
            by(out, c.as_str().as_bytes())
        }
        Variant::Enum(e) => {
            out.push("Enum".into());
            n(out, e.to_u32() as u128)
        }
        Variant::Faces(a) => {
            out.push("Faces".into());
            n(out, a.bits() as u128)
        }
        Variant::Float32(x) => {
            out.push("F32".into());
            f(out, *x)
        }
        Variant::Float64(x) => {
            out.push("F64".into());
            n(out, x.to_bits() as u128)
        }
        Variant::Int32(x) => {
            out.push("I32".into());
            z(out, *x as i128)
        }
        Variant::Int64(x) => {
            out.push("I64".into());
            z(out, *x as i128)
        }
        Variant::NumberRange(r) => {
            out.push("NR".into());
            f(out, r.min);
            f(out, r.max)
        }
        Variant::NumberSequence(s) => {
            out.push("NSeq".into());
            n(out, s.keypoints.len() as u128);
            for k in &s.keypoints {
                f(out, k.time);
                f(out, k.value);
                f(out, k.envelope);
            }
        }
        Variant::PhysicalProperties(p) => {
            out.push("Phys".into());
            match p {
                PhysicalProperties::Default => n(out, 0),
                PhysicalProperties::Custom(c) => {
                    n(out, 1);
                    f(out, c.density);
                    f(out, c.friction);
                    f(out, c.elasticity);
                    f(out, c.friction_weight);
                    f(out, c.elasticity_weight);
                }
            }
        }
        Variant::Ray(r) => {
            out.push("Ray".into());
            v3(out, &r.origin);
            v3(out, &r.direction)
        }
        Variant::Rect(r) => {
            out.push("Rect".into());
            f(out, r.min.x);
            f(out, r.min.y);
            f(out, r.max.x);
            f(out, r.max.y)
        }
        Variant::Ref(r) => {
            out.push("Ref".into());
            let l = ctx.label_of(*r);
            n(out, l as u128)
        }
        Variant::Region3(r) => {
            out.push("R3".into());
            v3(out, &r.min);
            v3(out, &r.max)
        }
        Variant::Region3int16(r) => {
            out.push("R3i16".into());
            for x in [r.min.x, r.min.y, r.min.z, r.max.x, r.max.y, r.max.z] {
                z(out, x as i128)
            }
        }
        Variant::SharedString(s) => {
            out.push("SStr".into());
            by(out, s.data())
        }
        Variant::String(s) => {
            out.push("Str".into());
            by(out, s.as_bytes())
        }
        Variant::UDim(u) => {
            out.push("UDim".into());
            udim(out, u)
        }
        Variant::UDim2(u) => {
            out.push("UDim2".into());
            udim(out, &u.x);
            udim(out, &u.y)
        }
        Variant::Vector2(v) => {
            out.push("V2".into());
            f(out, v.x);
            f(out, v.y)
        }
        Variant::Vector2int16(v) => {
            out.push("V2i16".into());
            z(out, v.x as i128);
            z(out, v.y as i128)
        }
        Variant::Vector3(v) => {
            out.push("V3".into());
            v3(out, v)
        }
        Variant::Vector3int16(v) => {
            out.push("V3i16".into());
            z(out, v.x as i128);
            z(out, v.y as i128);
            z(out, v.z as i128)
        }
        Variant::OptionalCFrame(c) => {
            out.push("OCF".into());
            match c {
                None => n(out, 0),
                Some(c) => {
                    n(out, 1);
                    cf(out, c)
                }
            }
        }
        Variant::Tags(t) => {
            out.push("Tags".into());
            n(out, t.len() as u128);
            for s in t.iter() {
                by(out, s.as_bytes())
            }
        }
        Variant::Attributes(a) => {
            out.push("Attrs".into());
            attrs_to_tokens(a, out, ctx)
        }
        Variant::Font(fo) => {
            out.push("Font".into());
            by(out, fo.family.as_bytes());
            n(out, fo.weight.as_u16() as u128);
            n(out, fo.style.as_u8() as u128);
            match &fo.cached_face_id {
                None => n(out, 0),
                Some(s) => {
                    n(out, 1);
                    by(out, s.as_bytes())
                }
            }
        }
        Variant::UniqueId(u) => {
            out.push("UId".into());
            n(out, u.index() as u128);
            n(out, u.time() as u128);
            z(out, u.random() as i128)
        }
        Variant::MaterialColors(m) => {
            out.push("MatCol".into());
            let e = material_entries(m);
            n(out, e.len() as u128);
            for (k, c) in e {
                n(out, k as u128);
                n(out, c[0] as u128);
                n(out, c[1] as u128);
                n(out, c[2] as u128);
            }
        }
        Variant::SecurityCapabilities(s) => {
            out.push("SecCap".into());
            n(out, s.bits() as u128)
        }
        Variant::EnumItem(e) => {
            out.push("EItem".into());
            by(out, e.ty.as_bytes());
            n(out, e.value as u128)
        }
        Variant::Content(c) => {
            out.push("Content".into());
            match c.value() {
                ContentType::None => n(out, 0),
                ContentType::Uri(u) => {
                    n(out, 1);
                    by(out, u.as_bytes())
                }
                ContentType::Object(r) => {
                    n(out, 2);
                    let l = ctx.label_of(*r);
                    n(out, l as u128)
                }
                other => panic!("val.rs: unknown ContentType {other:?}; extend notes/wire-format.md"),
            }
        }
        other => panic!("val.rs: unknown Variant {other:?}; extend notes/wire-format.md"),
    }
}

/// `k (name-bytes value){k}` in BTreeMap (byte-lexicographic) order — the payload of an `Attrs` value
pub fn attrs_to_tokens(a: &Attributes, out: &mut Vec<String>, ctx: &mut RefCtx) {
    n(out, a.len() as u128);
    for (k, v) in a.iter() {
        by(out, k.as_bytes());
        to_tokens(v, out, ctx);
    }
}

pub fn value_string(v: &Variant, ctx: &mut RefCtx) -> String {
    let mut out = Vec::new();
    to_tokens(v, &mut out, ctx);
    out.join(" ")
}

// ------------------------------------------------------------------------------------------ parsing

fn p_v3(t: &mut Toks) -> Result<Vector3, String> {
    Ok(Vector3::new(t.f32()?, t.f32()?, t.f32()?))
}
fn p_cf(t: &mut Toks) -> Result<CFrame, String> {
    let p = p_v3(t)?;
    let x = p_v3(t)?;
    let y = p_v3(t)?;
    let z = p_v3(t)?;
    Ok(CFrame::new(p, Matrix3::new(x, y, z)))
}
fn p_udim(t: &mut Toks) -> Result<UDim, String> {
    Ok(UDim::new(t.f32()?, t.i32()?))
}
fn p_v3i16(t: &mut Toks) -> Result<Vector3int16, String> {
    Ok(Vector3int16::new(t.i16()?, t.i16()?, t.i16()?))
}

pub fn parse_attrs(t: &mut Toks, ctx: &mut RefCtx) -> Result<Attributes, String> {
    let k = t.usize()?;
    let mut a = Attributes::new();
    for _ in 0..k {
        let name = t.utf8()?;
        let v = parse(t, ctx)?;
        a.insert(name, v);
    }
    Ok(a)
}

pub fn parse(t: &mut Toks, ctx: &mut RefCtx) -> Result<Variant, String> {
    let tag = t.word()?;
    Ok(match tag {
        "Axes" => {
            let b = t.u8()?;
            Variant::Axes(Axes::from_bits(b).ok_or_else(|| format!("invalid Axes bits {b:x}"))?)
        }
        "BStr" => Variant::BinaryString(t.bytes()?.into()),
        "Bool" => Variant::Bool(match t.u8()? {
            0 => false,
            1 => true,
            b => return Err(format!("Bool token {b:x}")),
        }),
        "Brick" => {
            let k = t.u16()?;
            Variant::BrickColor(BrickColor::from_number(k).ok_or_else(|| format!("{k} is not a BrickColor number"))?)
        }
        "CF" => Variant::CFrame(p_cf(t)?),
        "C3" => Variant::Color3(Color3::new(t.f32()?, t.f32()?, t.f32()?)),
        "C3u8" => Variant::Color3uint8(Color3uint8::new(t.u8()?, t.u8()?, t.u8()?)),
        "CSeq" => {
            let k = t.usize()?;
            let mut keypoints = Vec::new();
            for _ in 0..k {
                let time = t.f32()?;
                keypoints.push(ColorSequenceKeypoint::new(time, Color3::new(t.f32()?, t.f32()?, t.f32()?)));
            }
            Variant::ColorSequence(ColorSequence { keypoints })
        }
        "CId" => Variant::ContentId(t.utf8()?.into()),
        "Enum" => Variant::Enum(Enum::from_u32(t.u32()?)),
        "Faces" => {
            let b = t.u8()?;
            Variant::Faces(Faces::from_bits(b).ok_or_else(|| format!("invalid Faces bits {b:x}"))?)
        }
        "F32" => Variant::Float32(t.f32()?),
        "F64" => Variant::Float64(t.f64()?),
        "I32" => Variant::Int32(t.i32()?),
        "I64" => Variant::Int64(t.i64()?),
        "NR" => Variant::NumberRange(NumberRange::new(t.f32()?, t.f32()?)),
        "NSeq" => {
            let k = t.usize()?;
            let mut keypoints = Vec::new();
            for _ in 0..k {
                let time = t.f32()?;
                let value = t.f32()?;
                let envelope = t.f32()?;
                keypoints.push(NumberSequenceKeypoint::new(time, value, envelope));
            }
            Variant::NumberSequence(NumberSequence { keypoints })
        }
        "Phys" => match t.u8()? {
            0 => Variant::PhysicalProperties(PhysicalProperties::Default),
            1 => Variant::PhysicalProperties(PhysicalProperties::Custom(CustomPhysicalProperties {
                density: t.f32()?,
                friction: t.f32()?,
                elasticity: t.f32()?,
                friction_weight: t.f32()?,
                elasticity_weight: t.f32()?,
            })),
            b => return Err(format!("Phys selector {b:x}")),
        },
        "Ray" => Variant::Ray(Ray::new(p_v3(t)?, p_v3(t)?)),
        "Rect" => Variant::Rect(Rect::new(Vector2::new(t.f32()?, t.f32()?), Vector2::new(t.f32()?, t.f32()?))),
        "Ref" => {
            let l = t.u64()?;
            Variant::Ref(ctx.ref_of(l))
        }
        "R3" => Variant::Region3(Region3::new(p_v3(t)?, p_v3(t)?)),
        "R3i16" => Variant::Region3int16(Region3int16::new(p_v3i16(t)?, p_v3i16(t)?)),
        "SStr" => Variant::SharedString(SharedString::new(t.bytes()?)),
        "Str" => Variant::String(t.utf8()?),
        "UDim" => Variant::UDim(p_udim(t)?),
        "UDim2" => Variant::UDim2(UDim2::new(p_udim(t)?, p_udim(t)?)),
        "V2" => Variant::Vector2(Vector2::new(t.f32()?, t.f32()?)),
        "V2i16" => Variant::Vector2int16(Vector2int16::new(t.i16()?, t.i16()?)),
        "V3" => Variant::Vector3(p_v3(t)?),
        "V3i16" => Variant::Vector3int16(p_v3i16(t)?),
        "OCF" => match t.u8()? {
            0 => Variant::OptionalCFrame(None),
            1 => Variant::OptionalCFrame(Some(p_cf(t)?)),
            b => return Err(format!("OCF selector {b:x}")),
        },
        "Tags" => {
            let k = t.usize()?;
            let mut v = Vec::new();
            for _ in 0..k {
                v.push(t.utf8()?);
            }
            Variant::Tags(v.into())
        }
        "Attrs" => Variant::Attributes(parse_attrs(t, ctx)?),
        "Font" => {
            let family = t.utf8()?;
            let w = t.u16()?;
            let s = t.u8()?;
            let cached_face_id = match t.u8()? {
                0 => None,
                1 => Some(t.utf8()?),
                b => return Err(format!("Font cached selector {b:x}")),
            };
            Variant::Font(Font {
                family,
                weight: FontWeight::from_u16(w).ok_or_else(|| format!("{w} is not a FontWeight"))?,
                style: FontStyle::from_u8(s).ok_or_else(|| format!("{s} is not a FontStyle"))?,
                cached_face_id,
            })
        }
        "UId" => Variant::UniqueId(UniqueId::new(t.u32()?, t.u32()?, t.i64()?)),
        "MatCol" => {
            let k = t.usize()?;
            let mut m = MaterialColors::new();
            for _ in 0..k {
                let i = t.usize()?;
                let mat = *TERRAIN_MATERIALS.get(i).ok_or_else(|| format!("terrain material index {i}"))?;
                m.set_color(mat, Color3uint8::new(t.u8()?, t.u8()?, t.u8()?));
            }
            Variant::MaterialColors(m)
        }
        "SecCap" => Variant::SecurityCapabilities(SecurityCapabilities::from_bits(t.u64()?)),
        "EItem" => Variant::EnumItem(EnumItem { ty: t.utf8()?, value: t.u32()? }),
        "Content" => match t.u8()? {
            0 => Variant::Content(Content::none()),
            1 => Variant::Content(Content::from_uri(t.utf8()?)),
            2 => {
                let l = t.u64()?;
                Variant::Content(Content::from_referent(ctx.ref_of(l)))
            }
            b => return Err(format!("Content selector {b:x}")),
        },
        other => return Err(format!("unknown value tag `{other}`")),
    })
}

// ------------------------------------------------------------------------------------------ generator

/// f32 boundary pool: signed zeros, infinities, quiet and signalling NaNs with payloads, subnormals,
/// extremes, the thresholds of `approx_unit_or_zero` and their neighbours.
pub const F32_POOL: [u32; 44] = [
    0x0000_0000, 0x8000_0000, 0x3F80_0000, 0xBF80_0000, 0x7F80_0000, 0xFF80_0000, // ±0 ±1 ±inf
    0x7FC0_0000, 0xFFC0_0000, 0x7FC0_1234, 0x7FFF_FFFF, 0xFFFF_FFFF,              // quiet NaNs
    0x7F80_0001, 0xFF80_0001, 0x7FA0_0000, 0x7FBF_FFFF,                           // signalling NaNs
    0x0000_0001, 0x8000_0001, 0x007F_FFFF, 0x807F_FFFF, 0x0080_0000, 0x8080_0000, // subnormals, MIN_POSITIVE
    0x7F7F_FFFF, 0xFF7F_FFFF,                                                     // MAX, MIN
    0x3400_0000, 0x3400_0001, 0x33FF_FFFF, 0xB400_0000, 0xB400_0001,              // EPSILON and neighbours
    0x3F80_0001, 0x3F80_0002, 0x3F7F_FFFF, 0x3F7F_FFFE, 0xBF80_0001, 0xBF80_0002, 0xBF7F_FFFF, // 1 ± ulps
    0x3F00_0000, 0xBF00_0000, 0x4000_0000, 0x3F35_04F3, 0xBF35_04F3,              // 0.5, 2, sqrt(1/2)
    0x42F6_0000, 0x3DCC_CCCD, 0x4B80_0000, 0xCB80_0000,                           // 123, 0.1, 2^24
];

pub const F64_POOL: [u64; 20] = [
    0x0000_0000_0000_0000, 0x8000_0000_0000_0000, 0x3FF0_0000_0000_0000, 0xBFF0_0000_0000_0000,
    0x7FF0_0000_0000_0000, 0xFFF0_0000_0000_0000, 0x7FF8_0000_0000_0000, 0xFFF8_0000_0000_0000,
    0x7FF8_0000_DEAD_BEEF, 0x7FF0_0000_0000_0001, 0xFFF4_0000_0000_0000, 0x7FFF_FFFF_FFFF_FFFF,
    0x0000_0000_0000_0001, 0x800F_FFFF_FFFF_FFFF, 0x0010_0000_0000_0000, 0x7FEF_FFFF_FFFF_FFFF,
    0xFFEF_FFFF_FFFF_FFFF, 0x3FB9_9999_9999_999A, 0x4340_0000_0000_0000, 0x3CB0_0000_0000_0000,
];

pub fn gen_f32(rng: &mut Rng) -> f32 {
    let bits = match rng.below(10) {
        0..=3 => *rng.pick(&F32_POOL),
        4..=5 => rng.next() as u32,                                    // any bit pattern
        6 => (rng.below(255) as u32) << 23 | (rng.below(2) as u32) << 31, // exact powers of two, every exponent
        7 => ((rng.below(2001) as f32 - 1000.0) / 8.0).to_bits(),      // small dyadic rationals
        8 => {
            let p = *rng.pick(&F32_POOL);                               // a pool value ± a few ulps
            p.wrapping_add(rng.below(5) as u32).wrapping_sub(2)
        }
        _ => (rng.below(1000) as f32).to_bits(),
    };
    f32::from_bits(bits)
}

pub fn gen_f64(rng: &mut Rng) -> f64 {
    let bits = match rng.below(6) {
        0..=2 => *rng.pick(&F64_POOL),
        3 => rng.next(),
        4 => rng.below(2047) << 52 | rng.below(2) << 63,
        _ => ((rng.below(200001) as f64 - 100000.0) / 16.0).to_bits(),
    };
    f64::from_bits(bits)
}

pub fn gen_i32(rng: &mut Rng) -> i32 {
    match rng.below(8) {
        0 => i32::MIN,
        1 => i32::MAX,
        2 => 0,
        3 => -1,
        4 => 1,
        5 => rng.next() as i32,
        6 => (rng.below(513) as i32) - 256,
        _ => 1i32.wrapping_shl(rng.below(32) as u32).wrapping_sub(rng.below(2) as i32),
    }
}

pub fn gen_i64(rng: &mut Rng) -> i64 {
    match rng.below(8) {
        0 => i64::MIN,
        1 => i64::MAX,
        2 => 0,
        3 => -1,
        4 => i32::MAX as i64 + 1,
        5 => rng.next() as i64,
        6 => (rng.below(513) as i64) - 256,
        _ => 1i64.wrapping_shl(rng.below(64) as u32).wrapping_sub(rng.below(2) as i64),
    }
}

pub fn gen_i16(rng: &mut Rng) -> i16 {
    match rng.below(6) {
        0 => i16::MIN,
        1 => i16::MAX,
        2 => 0,
        3 => -1,
        _ => rng.next() as i16,
    }
}

pub fn gen_u32(rng: &mut Rng) -> u32 {
    match rng.below(8) {
        0 => 0,
        1 => u32::MAX,
        2 => 0x8000_0000,
        3 => 0x7FFF_FFFF,
        4 => rng.below(300) as u32,
        5 => 0x1_0000 + rng.below(3) as u32,
        _ => rng.next() as u32,
    }
}

const UTF8_SNIPPETS: [&str; 16] = [
    "", "a", "Name", "héllo", "日本語", "𝔘𝔫𝔦", "\u{0}", "a\u{0}b", " ", "\u{7f}", "\u{80}", "\u{7ff}\u{800}", "\u{ffff}",
    "\u{10000}\u{10ffff}", "rbxassetid://12345", "Enum.Material",
];

/// UTF-8 text: always can be empty, 1 byte, multi-byte (2, 3 and 4 byte sequences), embedded NUL, long
pub fn gen_utf8(rng: &mut Rng) -> String {
    match rng.below(12) {
        0 => String::new(),
        1..=4 => rng.pick(&UTF8_SNIPPETS).to_string(),
        5..=7 => {
            let k = rng.range(1, 12);
            (0..k).map(|_| (b'a' + rng.below(26) as u8) as char).collect()
        }
        8..=9 => {
            let k = rng.range(1, 6);
            (0..k).map(|_| rng.pick(&UTF8_SNIPPETS).to_string()).collect::<Vec<_>>().join("")
        }
        10 => {
            let k = rng.range(1, 8);
            (0..k)
                .map(|_| loop {
                    let c = match rng.below(4) {
                        0 => rng.below(0x80),
                        1 => rng.range(0x80, 0x7ff),
                        2 => rng.range(0x800, 0xffff),
                        _ => rng.range(0x10000, 0x10ffff),
                    } as u32;
                    if let Some(c) = char::from_u32(c) {
                        break c;
                    }
                })
                .collect()
        }
        _ => {
            let k = if rng.chance(10) { rng.range(60_000, 70_000) } else { rng.range(200, 1500) };
            let unit = rng.pick(&["x", "é", "字", "𝔘"]).to_string();
            unit.repeat(k as usize / unit.len())
        }
    }
}

const BAD_UTF8: [&[u8]; 10] = [
    &[0xff], &[0x80], &[0xc0, 0x80], &[0xc1, 0xbf], &[0xe0, 0x9f, 0xbf], &[0xed, 0xa0, 0x80], &[0xf4, 0x90, 0x80, 0x80],
    &[0xf5, 0x80, 0x80, 0x80], &[0xe2, 0x82], &[0x61, 0xf0, 0x9f, 0x98],
];

/// arbitrary bytes: empty, 1 byte, valid UTF-8, invalid UTF-8 (overlongs, surrogates, truncated), long
pub fn gen_bytes(rng: &mut Rng) -> Vec<u8> {
    match rng.below(10) {
        0 => Vec::new(),
        1 => vec![rng.next() as u8],
        2..=3 => gen_utf8(rng).into_bytes(),
        4..=5 => {
            let mut b = gen_utf8(rng).into_bytes();
            let at = rng.below(b.len() as u64 + 1) as usize;
            let bad = rng.pick(&BAD_UTF8).to_vec();
            b.splice(at..at, bad);
            b
        }
        6..=8 => {
            let k = rng.range(1, 40);
            (0..k).map(|_| rng.next() as u8).collect()
        }
        _ => {
            let k = if rng.chance(10) { rng.range(65_000, 70_000) } else { rng.range(100, 3000) };
            let mut r = rng.fork();
            (0..k).map(|_| r.next() as u8).collect()
        }
    }
}

pub fn gen_vec3(rng: &mut Rng) -> Vector3 {
    if rng.chance(15) {
        // near-axis vectors: what `to_normal_id` looks at
        let mut c = [0u32; 3];
        for x in c.iter_mut() {
            *x = *rng.pick(&[0u32, 0x8000_0000, 0x3400_0000, 0x3400_0001, 0xB400_0000, 1, 0x33FF_FFFF]);
        }
        c[rng.below(3) as usize] = *rng.pick(&[0x3F80_0000u32, 0xBF80_0000, 0x3F80_0001, 0x3F80_0002, 0x3F7F_FFFF, 0xBF80_0001, 0x3F00_0000]);
        return Vector3::new(f32::from_bits(c[0]), f32::from_bits(c[1]), f32::from_bits(c[2]));
    }
    Vector3::new(gen_f32(rng), gen_f32(rng), gen_f32(rng))
}

fn mat_from(e: [[f32; 3]; 3]) -> Matrix3 {
    Matrix3::new(
        Vector3::new(e[0][0], e[0][1], e[0][2]),
        Vector3::new(e[1][0], e[1][1], e[1][2]),
        Vector3::new(e[2][0], e[2][1], e[2][2]),
    )
}
pub fn mat_entries(m: &Matrix3) -> [[f32; 3]; 3] {
    [[m.x.x, m.x.y, m.x.z], [m.y.x, m.y.y, m.y.z], [m.z.x, m.z.y, m.z.z]]
}

/// rotation pool: all 24 basic rotations; their ±k-ulp neighbours; bases with signed zeros / entries at
/// the EPSILON threshold; scaled bases (0.5·B, 2·B, 0.999·B, 1e-3·B); signed permutation matrices that
/// are NOT rotations (determinant −1, repeated axis: exercise the z-row check); NaN/inf entries;
/// generic rotations; arbitrary bit patterns.
pub fn gen_matrix(rng: &mut Rng) -> Matrix3 {
    let ids = rotation_ids();
    let basis = |rng: &mut Rng| Matrix3::from_basic_rotation_id(*rng.pick(&ids)).unwrap();
    match rng.below(16) {
        0..=2 => basis(rng),
        3..=4 => {
            // ±k ulps on one to three entries
            let mut e = mat_entries(&basis(rng));
            for _ in 0..rng.range(1, 3) {
                let (i, j) = (rng.below(3) as usize, rng.below(3) as usize);
                let d = rng.range(1, 3) as u32;
                let b = e[i][j].to_bits();
                let nb = if rng.chance(50) { b.wrapping_add(d) } else if b & 0x7FFF_FFFF >= d { b - d } else { b ^ 0x8000_0000 };
                e[i][j] = f32::from_bits(nb);
            }
            mat_from(e)
        }
        5 => {
            // zeros replaced by tiny values around EPSILON, or by -0
            let mut e = mat_entries(&basis(rng));
            for r in e.iter_mut() {
                for x in r.iter_mut() {
                    if *x == 0.0 && rng.chance(50) {
                        *x = f32::from_bits(*rng.pick(&[0x8000_0000u32, 0x3400_0000, 0xB400_0000, 0x3400_0001, 0x33FF_FFFF, 1, 0x8000_0001, 0x0080_0000, 0x3380_0000]));
                    }
                }
            }
            mat_from(e)
        }
        6..=7 => {
            // scaled bases
            let s = f32::from_bits(*rng.pick(&[0x3F00_0000u32, 0x4000_0000, 0x3F7F_BE77, 0x3A83_126F, 0x3F80_0002, 0x3E80_0000, 0x3F40_0000, 0xBF00_0000, 0x3F7F_FFFF]));
            let mut e = mat_entries(&basis(rng));
            for r in e.iter_mut() {
                for x in r.iter_mut() {
                    if *x != 0.0 {
                        *x *= s;
                    }
                }
            }
            mat_from(e)
        }
        8..=9 => {
            // signed "permutation-like" matrices: each row a signed axis chosen independently
            let mut e = [[0.0f32; 3]; 3];
            for r in e.iter_mut() {
                r[rng.below(3) as usize] = if rng.chance(50) { 1.0 } else { -1.0 };
            }
            if rng.chance(50) {
                // make it a true signed permutation (maybe determinant -1)
                let mut p = [0usize, 1, 2];
                rng.shuffle(&mut p);
                e = [[0.0; 3]; 3];
                for (i, r) in e.iter_mut().enumerate() {
                    r[p[i]] = if rng.chance(50) { 1.0 } else { -1.0 };
                }
            }
            mat_from(e)
        }
        10 => {
            let mut e = mat_entries(&basis(rng));
            e[rng.below(3) as usize][rng.below(3) as usize] = f32::from_bits(*rng.pick(&[0x7FC0_0000u32, 0x7F80_0000, 0xFF80_0000, 0x7F80_0001, 0xFFC0_0001]));
            mat_from(e)
        }
        11..=12 => {
            // a generic rotation about a coordinate axis
            let a = (rng.below(3600) as f32 / 10.0).to_radians();
            let (s, c) = a.sin_cos();
            match rng.below(3) {
                0 => mat_from([[1.0, 0.0, 0.0], [0.0, c, -s], [0.0, s, c]]),
                1 => mat_from([[c, 0.0, s], [0.0, 1.0, 0.0], [-s, 0.0, c]]),
                _ => mat_from([[c, -s, 0.0], [s, c, 0.0], [0.0, 0.0, 1.0]]),
            }
        }
        13 => Matrix3::new(Vector3::new(0.0, 0.0, 0.0), Vector3::new(0.0, 0.0, 0.0), Vector3::new(0.0, 0.0, 0.0)),
        _ => Matrix3::new(gen_vec3(rng), gen_vec3(rng), gen_vec3(rng)),
    }
}

pub fn gen_cframe(rng: &mut Rng) -> CFrame {
    CFrame::new(gen_vec3(rng), gen_matrix(rng))
}

fn gen_udim(rng: &mut Rng) -> UDim {
    UDim::new(gen_f32(rng), gen_i32(rng))
}

fn gen_len(rng: &mut Rng) -> usize {
    match rng.below(10) {
        0..=1 => 0,
        2..=3 => 1,
        4..=7 => rng.range(2, 6) as usize,
        8 => rng.range(7, 40) as usize,
        // long sequences, around and beyond the powers of two a reader might clamp or chunk at
        _ => match rng.below(6) {
            0 => rng.range(1020, 1030) as usize,
            1 => rng.range(4090, 4100) as usize,
            2 => rng.range(1500, 9000) as usize,
            _ => rng.range(200, 600) as usize,
        },
    }
}

const WEIGHTS: [u16; 9] = [100, 200, 300, 400, 500, 600, 700, 800, 900];

pub fn gen_font(rng: &mut Rng) -> Font {
    Font {
        family: if rng.chance(30) { "rbxasset://fonts/families/SourceSansPro.json".to_string() } else { gen_utf8(rng) },
        weight: FontWeight::from_u16(*rng.pick(&WEIGHTS)).unwrap(),
        style: FontStyle::from_u8(rng.below(2) as u8).unwrap(),
        cached_face_id: match rng.below(4) {
            0 => None,
            1 => Some(String::new()),
            2 => Some("rbxasset://fonts/SourceSansPro-Regular.ttf".to_string()),
            _ => Some(gen_utf8(rng)),
        },
    }
}

/// A value of the given type drawn from the per-type pools.  `depth` bounds nesting of `Attributes`.
/// Ref-carrying values use the synthetic refs of labels 0..=8 (0 = none).
pub fn gen_value(rng: &mut Rng, ty: VariantType, depth: u32) -> Variant {
    match ty {
        VariantType::Axes => Variant::Axes(Axes::from_bits(rng.below(8) as u8).unwrap()),
        VariantType::BinaryString => Variant::BinaryString(gen_bytes(rng).into()),
        VariantType::Bool => Variant::Bool(rng.chance(50)),
        VariantType::BrickColor => {
            let t = brick_numbers();
            Variant::BrickColor(BrickColor::from_number(*rng.pick(&t)).unwrap())
        }
        VariantType::CFrame => Variant::CFrame(gen_cframe(rng)),
        VariantType::Color3 => Variant::Color3(Color3::new(gen_f32(rng), gen_f32(rng), gen_f32(rng))),
        VariantType::Color3uint8 => Variant::Color3uint8(Color3uint8::new(rng.next() as u8, rng.next() as u8, rng.next() as u8)),
        VariantType::ColorSequence => {
            let k = gen_len(rng);
            Variant::ColorSequence(ColorSequence {
                keypoints: (0..k).map(|_| ColorSequenceKeypoint::new(gen_f32(rng), Color3::new(gen_f32(rng), gen_f32(rng), gen_f32(rng)))).collect(),
            })
        }
        VariantType::ContentId => Variant::ContentId(gen_utf8(rng).into()),
        VariantType::Enum => Variant::Enum(Enum::from_u32(gen_u32(rng))),
        VariantType::Faces => Variant::Faces(Faces::from_bits(rng.below(64) as u8).unwrap()),
        VariantType::Float32 => Variant::Float32(gen_f32(rng)),
        VariantType::Float64 => Variant::Float64(gen_f64(rng)),
        VariantType::Int32 => Variant::Int32(gen_i32(rng)),
        VariantType::Int64 => Variant::Int64(gen_i64(rng)),
        VariantType::NumberRange => Variant::NumberRange(NumberRange::new(gen_f32(rng), gen_f32(rng))),
        VariantType::NumberSequence => {
            let k = gen_len(rng);
            Variant::NumberSequence(NumberSequence {
                keypoints: (0..k).map(|_| NumberSequenceKeypoint::new(gen_f32(rng), gen_f32(rng), gen_f32(rng))).collect(),
            })
        }
        VariantType::PhysicalProperties => Variant::PhysicalProperties(if rng.chance(30) {
            PhysicalProperties::Default
        } else {
            PhysicalProperties::Custom(CustomPhysicalProperties {
                density: gen_f32(rng),
                friction: gen_f32(rng),
                elasticity: gen_f32(rng),
                friction_weight: gen_f32(rng),
                elasticity_weight: gen_f32(rng),
            })
        }),
        VariantType::Ray => Variant::Ray(Ray::new(gen_vec3(rng), gen_vec3(rng))),
        VariantType::Rect => Variant::Rect(Rect::new(Vector2::new(gen_f32(rng), gen_f32(rng)), Vector2::new(gen_f32(rng), gen_f32(rng)))),
        VariantType::Ref => Variant::Ref(synthetic_ref(rng.below(9))),
        VariantType::Region3 => Variant::Region3(Region3::new(gen_vec3(rng), gen_vec3(rng))),
        VariantType::Region3int16 => Variant::Region3int16(Region3int16::new(
            Vector3int16::new(gen_i16(rng), gen_i16(rng), gen_i16(rng)),
            Vector3int16::new(gen_i16(rng), gen_i16(rng), gen_i16(rng)),
        )),
        VariantType::SharedString => Variant::SharedString(SharedString::new(gen_bytes(rng))),
        VariantType::String => Variant::String(gen_utf8(rng)),
        VariantType::UDim => Variant::UDim(gen_udim(rng)),
        VariantType::UDim2 => Variant::UDim2(UDim2::new(gen_udim(rng), gen_udim(rng))),
        VariantType::Vector2 => Variant::Vector2(Vector2::new(gen_f32(rng), gen_f32(rng))),
        VariantType::Vector2int16 => Variant::Vector2int16(Vector2int16::new(gen_i16(rng), gen_i16(rng))),
        VariantType::Vector3 => Variant::Vector3(gen_vec3(rng)),
        VariantType::Vector3int16 => Variant::Vector3int16(Vector3int16::new(gen_i16(rng), gen_i16(rng), gen_i16(rng))),
        VariantType::OptionalCFrame => Variant::OptionalCFrame(if rng.chance(30) { None } else { Some(gen_cframe(rng)) }),
        VariantType::Tags => {
            let k = gen_len(rng).min(12);
            let v: Vec<String> = (0..k).map(|_| gen_utf8(rng)).collect();
            Variant::Tags(v.into())
        }
        VariantType::Attributes => {
            let mut a = Attributes::new();
            if depth > 0 {
                for _ in 0..rng.below(5) {
                    let t = *rng.pick(&VARIANT_TYPES);
                    a.insert(gen_utf8(rng), gen_value(rng, t, depth - 1));
                }
            }
            Variant::Attributes(a)
        }
        VariantType::Font => Variant::Font(gen_font(rng)),
        VariantType::UniqueId => Variant::UniqueId(UniqueId::new(gen_u32(rng), gen_u32(rng), gen_i64(rng))),
        VariantType::MaterialColors => {
            let mut m = MaterialColors::new();
            for _ in 0..rng.below(6) {
                m.set_color(*rng.pick(&TERRAIN_MATERIALS), Color3uint8::new(rng.next() as u8, rng.next() as u8, rng.next() as u8));
            }
            Variant::MaterialColors(m)
        }
        VariantType::SecurityCapabilities => Variant::SecurityCapabilities(SecurityCapabilities::from_bits(match rng.below(4) {
            0 => 0,
            1 => u64::MAX,
            _ => rng.next(),
        })),
        VariantType::EnumItem => Variant::EnumItem(EnumItem { ty: gen_utf8(rng), value: gen_u32(rng) }),
        VariantType::Content => Variant::Content(match rng.below(3) {
            0 => Content::none(),
            1 => Content::from_uri(gen_utf8(rng)),
            _ => Content::from_referent(synthetic_ref(rng.below(9))),
        }),
        other => panic!("val.rs: gen_value does not know VariantType {other:?}"),
    }
}

/// self-test used by `val-selftest`: print → parse → print is the identity on generated values of
/// every type, and every pool boundary value is reachable.
pub fn selftest(seed: u64, n: u64) -> Result<u64, String> {
    let mut rng = Rng::new(seed);
    let mut count = 0;
    for k in 0..n {
        let ty = VARIANT_TYPES[(k % 40) as usize];
        let v = gen_value(&mut rng, ty, 2);
        if v.ty() != ty {
            return Err(format!("gen_value({ty:?}) produced {:?}", v.ty()));
        }
        let mut ctx = RefCtx::new();
        let s = value_string(&v, &mut ctx);
        let mut t = Toks::new(&s);
        let v2 = parse(&mut t, &mut ctx).map_err(|e| format!("parse of `{}` failed: {e}", &s[..s.len().min(200)]))?;
        if !t.at_end() {
            return Err(format!("parse left tokens over for `{}`", &s[..s.len().min(200)]));
        }
        let s2 = value_string(&v2, &mut ctx);
        if s != s2 {
            return Err(format!("print/parse/print differs for {ty:?}: `{}` vs `{}`", &s[..s.len().min(200)], &s2[..s2.len().min(200)]));
        }
        count += 1;
    }
    Ok(count)
}
