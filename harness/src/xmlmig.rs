//! xmlmig: C15 on the XML paths.  For every class/property pair of the database whose serialization is Migrate and for
//! the legacy type's value range: the XML WRITE path (a DOM carrying the legacy name is saved and loaded) and the XML
//! READ path (a document carrying the legacy element, rendered by the independent writer of xmlspecgen.rs), with and
//! without the new property given explicitly, in both element orders.  Expected: the new property holds the explicit
//! value if there is one, else `PropertyMigration::perform(legacy)`; the legacy name never appears.
use crate::rng::Rng;
use crate::val::{self, RefCtx, Toks};
use crate::xmlfile::*;
use crate::xmloracle::decoded_order;
use crate::xmlspecgen::{DocOpts, Renderer, Style};
use rbx_reflection::{DataType, PropertyKind, PropertyMigration, PropertySerialization};
use rbx_types::*;
use rbx_xml::verif::{find_canonical_property_descriptor, find_serialized_property_descriptor};
use std::collections::BTreeMap;

pub struct Pair {
    pub class: String,
    pub old: String,
    pub new: String,
    pub old_ty: DataType<'static>,
    pub mig: &'static PropertyMigration,
}

pub fn pairs() -> Vec<Pair> {
    let mut out = Vec::new();
    let mut classes: Vec<_> = db().classes.values().collect();
    classes.sort_by(|a, b| a.name.cmp(&b.name));
    for c in classes {
        let mut props: Vec<_> = c.properties.values().collect();
        props.sort_by(|a, b| a.name.cmp(&b.name));
        for p in props {
            if let PropertyKind::Canonical { serialization: PropertySerialization::Migrate(m) } = &p.kind {
                out.push(Pair { class: c.name.to_string(), old: p.name.to_string(), new: m.new_property_name.clone(), old_ty: p.data_type.clone(), mig: m });
            }
        }
    }
    out
}

/// the values of the legacy type the database's own tables allow
pub fn legacy_values(rng: &mut Rng, p: &Pair, limit: usize) -> Vec<Variant> {
    let mut v: Vec<Variant> = match &p.old_ty {
        DataType::Enum(name) => {
            let mut items: Vec<u32> = db().enums.get(name.as_ref()).map(|e| e.items.values().copied().collect()).unwrap_or_default();
            items.sort();
            items.into_iter().map(|i| Variant::Enum(Enum::from_u32(i))).collect()
        }
        DataType::Value(VariantType::BrickColor) => val::brick_numbers().into_iter().map(|n| Variant::BrickColor(BrickColor::from_number(n).unwrap())).collect(),
        DataType::Value(VariantType::Bool) => vec![Variant::Bool(true), Variant::Bool(false)],
        DataType::Value(VariantType::ContentId) => {
            let mut u = vec!["".to_string(), "rbxassetid://12345".into(), "rbxasset://textures/face.png".into(), "http://www.roblox.com/asset/?id=1&x=<y>".into()];
            for _ in 0..3 {
                u.push(crate::xmlchannel::gen_xml_text(rng));
            }
            u.into_iter().map(|s| Variant::ContentId(s.into())).collect()
        }
        _ => vec![],
    };
    if v.len() > limit {
        rng.shuffle(&mut v);
        v.truncate(limit);
    }
    v
}

/// an explicit value of the new property, of the type it is serialized with
pub fn explicit_value(rng: &mut Rng, p: &Pair) -> Option<(String, Variant)> {
    let ser = find_serialized_property_descriptor(&p.class, &p.new, db())?;
    let ty = data_type_vt(&ser.data_type);
    let v = match ty {
        VariantType::Font => Variant::Font(Font::new("rbxasset://fonts/families/Explicit.json", FontWeight::Thin, FontStyle::Italic)),
        VariantType::Color3uint8 => Variant::Color3uint8(Color3uint8::new(1, 2, 3)),
        VariantType::Color3 => Variant::Color3(Color3::new(0.25, 0.5, 0.75)),
        VariantType::Enum => Variant::Enum(Enum::from_u32(0)),
        VariantType::Content => Variant::Content(Content::from_uri("rbxassetid://explicit")),
        other => crate::xmlgen::gen_value(rng, other, 0, true),
    };
    Some((ser.name.to_string(), v))
}

/// every property name of the class chain that resolves to the canonical descriptor of the pair's NEW property and is not
/// itself a migrating legacy name (e.g. Color3uint8 and Color for BasePart.Color)
fn new_spellings(p: &Pair) -> Vec<String> {
    let Some(target) = find_canonical_property_descriptor(&p.class, &p.new, db()) else { return vec![] };
    let mut out = Vec::new();
    let mut cur = db().classes.get(p.class.as_str());
    let mut guard = 0;
    while let Some(c) = cur {
        let mut names: Vec<_> = c.properties.keys().map(|k| k.to_string()).collect();
        names.sort();
        for n in names {
            let d = &c.properties[n.as_str()];
            if matches!(&d.kind, PropertyKind::Canonical { serialization: PropertySerialization::Migrate(_) }) {
                continue;
            }
            if let Some(cd) = find_canonical_property_descriptor(&p.class, &n, db()) {
                if cd.name == target.name && !out.contains(&n) {
                    out.push(n);
                }
            }
        }
        cur = c.superclass.as_ref().and_then(|s| db().classes.get(s.as_ref()));
        guard += 1;
        if guard > 64 {
            break;
        }
    }
    out
}

fn tokens(v: &Variant) -> String {
    val::value_string(v, &mut RefCtx::new())
}

pub fn cases(rng: &mut Rng, n: u64) -> Vec<Vec<String>> {
    let ps = pairs();
    let per_pair = ((n as usize) / (ps.len().max(1) * 5)).max(2);
    let mut out = Vec::new();
    for p in &ps {
        for v in legacy_values(rng, p, per_pair) {
            let explicit = explicit_value(rng, p);
            let migline = format!("mig {} {} {}", val::hex(p.class.as_bytes()), val::hex(p.old.as_bytes()), val::hex(p.new.as_bytes()));
            // ---- write path, without and with the explicit new property (under the new canonical name, canonical type)
            // ... and under every other spelling (alias, serialized name) that resolves to the same new property
            let mut spellings: Vec<Option<String>> = vec![None, Some(p.new.clone())];
            for s in new_spellings(p) {
                if s != p.new {
                    spellings.push(Some(s));
                }
            }
            for with_new in spellings {
                let mut f = Forest::default();
                let mut props = vec![(p.old.clone(), v.clone())];
                let mut extra = vec![migline.clone(), format!("miglegacy {}", tokens(&v))];
                if let Some(spelling) = &with_new {
                    if let Some((_, w)) = &explicit {
                        props.push((spelling.clone(), w.clone()));
                        extra.push(format!("migexplicit {}", tokens(w)));
                    } else {
                        continue;
                    }
                }
                f.nodes.push(Node { label: 1, parent: 0, class: p.class.clone(), name: "M".into(), props });
                f.roots = vec![1];
                f.opts = vec![("enc".into(), "IgnoreUnknown".into()), ("dec".into(), "IgnoreUnknown".into()), ("stream".into(), "mig".into())];
                let mut lines = dom_case_lines(&f);
                lines.extend(extra);
                out.push(lines);
            }
            // ---- read path: legacy only, legacy then new, new then legacy
            // a ContentId-typed legacy value is additionally written the way older files spell it: a `Content` element
            // holding <url>TEXT</url> (an empty text included) or <null></null>
            let spell_kinds: &[&str] = if matches!(v, Variant::ContentId(_)) { &["typed", "content-url", "content-null"] } else { &["typed"] };
            for (spell, order) in spell_kinds.iter().flat_map(|s| ["legacy-only", "legacy-first", "new-first"].into_iter().map(move |o| (*s, o))) {
                if order != "legacy-only" && explicit.is_none() {
                    continue;
                }
                if spell == "content-null" && !matches!(&v, Variant::ContentId(c) if c.as_str().is_empty()) {
                    continue;
                }
                let st = Style { indent: 1, cdata_pct: 0, wrap: 0, alt_floats: false, self_close: false, uuid_referents: true, comments: false };
                let mut r = Renderer { rng, st, out: String::new(), depth: 0 };
                r.open("roblox", &[("version", "4")]);
                r.open("Item", &[("class", p.class.as_str()), ("referent", "RBX0123456789ABCDEF0123456789ABCDEF")]);
                r.open("Properties", &[]);
                let none_ref = |_: Ref| None;
                let no_md5 = |_: &[u8]| String::new();
                let legacy = |r: &mut Renderer| match (&v, spell) {
                    (Variant::ContentId(c), "content-url") => {
                        r.open("Content", &[("name", p.old.as_str())]);
                        r.leaf("url", &[], c.as_str(), true);
                        r.close("Content");
                    }
                    (Variant::ContentId(_), "content-null") => {
                        r.open("Content", &[("name", p.old.as_str())]);
                        r.leaf("null", &[], "", false);
                        r.close("Content");
                    }
                    _ => {
                        r.property(&p.old, &v, &none_ref, &no_md5);
                    }
                };
                let newp = |r: &mut Renderer| {
                    if let Some((n, w)) = &explicit {
                        r.property(n, w, &none_ref, &no_md5);
                    }
                };
                match order {
                    "legacy-first" => {
                        legacy(&mut r);
                        newp(&mut r);
                    }
                    "new-first" => {
                        newp(&mut r);
                        legacy(&mut r);
                    }
                    _ => legacy(&mut r),
                }
                r.close("Properties");
                r.close("Item");
                r.close("roblox");
                let text = r.out.clone();
                let mut lines = text_case_lines(text.as_bytes(), "IgnoreUnknown", None, &[("stream".into(), "mig".into()), ("order".into(), order.into()), ("spell".into(), spell.into())]);
                lines.push(migline.clone());
                lines.push(format!("miglegacy {}", tokens(&v)));
                if order != "legacy-only" {
                    lines.push(format!("migexplicit {}", tokens(&explicit.as_ref().unwrap().1)));
                }
                out.push(lines);
            }
        }
    }
    let _ = DocOpts { shuffle_props: false, meta: false, external: false, studio_attrs: false, decl: false, dict_first: false };
    out
}

struct MigCase {
    class: String,
    old: String,
    new: String,
    legacy: Variant,
    explicit: Option<Variant>,
}

fn parse_mig(lines: &[String]) -> Option<MigCase> {
    let mut m = None;
    let mut legacy = None;
    let mut explicit = None;
    let utf8 = |h: &str| String::from_utf8(val::unhex(h).ok()?).ok();
    for l in lines {
        if let Some(r) = l.strip_prefix("mig ") {
            let w: Vec<&str> = r.split_whitespace().collect();
            m = Some((utf8(w[0])?, utf8(w[1])?, utf8(w[2])?));
        } else if let Some(r) = l.strip_prefix("miglegacy ") {
            legacy = val::parse(&mut Toks::new(r), &mut RefCtx::new()).ok();
        } else if let Some(r) = l.strip_prefix("migexplicit ") {
            explicit = val::parse(&mut Toks::new(r), &mut RefCtx::new()).ok();
        }
    }
    let (class, old, new) = m?;
    Some(MigCase { class, old, new, legacy: legacy?, explicit })
}

fn check(id: &str, path: &str, lines: &[String], d: &Dec, stats: &mut BTreeMap<String, u64>, out: &mut Vec<String>) {
    let c = match parse_mig(lines) {
        Some(c) => c,
        None => return,
    };
    *stats.entry(format!("c15_checked_{path}")).or_insert(0) += 1;
    let mig = pairs().into_iter().find(|p| p.class == c.class && p.old == c.old).map(|p| p.mig);
    let migrated = mig.and_then(|m| m.perform(&c.legacy).ok());
    let lv = tokens(&c.legacy);
    let what = format!("{}.{} = {lv} ({path} path{})", c.class, c.old, if c.explicit.is_some() { ", explicit new value present" } else { "" });
    if migrated.is_none() {
        let outcome = match d {
            Dec::Ok(dd) => {
                let inst = dd.get_by_ref(decoded_order(dd)[0]).unwrap();
                format!("decoded with properties {:?}", inst.properties.keys().map(|k| k.as_str()).collect::<Vec<_>>())
            }
            Dec::Err(m) => format!("decode error: {}", m.chars().take(120).collect::<String>()),
            Dec::Panic(m) => format!("decode panic: {m}"),
        };
        out.push(format!("{id} C15 {} {what}: the database allows this legacy value but PropertyMigration::perform rejects it; {outcome}", crate::binoracle::unmig_key(&c.legacy)));
        return;
    }
    let dd = match d {
        Dec::Ok(dd) => dd,
        Dec::Err(m) => {
            out.push(format!("{id} C15 dec-fail {what}: {}", m.chars().take(160).collect::<String>()));
            return;
        }
        Dec::Panic(m) => {
            out.push(format!("{id} C15 dec-fail {what}: panic {m}"));
            return;
        }
    };
    let order = decoded_order(dd);
    if order.is_empty() {
        out.push(format!("{id} C15 dec-fail {what}: no instance decoded"));
        return;
    }
    let inst = dd.get_by_ref(order[0]).unwrap();
    let new_canon = find_canonical_property_descriptor(&c.class, &c.new, db()).map(|p| p.name.to_string()).unwrap_or_else(|| c.new.clone());
    if inst.properties.contains_key(&c.old.as_str().into()) {
        out.push(format!("{id} C15 legacy-survives {what}: the decoded instance still has the legacy property {}", c.old));
    }
    let expected = c.explicit.clone().or(migrated).unwrap();
    match inst.properties.get(&new_canon.as_str().into()) {
        None => out.push(format!("{id} C15 missing {what}: the decoded instance has no {new_canon}")),
        Some(got) => {
            if tokens(got) != tokens(&expected) {
                let key = if c.explicit.is_some() { "explicit-loses" } else { "value" };
                out.push(format!("{id} C15 {key} {what}: {new_canon} decoded as {}, expected {}", tokens(got), tokens(&expected)));
            }
        }
    }
}

pub fn check_write_path(id: &str, lines: &[String], d: Option<&Dec>, enc_msg: Option<&str>, stats: &mut BTreeMap<String, u64>, out: &mut Vec<String>) {
    match (d, enc_msg) {
        (Some(d), _) => check(id, "write", lines, d, stats, out),
        (None, Some(m)) => {
            if let Some(c) = parse_mig(lines) {
                out.push(format!("{id} C15 enc-fail {}.{} = {}: writing failed: {}", c.class, c.old, tokens(&c.legacy), m.chars().take(160).collect::<String>()));
            }
        }
        _ => {}
    }
}

pub fn check_read_path(id: &str, lines: &[String], _opts: &[(String, String)], d: &Dec, stats: &mut BTreeMap<String, u64>, out: &mut Vec<String>) {
    check(id, "read", lines, d, stats, out);
}
