//! xmlgen: case generators of the xmlfile kind (all randomness from one seed).
//! Streams (`--stream`): dom unknown opts deep illegal uid bin (DOM cases; bin = the quantifier of C06), mut hand foreign (text cases), mig (C15: both).
use crate::rng::Rng;
use crate::util::*;
use crate::val::{self, hex};
use crate::xmlchannel::gen_xml_text;
use crate::xmlfile::*;
use rbx_reflection::{DataType, PropertyDescriptor, PropertyKind, PropertySerialization};
use rbx_types::*;
use std::io::Write;

pub const KNOWN_CLASSES: [&str; 40] = [
    "Part", "MeshPart", "Folder", "Model", "StringValue", "NumberValue", "IntValue", "BoolValue", "ObjectValue", "CFrameValue", "Color3Value",
    "ScreenGui", "TextLabel", "TextButton", "TextBox", "Frame", "ImageLabel", "Decal", "Texture", "ParticleEmitter", "Beam", "Trail", "Terrain",
    "Workspace", "Lighting", "Sound", "SpecialMesh", "UIGradient", "Attachment", "Script", "LocalScript", "ModuleScript", "SurfaceAppearance",
    "Humanoid", "Tool", "Camera", "PointLight", "WeldConstraint", "BillboardGui", "RayValue",
];
const UNKNOWN_CLASSES: [&str; 5] = ["MadeUpClass", "Zzz", "Part2", "\u{e9}cole", "a b"];
const UNKNOWN_PROPS: [&str; 8] = ["MadeUp", "zzz", "Colour", "Tags2", "x-y", "\u{65e5}\u{672c}", "name", "AAA"];

fn xml_legal(s: &str) -> bool {
    s.chars().all(|c| matches!(c, '\u{9}' | '\u{a}' | '\u{d}' | '\u{20}'..='\u{d7ff}' | '\u{e000}'..='\u{fffd}' | '\u{10000}'..))
}

fn legal_string(rng: &mut Rng, s: String, legal: bool) -> String {
    if !legal {
        return s;
    }
    if rng.chance(55) || !xml_legal(&s) || s.len() > 4000 {
        gen_xml_text(rng)
    } else {
        s
    }
}

/// Size caps of the XML streams.  The boundary pools of val.rs hold 70 kB blobs, 500 kB strings and sequences of 4096
/// keypoints for the binary codec; the extracted XML model is quadratic in the length of one text node (seconds per
/// 1000 keypoints, minutes for 4096) and recursive in the length of attribute strings, and nothing in rbx_xml depends on
/// these sizes beyond a few base64 lines / text nodes, so the XML cases keep every value at moderate size.
const MAX_KEYPOINTS: usize = 48;
const MAX_BLOB: usize = 3000;
const MAX_STRING: usize = 4000;

fn cap_string(s: String) -> String {
    if s.len() <= MAX_STRING {
        return s;
    }
    let cut = (0..=MAX_STRING).rev().find(|i| s.is_char_boundary(*i)).unwrap_or(0);
    s[..cut].to_string()
}

fn cap_value(v: Variant) -> Variant {
    match v {
        Variant::ColorSequence(mut s) => {
            s.keypoints.truncate(MAX_KEYPOINTS);
            Variant::ColorSequence(s)
        }
        Variant::NumberSequence(mut s) => {
            s.keypoints.truncate(MAX_KEYPOINTS);
            Variant::NumberSequence(s)
        }
        Variant::BinaryString(b) => {
            let b: Vec<u8> = b.into();
            Variant::BinaryString(if b.len() > MAX_BLOB { b[..MAX_BLOB].to_vec().into() } else { b.into() })
        }
        Variant::SharedString(b) => {
            if b.data().len() > MAX_BLOB {
                Variant::SharedString(SharedString::new(b.data()[..MAX_BLOB].to_vec()))
            } else {
                Variant::SharedString(b)
            }
        }
        Variant::String(s) => Variant::String(cap_string(s)),
        Variant::Tags(t) => {
            let mut total = 0usize;
            let v: Vec<String> = t.iter().map(|s| cap_string(s.to_string())).take_while(|s| { total += s.len() + 1; total <= 2 * MAX_STRING }).collect();
            Variant::Tags(v.into())
        }
        Variant::Attributes(a) => {
            let mut m = Attributes::new();
            for (k, v) in a.into_iter().take(8) {
                m.insert(cap_string(k), cap_value(v));
            }
            Variant::Attributes(m)
        }
        other => other,
    }
}

/// a value of the type; with `legal` every string is made of XML 1.0 characters
pub fn gen_value(rng: &mut Rng, ty: VariantType, nlabels: u64, legal: bool) -> Variant {
    cap_value(gen_value_uncapped(rng, ty, nlabels, legal))
}

fn gen_value_uncapped(rng: &mut Rng, ty: VariantType, nlabels: u64, legal: bool) -> Variant {
    let v = val::gen_value(rng, ty, 2);
    match v {
        Variant::String(s) => Variant::String(legal_string(rng, s, legal)),
        Variant::ContentId(c) => Variant::ContentId(legal_string(rng, c.into_string(), legal).into()),
        Variant::Content(c) => match c.value() {
            ContentType::Uri(u) => Variant::Content(Content::from_uri(legal_string(rng, u.clone(), legal))),
            ContentType::Object(_) => {
                if rng.chance(85) {
                    Variant::Content(Content::from_uri(legal_string(rng, "rbxassetid://1".into(), legal)))
                } else {
                    Variant::Content(Content::from_referent(val::synthetic_ref(rng.below(nlabels + 2))))
                }
            }
            _ => Variant::Content(Content::none()),
        },
        Variant::Font(f) => Variant::Font(Font {
            family: legal_string(rng, f.family, legal),
            weight: f.weight,
            style: f.style,
            cached_face_id: f.cached_face_id.map(|c| legal_string(rng, c, legal)),
        }),
        Variant::Ref(_) => Variant::Ref(val::synthetic_ref(if rng.chance(20) { 0 } else { rng.below(nlabels + 3) })),
        Variant::SharedString(_) => {
            let pool: [&[u8]; 5] = [b"", b"shared one", b"\x00\x01\x02\xff", b"another shared string, a bit longer than the others so that base64 wraps", b"x"];
            if rng.chance(80) {
                Variant::SharedString(SharedString::new(rng.pick(&pool).to_vec()))
            } else {
                Variant::SharedString(SharedString::new(val::gen_bytes(rng)))
            }
        }
        Variant::BinaryString(b) => {
            let b: Vec<u8> = b.into();
            Variant::BinaryString(if b.len() > 3000 { b[..3000].to_vec().into() } else { b.into() })
        }
        Variant::Attributes(a) => {
            // mostly attribute maps the blob writer accepts (an unsupported entry makes the whole encode fail)
            if rng.chance(85) {
                const OK: [VariantType; 17] = [VariantType::BinaryString, VariantType::Bool, VariantType::Int32, VariantType::Float32, VariantType::Float64, VariantType::UDim,
                    VariantType::UDim2, VariantType::BrickColor, VariantType::Color3, VariantType::Vector2, VariantType::Vector3, VariantType::CFrame, VariantType::String,
                    VariantType::NumberSequence, VariantType::ColorSequence, VariantType::NumberRange, VariantType::Rect];
                let mut m = Attributes::new();
                for _ in 0..rng.below(5) {
                    let t = *rng.pick(&OK);
                    m.insert(val::gen_utf8(rng), val::gen_value(rng, t, 0));
                }
                Variant::Attributes(m)
            } else {
                Variant::Attributes(a)
            }
        }
        Variant::Tags(t) => {
            if rng.chance(85) {
                let v: Vec<String> = t.iter().filter(|s| !s.is_empty() && !s.contains('\0')).map(|s| s.to_string()).collect();
                Variant::Tags(v.into())
            } else {
                Variant::Tags(t)
            }
        }
        Variant::UniqueId(u) => {
            if rng.chance(80) {
                Variant::UniqueId(UniqueId::new(u.index(), u.time(), u.random() & i64::MAX))
            } else {
                Variant::UniqueId(u)
            }
        }
        Variant::Enum(_) => Variant::Enum(Enum::from_u32(match rng.below(4) {
            0 => 0,
            1 => rng.below(60) as u32,
            2 => u32::MAX,
            _ => rng.next() as u32,
        })),
        other => other,
    }
}

/// a type the codec converts towards `want` (conversion.rs), or any type
fn source_type(rng: &mut Rng, want: VariantType) -> VariantType {
    match rng.below(100) {
        0..=79 => want,
        80..=91 => match want {
            VariantType::Int64 => VariantType::Int32,
            VariantType::Float64 => VariantType::Float32,
            VariantType::BrickColor => VariantType::Int32,
            VariantType::Color3uint8 => VariantType::Color3,
            VariantType::Tags | VariantType::Attributes | VariantType::MaterialColors => VariantType::BinaryString,
            VariantType::Enum => VariantType::EnumItem,
            VariantType::ContentId => VariantType::Content,
            VariantType::Color3 => VariantType::Color3uint8,
            other => other,
        },
        _ => *rng.pick(&val::VARIANT_TYPES),
    }
}

fn enum_value(rng: &mut Rng, name: &str) -> Variant {
    if let Some(e) = db().enums.get(name) {
        let mut items: Vec<u32> = e.items.values().copied().collect();
        items.sort();
        if !items.is_empty() && rng.chance(85) {
            return Variant::Enum(Enum::from_u32(*rng.pick(&items)));
        }
    }
    Variant::Enum(Enum::from_u32(rng.below(70) as u32))
}

pub fn gen_prop_value(rng: &mut Rng, p: &PropertyDescriptor, nlabels: u64, legal: bool, exact: bool) -> Variant {
    match &p.data_type {
        DataType::Enum(name) if exact || rng.chance(85) => enum_value(rng, name),
        dt => {
            let want = data_type_vt(dt);
            let ty = if exact { want } else { source_type(rng, want) };
            gen_value(rng, ty, nlabels, legal)
        }
    }
}

pub struct DomCfg {
    pub max_nodes: u64,
    pub known_class_pct: u64,
    pub unknown_prop_pct: u64,
    pub legal: bool,
    pub exact_types: bool,
    pub chain: u64,
    /// only database classes and canonical, serializing, non-migrating properties (the quantifier of C06)
    pub strict: bool,
}

pub fn gen_forest(rng: &mut Rng, cfg: &DomCfg) -> Forest {
    let n = if cfg.chain > 0 { cfg.chain } else { rng.range(1, cfg.max_nodes) };
    let mut f = Forest::default();
    let all_classes: Vec<&str> = {
        let mut v: Vec<&str> = db().classes.keys().map(|k| k.as_ref()).collect();
        v.sort();
        v
    };
    for i in 1..=n {
        let parent = if cfg.chain > 0 {
            i - 1
        } else if i == 1 || rng.chance(30) {
            0
        } else {
            rng.range(1, i - 1)
        };
        let class = if rng.chance(cfg.known_class_pct) {
            if rng.chance(70) { rng.pick(&KNOWN_CLASSES).to_string() } else { rng.pick(&all_classes).to_string() }
        } else {
            rng.pick(&UNKNOWN_CLASSES).to_string()
        };
        let name = match rng.below(6) {
            0 => class.clone(),
            1 => String::new(),
            _ => {
                let s = val::gen_utf8(rng);
                legal_string(rng, s, cfg.legal)
            }
        };
        let mut props: Vec<(String, Variant)> = Vec::new();
        let mut descs = class_props(&class);
        if cfg.strict {
            // C06's quantifier: serializable (Serializes / SerializesAs), non-migrating, under canonical or alias names
            descs.retain(|p| {
                matches!(&p.kind, PropertyKind::Canonical { serialization: PropertySerialization::Serializes | PropertySerialization::SerializesAs(_) } | PropertyKind::Alias { .. })
                    && p.name != "Name"
                    && !matches!(&p.data_type, DataType::Value(VariantType::Region3 | VariantType::Region3int16 | VariantType::Vector2int16))
            });
        } else if rng.chance(97) {
            descs.retain(|p| p.name != "Name");
        }
        let k = if cfg.chain > 0 { rng.below(2) } else { rng.below(7) };
        for _ in 0..k {
            if !descs.is_empty() && !rng.chance(cfg.unknown_prop_pct) {
                let p = *rng.pick(&descs);
                let mut v = gen_prop_value(rng, p, n, cfg.legal, cfg.exact_types);
                if cfg.strict && rng.chance(12) {
                    // a value of a kind both formats coerce to the declared type (inside C06's comparison since the
                    // value-level theorems cross_int32_as_int64 / cross_float32_as_float64 / cross_color3_as_color3uint8)
                    v = match v {
                        Variant::Float64(x) => {
                            // not a short dyadic number in most draws, so that a widening through text would show
                            let narrow = if rng.chance(50) { x as f32 } else { [0.1f32, -2.7, 3.4e38, 1.0e-40, 16777217.0][rng.below(5) as usize] };
                            Variant::Float32(narrow)
                        }
                        Variant::Int64(x) => Variant::Int32(if rng.chance(50) { x as i32 } else { [i32::MIN, i32::MAX, -1, 1 << 30, -(1 << 30) - 1][rng.below(5) as usize] }),
                        Variant::Color3uint8(c) => Variant::Color3(rbx_dom_weak::types::Color3::new(c.r as f32 / 255.0, c.g as f32 / 255.0 + 0.001, c.b as f32 / 255.0)),
                        other => other,
                    };
                }
                props.push((p.name.to_string(), v));
            } else {
                let name = if !db().classes.contains_key(class.as_str()) && rng.chance(20) {
                    // a name `Instance` itself declares, on a class the database does not know: an unknown property like any other
                    rng.pick(&["Archivable", "archivable", "RobloxLocked", "SourceAssetId", "Tags", "DataCost", "Capabilities", "DefinesCapabilities"]).to_string()
                } else if rng.chance(80) {
                    rng.pick(&UNKNOWN_PROPS).to_string()
                } else {
                    let s = val::gen_utf8(rng);
                    legal_string(rng, s, cfg.legal)
                };
                let ty = *rng.pick(&val::VARIANT_TYPES);
                props.push((name, gen_value(rng, ty, n, cfg.legal)));
            }
        }
        // a property map has one value per name
        let mut seen = std::collections::BTreeSet::new();
        props.retain(|(k, _)| seen.insert(k.clone()));
        if cfg.strict {
            // ... and, inside C06's quantifier, one spelling per logical property, each property in scope on its own
            let labels: std::collections::BTreeSet<u64> = (1..=n).collect();
            let mut canon = std::collections::BTreeSet::new();
            props.retain(|(k, v)| match crate::xmlbin::prop_scope(&class, k, v, &labels) {
                Some(cn) => canon.insert(cn),
                None => false,
            });
        }
        f.nodes.push(Node { label: i, parent, class, name, props });
    }
    f.roots = match if cfg.strict { 19 } else { rng.below(20) } {
        0 => vec![rng.range(1, n)],
        1 => {
            let mut v: Vec<u64> = f.nodes.iter().filter(|x| x.parent == 0).map(|x| x.label).collect();
            rng.shuffle(&mut v);
            v
        }
        2 => vec![rng.range(1, n), rng.range(1, n)],
        3 => vec![],
        _ => f.nodes.iter().filter(|x| x.parent == 0).map(|x| x.label).collect(),
    };
    f
}

fn pick_pairing(rng: &mut Rng, stream: &str) -> (&'static str, &'static str) {
    const E: [&str; 4] = ["IgnoreUnknown", "WriteUnknown", "ErrorOnUnknown", "NoReflection"];
    const D: [&str; 4] = ["IgnoreUnknown", "ReadUnknown", "ErrorOnUnknown", "NoReflection"];
    match stream {
        "unknown" => {
            if rng.chance(50) { ("WriteUnknown", "ReadUnknown") } else { ("NoReflection", "NoReflection") }
        }
        "opts" => (*rng.pick(&E), *rng.pick(&D)),
        _ => ("IgnoreUnknown", "IgnoreUnknown"),
    }
}

fn plant_unique_ids(rng: &mut Rng, f: &mut Forest) {
    let pool = [UniqueId::new(1, 2, 3), UniqueId::new(0, 0, 0), UniqueId::new(7, 7, 7), UniqueId::new(u32::MAX, 1, i64::MAX)];
    for n in f.nodes.iter_mut() {
        if rng.chance(70) {
            n.props.retain(|(k, _)| k != "UniqueId");
            n.props.push(("UniqueId".into(), Variant::UniqueId(*rng.pick(&pool))));
        }
    }
}

/// stream `schema` (C06): case i = one instance of the i-th database class (all 797 in turn) carrying EVERY property of its
/// class chain that lies inside C06's quantifier, each under one spelling (canonical, or an alias a third of the time), plus a
/// sibling for Ref properties to point at: an exhaustive sweep of the (class, property) pairs with one value each
pub fn gen_schema_case(rng: &mut Rng, i: u64) -> Vec<String> {
    let mut classes: Vec<&str> = db().classes.keys().map(|k| k.as_ref()).collect();
    classes.sort();
    let class = classes[(i as usize) % classes.len()].to_string();
    let labels: std::collections::BTreeSet<u64> = [1u64, 2].into_iter().collect();
    let mut by_canon: std::collections::BTreeMap<String, Vec<(String, Variant)>> = std::collections::BTreeMap::new();
    for p in class_props(&class) {
        if p.name == "Name" {
            continue;
        }
        let Some(c) = rbx_xml::verif::find_canonical_property_descriptor(&class, &p.name, db()) else { continue };
        let v = gen_prop_value(rng, c, 2, true, true);
        if let Some(cn) = crate::xmlbin::prop_scope(&class, &p.name, &v, &labels) {
            by_canon.entry(cn).or_default().push((p.name.to_string(), v));
        }
    }
    let mut props = Vec::new();
    for (cn, mut sp) in by_canon {
        sp.sort_by(|a, b| a.0.cmp(&b.0));
        let k = match sp.iter().position(|(n, _)| *n == cn) {
            Some(k) if sp.len() == 1 || !rng.chance(33) => k,
            _ => rng.below(sp.len() as u64) as usize,
        };
        props.push(sp.swap_remove(k));
    }
    let mut f = Forest::default();
    f.nodes.push(Node { label: 1, parent: 0, class, name: "S".into(), props });
    f.nodes.push(Node { label: 2, parent: 0, class: "Folder".into(), name: "T".into(), props: vec![] });
    f.roots = vec![1, 2];
    f.opts.push(("enc".into(), "IgnoreUnknown".into()));
    f.opts.push(("dec".into(), "IgnoreUnknown".into()));
    f.opts.push(("stream".into(), "schema".into()));
    dom_case_lines(&f)
}

pub fn gen_dom_case(rng: &mut Rng, stream: &str) -> Vec<String> {
    let cfg = match stream {
        "unknown" => DomCfg { max_nodes: 8, known_class_pct: 50, unknown_prop_pct: 50, legal: true, exact_types: false, chain: 0, strict: false },
        "opts" => DomCfg { max_nodes: 6, known_class_pct: 80, unknown_prop_pct: 20, legal: true, exact_types: false, chain: 0, strict: false },
        "deep" => DomCfg { max_nodes: 0, known_class_pct: 90, unknown_prop_pct: 10, legal: true, exact_types: true, chain: rng.range(50, 300), strict: false },
        "illegal" => DomCfg { max_nodes: 4, known_class_pct: 80, unknown_prop_pct: 20, legal: false, exact_types: true, chain: 0, strict: false },
        "bin" => DomCfg { max_nodes: 8, known_class_pct: 100, unknown_prop_pct: 0, legal: true, exact_types: true, chain: 0, strict: true },
        "uid" => DomCfg { max_nodes: 6, known_class_pct: 100, unknown_prop_pct: 0, legal: true, exact_types: true, chain: 0, strict: false },
        _ => DomCfg { max_nodes: 12, known_class_pct: 92, unknown_prop_pct: 8, legal: true, exact_types: rng.chance(70), chain: 0, strict: false },
    };
    let mut f = gen_forest(rng, &cfg);
    if stream == "uid" {
        plant_unique_ids(rng, &mut f);
    }
    let (e, d) = pick_pairing(rng, stream);
    f.opts.push(("enc".into(), e.into()));
    f.opts.push(("dec".into(), d.into()));
    f.opts.push(("stream".into(), stream.into()));
    dom_case_lines(&f)
}

// ------------------------------------------------------------------------------------------ text cases: mutated and hand-made documents

const HAND: [&str; 46] = [
    "",
    "   ",
    "<roblox version=\"4\"></roblox>",
    "<roblox version=\"4\"/>",
    "<roblox></roblox>",
    "<roblox version=\"3\"></roblox>",
    "<roblox version=\"4\" version2=\"x\"><Item class=\"Folder\"/></roblox>",
    "<?xml version=\"1.0\"?><roblox version=\"4\"><Item class=\"Folder\" referent=\"a\"><Properties></Properties></Item></roblox>",
    "<notroblox version=\"4\"></notroblox>",
    "<roblox version=\"4\">text</roblox>",
    "<roblox version=\"4\"><Item></Item></roblox>",
    "<roblox version=\"4\"><Item class=\"Part\"><Properties><string name=\"Name\">A</string></Properties><Properties><string name=\"Name\">B</string><bool name=\"Anchored\">true</bool></Properties></Item></roblox>",
    "<roblox version=\"4\"><Item class=\"Part\"><Properties><int name=\"Name\">5</int></Properties></Item></roblox>",
    "<roblox version=\"4\"><Item class=\"Part\"><Properties><string>x</string></Properties></Item></roblox>",
    "<roblox version=\"4\"><Item class=\"Part\"><Properties><Wat name=\"Anchored\"><a><b/></a>t</Wat><bool name=\"Anchored\">true</bool></Properties></Item></roblox>",
    "<roblox version=\"4\"><Item class=\"Part\"><Properties>stray<bool name=\"Anchored\">true</bool></Properties></Item></roblox>",
    "<roblox version=\"4\"><Item class=\"Part\"><Other/></Item></roblox>",
    "<roblox version=\"4\"><Item class=\"Part\"><Properties><bool name=\"Anchored\">TRUE</bool></Properties></Item></roblox>",
    "<roblox version=\"4\"><Item class=\"Part\"><Properties><bool name=\"Anchored\"> true </bool></Properties></Item></roblox>",
    "<roblox version=\"4\"><Item class=\"Part\"><Properties><bool name=\"Anchored\"><![CDATA[tr]]>ue</bool></Properties></Item></roblox>",
    "<roblox version=\"4\"><Item class=\"Part\"><Properties><float name=\"Transparency\">+INF</float><float name=\"Reflectance\">inf</float></Properties></Item></roblox>",
    "<roblox version=\"4\"><Item class=\"Part\"><Properties><float name=\"Transparency\">1e400</float><float name=\"Reflectance\">NaN</float></Properties></Item></roblox>",
    "<roblox version=\"4\"><Item class=\"Part\"><Properties><float name=\"Transparency\"></float></Properties></Item></roblox>",
    "<roblox version=\"4\"><Item class=\"Part\"><Properties><float name=\"Transparency\">0x10</float></Properties></Item></roblox>",
    "<roblox version=\"4\"><Item class=\"NumberValue\"><Properties><float name=\"Value\">1.5</float></Properties></Item><Item class=\"IntValue\"><Properties><int name=\"Value\">7</int></Properties></Item></roblox>",
    "<roblox version=\"4\"><Item class=\"IntValue\"><Properties><int64 name=\"Value\">9223372036854775808</int64></Properties></Item></roblox>",
    "<roblox version=\"4\"><Item class=\"IntValue\"><Properties><int64 name=\"Value\">+5</int64></Properties></Item><Item class=\"IntValue\"><Properties><int64 name=\"Value\">-0</int64></Properties></Item></roblox>",
    "<roblox version=\"4\"><Item class=\"Part\"><Properties><int name=\"BrickColor\">194</int></Properties></Item><Item class=\"Part\"><Properties><int name=\"BrickColor\">4</int></Properties></Item></roblox>",
    "<roblox version=\"4\"><Item class=\"Part\"><Properties><Color3 name=\"Color\">4284497952</Color3><Color3uint8 name=\"Color3uint8\">4284497952</Color3uint8></Properties></Item></roblox>",
    "<roblox version=\"4\"><Item class=\"Part\"><Properties><Color3 name=\"Color\"><R>1</R><G>0.5</G><B>0</B></Color3></Properties></Item></roblox>",
    "<roblox version=\"4\"><Item class=\"Part\"><Properties><BinaryString name=\"Tags\">YQBi</BinaryString><BinaryString name=\"AttributesSerialize\">AAECAw==</BinaryString></Properties></Item></roblox>",
    "<roblox version=\"4\"><Item class=\"Part\"><Properties><BinaryString name=\"Tags\">/w==</BinaryString></Properties></Item></roblox>",
    "<roblox version=\"4\"><Item class=\"Part\"><Properties><BinaryString name=\"Tags\">YQ</BinaryString></Properties></Item><Item class=\"Part\"><Properties><BinaryString name=\"Tags\">YQ=</BinaryString></Properties></Item><Item class=\"Part\"><Properties><BinaryString name=\"Tags\">Y</BinaryString></Properties></Item></roblox>",
    "<roblox version=\"4\"><Item class=\"Part\"><Properties><BinaryString name=\"Tags\">YR==</BinaryString></Properties></Item></roblox>",
    "<roblox version=\"4\"><Item class=\"Part\"><Properties><BinaryString name=\"Tags\">Y Q\n=\t=</BinaryString></Properties></Item></roblox>",
    "<roblox version=\"4\"><Item class=\"Part\" referent=\"A\"><Properties><Ref name=\"x\">A</Ref></Properties></Item></roblox>",
    "<roblox version=\"4\"><Item class=\"ObjectValue\" referent=\"A\"><Properties><Ref name=\"Value\">B</Ref></Properties></Item><Item class=\"Part\" referent=\"B\"/></roblox>",
    "<roblox version=\"4\"><Item class=\"ObjectValue\" referent=\"A\"><Properties><Ref name=\"Value\">A</Ref></Properties></Item><Item class=\"Part\" referent=\"A\"/></roblox>",
    "<roblox version=\"4\"><Item class=\"ObjectValue\" referent=\"null\"><Properties><Ref name=\"Value\">null</Ref></Properties></Item></roblox>",
    "<roblox version=\"4\"><Item class=\"ObjectValue\"><Properties><Ref name=\"Value\"> null</Ref></Properties></Item></roblox>",
    "<roblox version=\"4\"><Item class=\"MeshPart\"><Properties><SharedString name=\"PhysicalConfigData\">aaa</SharedString></Properties></Item><SharedStrings><SharedString md5=\"aaa\">eHl6</SharedString><SharedString md5=\"aaa\">YWJj</SharedString></SharedStrings></roblox>",
    "<roblox version=\"4\"><SharedStrings><SharedString>eHl6</SharedString></SharedStrings></roblox>",
    "<roblox version=\"4\"><SharedStrings><Other/></SharedStrings></roblox>",
    "<roblox version=\"4\"><Meta name=\"ExplicitAutoJoints\">true</Meta><Meta>x</Meta></roblox>",
    "<roblox version=\"4\"><External>null</External><External>nil</External><Item class=\"Folder\" referent=\"R\"><Properties><string name=\"Name\">F</string></Properties></Item></roblox><roblox version=\"5\"/>",
    "<roblox version=\"4\"><Item class=\"TextLabel\"><Properties><Font name=\"FontFace\"></Font><token name=\"Font\">3</token></Properties></Item><Item class=\"Part\"><Properties><UniqueId name=\"UniqueId\">0123456789abcdeÿ123456789abcdef</UniqueId></Properties></Item></roblox>",
];

/// byte-level and token-level mutations of a document
fn mutate(rng: &mut Rng, text: &[u8]) -> Vec<u8> {
    let mut t = text.to_vec();
    if t.is_empty() {
        return t;
    }
    let s = String::from_utf8_lossy(&t).to_string();
    match rng.below(12) {
        0 => {
            let at = rng.below(t.len() as u64) as usize;
            t.truncate(at);
        }
        1 => {
            let at = rng.below(t.len() as u64) as usize;
            t.remove(at);
        }
        2 => {
            let at = rng.below(t.len() as u64) as usize;
            t[at] = *rng.pick(&[b'<', b'>', b'&', b'"', b' ', b'0', b'x', b'/', b'\n', 0xff]);
        }
        3 => {
            // swap two names
            let pairs = [("string", "ProtectedString"), ("bool", "boolean"), ("Properties", "Props"), ("Item", "Items"), ("float", "double"), ("int", "int64"), ("url", "uri"), ("null", "nil"),
                ("Content", "ContentId"), ("token", "int"), ("referent=", "ref="), ("class=", "klass="), ("name=", "nom="), ("version=\"4\"", "version=\"04\""), ("BinaryString", "SharedString"), ("Ref ", "Reference "), ("INF", "+INF"), ("NAN", "NaN")];
            let (a, b) = *rng.pick(&pairs);
            let (a, b) = if rng.chance(50) { (a, b) } else { (b, a) };
            return s.replacen(a, b, rng.range(1, 2) as usize).into_bytes();
        }
        4 => {
            // duplicate a line
            let lines: Vec<&str> = s.split('\n').collect();
            let k = rng.below(lines.len() as u64) as usize;
            let mut v: Vec<&str> = lines.clone();
            v.insert(k, lines[k]);
            return v.join("\n").into_bytes();
        }
        5 => {
            // delete a line
            let mut lines: Vec<&str> = s.split('\n').collect();
            let k = rng.below(lines.len() as u64) as usize;
            lines.remove(k);
            return lines.join("\n").into_bytes();
        }
        6 => {
            // swap two lines
            let mut lines: Vec<&str> = s.split('\n').collect();
            if lines.len() >= 2 {
                let a = rng.below(lines.len() as u64) as usize;
                let b = rng.below(lines.len() as u64) as usize;
                lines.swap(a, b);
            }
            return lines.join("\n").into_bytes();
        }
        7 => {
            // change a number
            if let Some(pos) = s.find(|c: char| c.is_ascii_digit()) {
                let rep = *rng.pick(&["-1", "4294967296", "1e5", "", " 1", "1 ", "0x1", "99999999999999999999", "256", "+3", "1.5", "-0", "NAN", "inf"]);
                let mut out = s.clone();
                let end = s[pos..].find(|c: char| !c.is_ascii_digit()).map(|e| pos + e).unwrap_or(s.len());
                out.replace_range(pos..end, rep);
                return out.into_bytes();
            }
        }
        8 => return s.replace("\n", "").into_bytes(),
        9 => return s.replace("  ", "\t").replace("\n", "\r\n").into_bytes(),
        10 => {
            let ins = *rng.pick(&["<!-- c -->", "<?pi x?>", "<![CDATA[]]>", "<![CDATA[ ]]>", " ", "x", "<Extra/>", "<External>null</External>", "<Meta name=\"a\">b</Meta>"]);
            if let Some(pos) = s.char_indices().filter(|(_, c)| *c == '>').map(|(i, _)| i + 1).nth(rng.below(s.matches('>').count().max(1) as u64) as usize) {
                let mut out = s.clone();
                out.insert_str(pos, ins);
                return out.into_bytes();
            }
        }
        _ => {
            let a = rng.below(t.len() as u64) as usize;
            let b = (a + rng.below(30) as usize).min(t.len());
            t.drain(a..b);
        }
    }
    t
}

pub fn gen_text_case(rng: &mut Rng, stream: &str, i: u64) -> Vec<String> {
    let dec = *rng.pick(&["IgnoreUnknown", "IgnoreUnknown", "ReadUnknown", "NoReflection", "ErrorOnUnknown"]);
    let opts = vec![("stream".to_string(), stream.to_string())];
    match stream {
        "hand" => {
            let doc = HAND[(i as usize) % HAND.len()];
            let dec = if (i as usize) < HAND.len() { "IgnoreUnknown" } else { dec };
            text_case_lines(doc.as_bytes(), dec, None, &opts)
        }
        _ => {
            // mutated output of the real serializer
            let cfg = DomCfg { max_nodes: 5, known_class_pct: 90, unknown_prop_pct: 15, legal: true, exact_types: rng.chance(80), chain: 0, strict: false };
            let f = gen_forest(rng, &cfg);
            let (dom, map) = build_dom(&f, None);
            let roots: Vec<Ref> = f.nodes.iter().filter(|n| n.parent == 0).map(|n| map[&n.label]).collect();
            let beh = if rng.chance(70) { "IgnoreUnknown" } else { "WriteUnknown" };
            let text = match encode(&dom, &roots, enc_behavior(beh)) {
                Enc::Ok(t) => t,
                _ => HAND[(i as usize) % HAND.len()].as_bytes().to_vec(),
            };
            let mut t = text;
            for _ in 0..rng.range(0, 2) {
                t = mutate(rng, &t);
            }
            text_case_lines(&t, dec, None, &opts)
        }
    }
}

pub fn gen_cases(seed: u64, n: u64, stream: &str, prefix: &str, f: &mut impl Write) {
    let mut rng = Rng::new(seed ^ 0x786d_6c66 ^ stream.bytes().fold(0u64, |a, b| a.wrapping_mul(131).wrapping_add(b as u64)));
    match stream {
        "mig" => {
            for (i, lines) in crate::xmloracle::migration_cases(&mut rng, n).into_iter().enumerate() {
                write_case(f, &format!("{prefix}{i}"), &lines);
            }
        }
        "foreign" => {
            for i in 0..n {
                let mut r = rng.fork();
                write_case(f, &format!("{prefix}{i}"), &crate::xmlspecgen::gen_foreign_case(&mut r));
            }
        }
        "schema" => {
            for i in 0..n {
                let mut r = rng.fork();
                write_case(f, &format!("{prefix}{i}"), &gen_schema_case(&mut r, i));
            }
        }
        "mut" | "hand" => {
            for i in 0..n {
                let mut r = rng.fork();
                write_case(f, &format!("{prefix}{i}"), &gen_text_case(&mut r, stream, i));
            }
        }
        _ => {
            for i in 0..n {
                let mut r = rng.fork();
                write_case(f, &format!("{prefix}{i}"), &gen_dom_case(&mut r, stream));
            }
        }
    }
    let _ = hex(b"");
}
