//! forest: DOM cases of the file-format correspondences (format: /verif/notes/forest-format.md).
//!   parse_case / case_lines   text <-> `Forest` (labels, never real Refs)
//!   build_dom                 `Forest` -> real `WeakDom` (instance of label L gets `RefCtx::ref_of(L)`)
//!   print_dom                 decoded `WeakDom` -> observation lines (pre-order labels, props sorted)
//!   gen_forest                generator (tree shapes, database / unknown classes, spellings, planted Refs)
//! Shared by the binary (binfile.rs) and XML slices.
use crate::rng::Rng;
use crate::val::{self, hex, unhex, RefCtx, Toks};
use rbx_dom_weak::{InstanceBuilder, WeakDom};
use rbx_reflection::{DataType, PropertyKind, PropertySerialization, ReflectionDatabase};
use rbx_types::*;
use std::collections::{BTreeMap, BTreeSet, HashMap, HashSet};

#[derive(Clone, Debug)]
pub struct Node {
    pub label: u64,
    pub parent: u64,
    pub class: String,
    pub name: String,
    /// insertion order
    pub props: Vec<(String, Variant)>,
}

#[derive(Clone, Debug, Default)]
pub struct Forest {
    pub opts: Vec<(String, String)>,
    /// (content, blake3 hash) of every distinct SharedString used
    pub sstr: Vec<(Vec<u8>, Vec<u8>)>,
    pub nodes: Vec<Node>,
    pub roots: Vec<u64>,
}

impl Forest {
    pub fn opt(&self, key: &str) -> Option<&str> {
        self.opts.iter().find(|(k, _)| k == key).map(|(_, v)| v.as_str())
    }
    pub fn node(&self, label: u64) -> Option<&Node> {
        self.nodes.iter().find(|n| n.label == label)
    }
    pub fn children(&self, label: u64) -> Vec<u64> {
        self.nodes.iter().filter(|n| n.parent == label).map(|n| n.label).collect()
    }
    /// post-order of the subtrees of `roots` (what add_instances produces on non-overlapping roots)
    pub fn postorder(&self, roots: &[u64]) -> Vec<u64> {
        fn go(f: &Forest, l: u64, out: &mut Vec<u64>) {
            for c in f.children(l) {
                go(f, c, out);
            }
            out.push(l);
        }
        let mut out = Vec::new();
        for r in roots {
            if self.node(*r).is_some() {
                go(self, *r, &mut out);
            }
        }
        out
    }
    pub fn preorder(&self, roots: &[u64]) -> Vec<u64> {
        fn go(f: &Forest, l: u64, out: &mut Vec<u64>) {
            out.push(l);
            for c in f.children(l) {
                go(f, c, out);
            }
        }
        let mut out = Vec::new();
        for r in roots {
            if self.node(*r).is_some() {
                go(self, *r, &mut out);
            }
        }
        out
    }
}

fn utf8_of_hex(s: &str) -> Result<String, String> {
    String::from_utf8(unhex(s)?).map_err(|_| "not UTF-8".to_string())
}

pub fn parse_case(lines: &[String]) -> Result<(Forest, RefCtx), String> {
    let mut f = Forest::default();
    let mut ctx = RefCtx::new();
    let mut i = 0;
    while i < lines.len() {
        let line = &lines[i];
        i += 1;
        let mut t = Toks::new(line);
        let w = match t.word() {
            Ok(w) => w,
            Err(_) => continue,
        };
        match w {
            "opt" => {
                let k = t.word()?.to_string();
                let v = t.word().unwrap_or("").to_string();
                f.opts.push((k, v));
            }
            "sstr" => {
                let c = t.bytes()?;
                let h = t.bytes()?;
                f.sstr.push((c, h));
            }
            "node" => {
                let label = t.u64()?;
                let parent = t.u64()?;
                let class = utf8_of_hex(t.word()?)?;
                let name = utf8_of_hex(t.word()?)?;
                let nprops = t.usize()?;
                let mut props = Vec::new();
                for _ in 0..nprops {
                    let pl = lines.get(i).ok_or("missing prop line")?;
                    i += 1;
                    let mut pt = Toks::new(pl);
                    if pt.word()? != "prop" {
                        return Err(format!("expected prop line, got `{}`", &pl[..pl.len().min(60)]));
                    }
                    let pname = utf8_of_hex(pt.word()?)?;
                    let v = val::parse(&mut pt, &mut ctx)?;
                    props.push((pname, v));
                }
                if label == 0 {
                    return Err("label 0".into());
                }
                f.nodes.push(Node { label, parent, class, name, props });
            }
            "roots" => {
                while !t.at_end() {
                    f.roots.push(t.u64()?);
                }
            }
            "prop" => return Err("prop line outside a node".into()),
            _ => {}
        }
    }
    Ok((f, ctx))
}

pub fn case_lines(f: &Forest) -> Vec<String> {
    // values carry synthetic refs of labels: printed as the labels
    let mut out = Vec::new();
    for (k, v) in &f.opts {
        out.push(format!("opt {k} {v}"));
    }
    for (c, h) in &f.sstr {
        out.push(format!("sstr {} {}", hex(c), hex(h)));
    }
    for n in &f.nodes {
        out.push(format!("node {:x} {:x} {} {} {:x}", n.label, n.parent, hex(n.class.as_bytes()), hex(n.name.as_bytes()), n.props.len()));
        for (k, v) in &n.props {
            out.push(format!("prop {} {}", hex(k.as_bytes()), value_with_labels(v)));
        }
    }
    out.push(format!("roots {}", f.roots.iter().map(|r| format!("{r:x}")).collect::<Vec<_>>().join(" ")));
    out
}

/// label encoded in a synthetic ref (val::synthetic_ref); 0 for none
pub fn label_of_synthetic(r: Ref) -> u64 {
    if r.is_none() {
        return 0;
    }
    let s = r.to_string();
    let v = u128::from_str_radix(&s, 16).unwrap_or(0);
    (v & 0xffff_ffff_ffff_ffff) as u64
}

/// prints a value whose Refs are synthetic refs, labels as the ref tokens
pub fn value_with_labels(v: &Variant) -> String {
    let mut ctx = RefCtx::new();
    bind_synthetics(v, &mut ctx);
    val::value_string(v, &mut ctx)
}
fn bind_synthetics(v: &Variant, ctx: &mut RefCtx) {
    let mut refs = Vec::new();
    let _ = map_refs(v, &mut |r| {
        refs.push(r);
        r
    });
    for r in refs {
        if r.is_some() {
            let l = label_of_synthetic(r);
            if l != 0 {
                ctx.bind(l, r);
            }
        }
    }
}

/// rewrite every Ref inside a value (Ref, Content::Object, and the same inside Attributes)
pub fn map_refs(v: &Variant, f: &mut dyn FnMut(Ref) -> Ref) -> Variant {
    match v {
        Variant::Ref(r) => Variant::Ref(f(*r)),
        Variant::Content(c) => match c.value() {
            ContentType::Object(r) => Variant::Content(Content::from_referent(f(*r))),
            _ => v.clone(),
        },
        Variant::Attributes(a) => {
            let mut out = Attributes::new();
            for (k, x) in a.iter() {
                out.insert(k.clone(), map_refs(x, f));
            }
            Variant::Attributes(out)
        }
        _ => v.clone(),
    }
}

/// Build the real DOM: `WeakDom::new(InstanceBuilder::new("DataModel"))`, every `parent 0` node under the
/// root, the node of label L with referent `ref_of(L)`; Ref values (synthetic, by label) are rewritten
/// with `ref_of` too.  `perm` permutes the property insertion order of each node (None = as listed).
pub fn build_dom_with(f: &Forest, ref_of: &mut dyn FnMut(u64) -> Ref, perm: Option<&mut Rng>) -> WeakDom {
    build_dom_history(f, ref_of, perm, false)
}

/// the same logical DOM reached through a longer history when `detour` is set: a scratch copy of the whole forest (other Refs,
/// the same names and property values, UniqueIds included) is inserted first and destroyed again through its top-level instances,
/// then the forest itself is inserted.  A correct WeakDom ends in the same content either way (destroy frees the ids it held).
pub fn build_dom_history(f: &Forest, ref_of: &mut dyn FnMut(u64) -> Ref, mut perm: Option<&mut Rng>, detour: bool) -> WeakDom {
    let mut dom = WeakDom::new(InstanceBuilder::new("DataModel"));
    let root = dom.root_ref();
    if detour {
        let mut scratch: HashMap<u64, Ref> = HashMap::new();
        let mut tops = Vec::new();
        for n in &f.nodes {
            let r = *scratch.entry(n.label).or_insert_with(Ref::new);
            let mut b = InstanceBuilder::new(n.class.as_str()).with_referent(r).with_name(n.name.as_str());
            for (k, v) in &n.props {
                let v2 = map_refs(v, &mut |_| Ref::none());
                b.add_property(k.as_str(), v2);
            }
            let parent = if n.parent == 0 { root } else { *scratch.get(&n.parent).unwrap_or(&root) };
            if parent == root {
                tops.push(r);
            }
            dom.insert(parent, b);
        }
        for t in tops {
            dom.destroy(t);
        }
    }
    let mut placed: HashMap<u64, Ref> = HashMap::new();
    for n in &f.nodes {
        let r = ref_of(n.label);
        let mut b = InstanceBuilder::new(n.class.as_str()).with_referent(r).with_name(n.name.as_str());
        let mut props: Vec<&(String, Variant)> = n.props.iter().collect();
        if let Some(rng) = perm.as_mut() {
            rng.shuffle(&mut props);
        }
        for (k, v) in props {
            let v2 = map_refs(v, &mut |x| {
                let l = label_of_synthetic(x);
                if l == 0 {
                    Ref::none()
                } else {
                    ref_of(l)
                }
            });
            b.add_property(k.as_str(), v2);
        }
        let parent = if n.parent == 0 { root } else { *placed.get(&n.parent).unwrap_or(&root) };
        dom.insert(parent, b);
        placed.insert(n.label, r);
    }
    dom
}

pub fn build_dom(f: &Forest, ctx: &mut RefCtx) -> WeakDom {
    build_dom_with(f, &mut |l| ctx.ref_of(l), None)
}

/// the placeholder printed for a UniqueId that WeakDom::insert regenerated on a collision
pub const FRESH_UID: &str = "UId ffffffff ffffffff -1";

/// Observation of a decoded DOM: node/prop lines, labels = pre-order position (from 1) below the root.
/// `known_uids`: when given, a `UniqueId` property whose value is not in the set is printed as FRESH_UID.
pub fn print_dom_opts(dom: &WeakDom, known_uids: Option<&HashSet<(u32, u32, i64)>>) -> Vec<String> {
    let mut order: Vec<Ref> = Vec::new();
    fn walk(dom: &WeakDom, r: Ref, out: &mut Vec<Ref>) {
        // iterative pre-order (deep chains must not overflow the stack)
        let mut stack = vec![r];
        while let Some(x) = stack.pop() {
            out.push(x);
            if let Some(i) = dom.get_by_ref(x) {
                for c in i.children().iter().rev() {
                    stack.push(*c);
                }
            }
        }
    }
    for c in dom.root().children() {
        walk(dom, *c, &mut order);
    }
    let mut ctx = RefCtx::new();
    let mut labels: HashMap<Ref, u64> = HashMap::new();
    for (k, r) in order.iter().enumerate() {
        ctx.bind(k as u64 + 1, *r);
        labels.insert(*r, k as u64 + 1);
    }
    let mut out = Vec::new();
    for r in &order {
        let i = dom.get_by_ref(*r).unwrap();
        let parent = labels.get(&i.parent()).copied().unwrap_or(0);
        let mut props: Vec<(String, &Variant)> = i.properties.iter().map(|(k, v)| (k.to_string(), v)).collect();
        props.sort_by(|a, b| a.0.as_bytes().cmp(b.0.as_bytes()));
        out.push(format!("node {:x} {:x} {} {} {:x}", labels[r], parent, hex(i.class.as_bytes()), hex(i.name.as_bytes()), props.len()));
        for (k, v) in props {
            let v2 = map_refs(v, &mut |x| if labels.contains_key(&x) { x } else { Ref::none() });
            let mut s = val::value_string(&v2, &mut ctx);
            if k == "UniqueId" {
                if let (Variant::UniqueId(u), Some(known)) = (&v2, known_uids) {
                    if !known.contains(&(u.index(), u.time(), u.random())) {
                        s = FRESH_UID.to_string();
                    }
                }
            }
            out.push(format!("prop {} {}", hex(k.as_bytes()), s));
        }
    }
    out
}

pub fn print_dom(dom: &WeakDom) -> Vec<String> {
    print_dom_opts(dom, None)
}

// ------------------------------------------------------------------------------------------ database catalogue

#[derive(Clone, Debug)]
pub struct PropSpec {
    pub name: String,
    pub ty: Option<VariantType>, // None = Enum
    pub alias: bool,
    pub migrates: bool,
    pub serializes_as: bool,
    pub serializes: bool,
}

pub struct Catalogue {
    pub db: &'static ReflectionDatabase<'static>,
    pub class_names: Vec<String>,
    /// classes that take at least one default from an ancestor: a serializable property for which the class's own
    /// default table has no entry while a superclass's table has one (computed from the loaded database)
    pub inheriting: Vec<String>,
    props: HashMap<String, Vec<PropSpec>>,
}

impl Catalogue {
    pub fn new() -> Catalogue {
        let db = rbx_reflection_database::get();
        let mut class_names: Vec<String> = db.classes.keys().map(|k| k.to_string()).collect();
        class_names.sort();
        let mut inheriting = Vec::new();
        for cn in &class_names {
            let c = &db.classes[cn.as_str()];
            let mut cur = c.superclass.as_ref().and_then(|s| db.classes.get(s.as_ref()));
            let mut guard = 0;
            let mut found = false;
            while let Some(a) = cur {
                if a.default_properties.keys().any(|k| !c.default_properties.contains_key(k.as_ref())) {
                    found = true;
                    break;
                }
                cur = a.superclass.as_ref().and_then(|s| db.classes.get(s.as_ref()));
                guard += 1;
                if guard > db.classes.len() {
                    break;
                }
            }
            if found {
                inheriting.push(cn.clone());
            }
        }
        Catalogue { db, class_names, inheriting, props: HashMap::new() }
    }
    /// all property descriptors visible on a class (own and inherited), sorted by name
    pub fn props_of(&mut self, class: &str) -> &Vec<PropSpec> {
        if !self.props.contains_key(class) {
            let mut seen: BTreeMap<String, PropSpec> = BTreeMap::new();
            let mut cur = self.db.classes.get(class);
            let mut guard = 0;
            while let Some(c) = cur {
                for (n, p) in c.properties.iter() {
                    if seen.contains_key(n.as_ref()) {
                        continue;
                    }
                    let ty = match &p.data_type {
                        DataType::Value(t) => Some(*t),
                        DataType::Enum(_) => None,
                        _ => continue,
                    };
                    let (alias, migrates, serializes_as, serializes) = match &p.kind {
                        PropertyKind::Alias { .. } => (true, false, false, true),
                        PropertyKind::Canonical { serialization } => match serialization {
                            PropertySerialization::Serializes => (false, false, false, true),
                            PropertySerialization::DoesNotSerialize => (false, false, false, false),
                            PropertySerialization::SerializesAs(_) => (false, false, true, true),
                            PropertySerialization::Migrate(_) => (false, true, false, true),
                            _ => (false, false, false, false),
                        },
                        _ => (false, false, false, false),
                    };
                    seen.insert(n.to_string(), PropSpec { name: n.to_string(), ty, alias, migrates, serializes_as, serializes });
                }
                guard += 1;
                if guard > 64 {
                    break;
                }
                cur = c.superclass.as_ref().and_then(|s| self.db.classes.get(s.as_ref()));
            }
            self.props.insert(class.to_string(), seen.into_values().collect());
        }
        &self.props[class]
    }
}

// ------------------------------------------------------------------------------------------ generator

/// value types the README marks as implemented for rbx_binary (plus the string-like payload types it
/// writes through Type::String)
pub const BINARY_TYPES: [VariantType; 37] = [
    VariantType::Axes,
    VariantType::BinaryString,
    VariantType::Bool,
    VariantType::BrickColor,
    VariantType::CFrame,
    VariantType::Color3,
    VariantType::Color3uint8,
    VariantType::ColorSequence,
    VariantType::Content,
    VariantType::Enum,
    VariantType::Faces,
    VariantType::Float32,
    VariantType::Float64,
    VariantType::Font,
    VariantType::Int32,
    VariantType::Int64,
    VariantType::NumberRange,
    VariantType::NumberSequence,
    VariantType::OptionalCFrame,
    VariantType::PhysicalProperties,
    VariantType::Ray,
    VariantType::Rect,
    VariantType::Ref,
    VariantType::SecurityCapabilities,
    VariantType::SharedString,
    VariantType::String,
    VariantType::UDim,
    VariantType::UDim2,
    VariantType::UniqueId,
    VariantType::Vector2,
    VariantType::Vector3,
    VariantType::Vector3int16,
    // written through Type::String although not in the README table
    VariantType::ContentId,
    VariantType::Tags,
    VariantType::MaterialColors,
    VariantType::Attributes,
    // no binary type: UnsupportedPropType
    VariantType::Region3,
];

pub const HOT_CLASSES: [&str; 30] = [
    "Part", "MeshPart", "TextLabel", "TextButton", "ScreenGui", "Folder", "Model", "Workspace", "Lighting", "NumberValue",
    "IntValue", "StringValue", "ObjectValue", "Terrain", "SpawnLocation", "Decal", "Sound", "UnionOperation", "Script",
    "Frame", "ImageLabel", "Tool", "Attachment", "ParticleEmitter", "WeldConstraint", "Humanoid", "RayValue", "Beam",
    "BillboardGui", "TextBox",
];

#[derive(Clone, Debug)]
pub struct GenCfg {
    pub max_nodes: u64,
    /// percentage of instances with a class unknown to the database (100 = never touch the database)
    pub unknown_pct: u64,
    /// all instances of one class, flat siblings (C08 shapes)
    pub same_class: bool,
    /// allow planted type mismatches / unsupported types / invalid roots
    pub hostile: bool,
}

impl Default for GenCfg {
    fn default() -> Self {
        GenCfg { max_nodes: 24, unknown_pct: 30, same_class: false, hostile: true }
    }
}

const SSTR_POOL: [&[u8]; 5] = [b"", b"shared-a", b"shared-b\0\xff", b"mesh data 0123456789", b"\x00\x01\x02"];

fn gen_name(rng: &mut Rng) -> String {
    match rng.below(10) {
        0 => String::new(),
        1 => val::gen_utf8(rng),
        _ => {
            let k = rng.range(1, 8);
            (0..k).map(|_| (b'A' + rng.below(26) as u8) as char).collect()
        }
    }
}

fn type_tag(t: VariantType) -> String {
    format!("{t:?}")
}

/// value for a property; Refs are synthetic refs of labels drawn from 0..=n+2 (n+1, n+2 name no node)
fn gen_prop_value(rng: &mut Rng, ty: Option<VariantType>, n: u64) -> Variant {
    let v = match ty {
        None => {
            if rng.chance(10) {
                Variant::EnumItem(EnumItem { ty: "Material".to_string(), value: rng.below(3000) as u32 })
            } else {
                Variant::Enum(Enum::from_u32(match rng.below(4) {
                    0 => 0,
                    1 => rng.below(60) as u32,
                    2 => rng.below(3000) as u32,
                    _ => val::gen_u32(rng),
                }))
            }
        }
        Some(VariantType::SharedString) => {
            if rng.chance(80) {
                Variant::SharedString(SharedString::new(rng.pick(&SSTR_POOL).to_vec()))
            } else {
                Variant::SharedString(SharedString::new(val::gen_bytes(rng)))
            }
        }
        Some(VariantType::Attributes) => {
            // mostly value types the attribute writer supports (others make the whole encode fail)
            const OK: [VariantType; 19] = [
                VariantType::Bool, VariantType::BrickColor, VariantType::CFrame, VariantType::Color3, VariantType::ColorSequence,
                VariantType::Float32, VariantType::Float64, VariantType::Font, VariantType::Int32, VariantType::NumberRange,
                VariantType::NumberSequence, VariantType::Rect, VariantType::String, VariantType::BinaryString, VariantType::UDim,
                VariantType::UDim2, VariantType::Vector2, VariantType::Vector3, VariantType::EnumItem,
            ];
            let mut a = Attributes::new();
            for _ in 0..rng.below(5) {
                let t = if rng.chance(97) { *rng.pick(&OK) } else { *rng.pick(&val::VARIANT_TYPES) };
                a.insert(val::gen_utf8(rng), val::gen_value(rng, t, 0));
            }
            Variant::Attributes(a)
        }
        Some(t) => val::gen_value(rng, t, 1),
    };
    let mut pick = |_r: Ref| val::synthetic_ref(if rng.chance(15) { 0 } else { rng.range(1, n + 2) });
    map_refs(&v, &mut pick)
}

fn unknown_prop_name(t: VariantType, k: u64) -> String {
    format!("U{}{}", type_tag(t), k)
}

pub fn gen_forest(rng: &mut Rng, cat: &mut Catalogue, cfg: &GenCfg) -> Forest {
    let mut f = Forest::default();
    // ---- shape
    let n = match rng.below(10) {
        0 => 1,
        1..=5 => rng.range(2, 8),
        6..=8 => rng.range(5, cfg.max_nodes.max(6)),
        _ => rng.range(cfg.max_nodes.max(6), cfg.max_nodes.max(6) * 3),
    };
    let mode = rng.below(4); // 0 = deep chain, 1 = wide fan-out, 2/3 = random attachment
    let mut parents: Vec<u64> = Vec::new();
    for i in 1..=n {
        let p = if i == 1 || cfg.same_class {
            0
        } else {
            match mode {
                0 => if rng.chance(85) { i - 1 } else { rng.below(i) },
                1 => if rng.chance(80) { rng.below(2.min(i)) } else { rng.below(i) },
                _ => rng.below(i),
            }
        };
        parents.push(p);
    }
    // node lines must list parents first and siblings in child order: label order does that (parent < child)
    // ---- classes
    let unknown_classes = ["Unk0", "Unk1", "Unk2", "UnkX", "", "Ünk"];
    let case_class: Option<String> = if cfg.same_class {
        Some(if rng.chance(cfg.unknown_pct) {
            rng.pick(&unknown_classes[..4]).to_string()
        } else if !cat.inheriting.is_empty() && rng.chance(12) {
            rng.pick(&cat.inheriting).clone()
        } else if rng.chance(80) {
            rng.pick(&HOT_CLASSES[..6]).to_string()
        } else {
            rng.pick(&HOT_CLASSES).to_string()
        })
    } else {
        None
    };
    let mut hostile_used = false;
    let mut class_cols: HashMap<String, Vec<(String, Option<VariantType>)>> = HashMap::new();
    for i in 1..=n {
        let class = match &case_class {
            Some(c) => c.clone(),
            None => {
                if rng.chance(cfg.unknown_pct) {
                    rng.pick(&unknown_classes).to_string()
                } else if rng.chance(75) {
                    rng.pick(&HOT_CLASSES).to_string()
                } else {
                    rng.pick(&cat.class_names).clone()
                }
            }
        };
        let known = cfg.unknown_pct < 100 && cat.db.classes.contains_key(class.as_str());
        let mut props: Vec<(String, Variant)> = Vec::new();
        let k = match rng.below(6) {
            0 => 0,
            1..=3 => rng.range(1, 3),
            _ => rng.range(2, 7),
        };
        for _ in 0..k {
            // columns with several rows: reuse a (name, type) an earlier instance of this class already carries, with a fresh
            // value, so that every wire type's array coding (interleaving, delta coding, sub-arrays) is met with >= 2 rows
            if let Some(prev) = class_cols.get(&class) {
                if !prev.is_empty() && rng.chance(40) {
                    let (pn, pt) = rng.pick(prev).clone();
                    let v = gen_prop_value(rng, pt, n);
                    props.push((pn, v));
                    continue;
                }
            }
            if known && !rng.chance(15) {
                let specs = cat.props_of(&class).clone();
                let hot: Vec<&PropSpec> = specs.iter().filter(|p| p.alias || p.migrates || p.serializes_as).collect();
                let ser: Vec<&PropSpec> = specs.iter().filter(|p| p.serializes).collect();
                let spec = if !hot.is_empty() && rng.chance(55) {
                    *rng.pick(&hot)
                } else if !ser.is_empty() && !rng.chance(5) {
                    *rng.pick(&ser)
                } else if !specs.is_empty() {
                    rng.pick(&specs)
                } else {
                    continue;
                };
                let mut ty = spec.ty;
                if cfg.hostile && rng.below(300) == 0 {
                    ty = Some(*rng.pick(&BINARY_TYPES));
                    hostile_used = true;
                }
                let v = gen_prop_value(rng, ty, n);
                class_cols.entry(class.clone()).or_default().push((spec.name.clone(), ty));
                props.push((spec.name.clone(), v));
            } else {
                // a property the database does not know: its type is a function of its name
                let t = if cfg.hostile && rng.below(200) == 0 {
                    hostile_used = true;
                    *rng.pick(&[VariantType::Region3, VariantType::Vector2int16, VariantType::Region3int16, VariantType::EnumItem, VariantType::Attributes])
                } else {
                    // Color3uint8 on an unknown property makes the file unreadable (recorded finding): keep it rare
                    let t = *rng.pick(&BINARY_TYPES[..35]);
                    if t == VariantType::Color3uint8 && !rng.chance(10) { VariantType::Color3 } else { t }
                };
                // on a class the database does not know, sometimes a name that `Instance` itself declares (canonical or alias):
                // the class being unknown, it is an unknown property like any other and must come back under its own name with
                // its own value and type (a lookup that resolves Instance-level names before checking the class would not)
                let instance_level: [(&str, VariantType); 8] = [
                    ("Archivable", VariantType::Bool), ("archivable", VariantType::Bool), ("RobloxLocked", VariantType::Bool),
                    ("SourceAssetId", VariantType::Int32), ("Tags", VariantType::BinaryString), ("DataCost", VariantType::Int32),
                    ("Capabilities", VariantType::Int64), ("DefinesCapabilities", VariantType::Float32),
                ];
                let (name, t) = if !cat.db.classes.contains_key(class.as_str()) && rng.chance(20) {
                    let (nm, ty) = instance_level[rng.below(8) as usize];
                    (nm.to_string(), ty)
                } else {
                    (unknown_prop_name(t, rng.below(2)), t)
                };
                let ty = if t == VariantType::Enum { None } else { Some(t) };
                let v = gen_prop_value(rng, ty, n);
                class_cols.entry(class.clone()).or_default().push((name.clone(), ty));
                props.push((name, v));
            }
        }
        // duplicates of one name: keep the last (what the UstrMap will hold), so the case is a map
        let mut seen = BTreeSet::new();
        let mut dedup: Vec<(String, Variant)> = Vec::new();
        for (k, v) in props.into_iter().rev() {
            if seen.insert(k.clone()) {
                dedup.push((k, v));
            }
        }
        dedup.reverse();
        f.nodes.push(Node { label: i, parent: parents[(i - 1) as usize], class, name: gen_name(rng), props: dedup });
    }
    // UniqueId property values must be unique within a DOM (WeakDom invariant): re-draw duplicates
    let mut uids: HashSet<(u32, u32, i64)> = HashSet::new();
    for nd in f.nodes.iter_mut() {
        for (k, v) in nd.props.iter_mut() {
            if k == "UniqueId" {
                if let Variant::UniqueId(u) = v {
                    let mut cur = *u;
                    while !uids.insert((cur.index(), cur.time(), cur.random())) {
                        cur = UniqueId::new(val::gen_u32(rng), rng.next() as u32, rng.next() as i64);
                    }
                    *v = Variant::UniqueId(cur);
                }
            }
        }
    }
    // ---- roots
    let tops: Vec<u64> = f.nodes.iter().filter(|n| n.parent == 0).map(|n| n.label).collect();
    f.roots = match rng.below(10) {
        0..=5 => tops.clone(),
        6..=8 => {
            // a non-overlapping selection of subtrees in arbitrary order
            let mut cand: Vec<u64> = f.nodes.iter().map(|n| n.label).collect();
            rng.shuffle(&mut cand);
            let mut chosen: Vec<u64> = Vec::new();
            let anc = |f: &Forest, mut x: u64| -> Vec<u64> {
                let mut v = Vec::new();
                while x != 0 {
                    v.push(x);
                    x = f.node(x).map(|n| n.parent).unwrap_or(0);
                }
                v
            };
            let want = rng.range(1, 4) as usize;
            for c in cand {
                if chosen.len() >= want {
                    break;
                }
                let a = anc(&f, c);
                let clash = chosen.iter().any(|x| a.contains(x) || anc(&f, *x).contains(&c));
                if !clash {
                    chosen.push(c);
                }
            }
            chosen
        }
        _ => {
            let mut t = tops.clone();
            rng.shuffle(&mut t);
            t
        }
    };
    if cfg.hostile && rng.below(200) == 0 {
        f.roots.push(n + 7); // a referent that is not in the DOM
        hostile_used = true;
    }
    if cfg.hostile && f.nodes.len() >= 2 && rng.below(25) == 0 {
        // a root list outside the round-trip properties' quantifier ("non-overlapping choices of roots"): one referent
        // named twice, or an instance together with one of its descendants.  Whatever the serializer makes of it, the
        // bytes must still be a function of the logical content (C07, rebuild oracle) and model and implementation
        // must agree; the round-trip oracles do not apply (option `rootdup`).
        let mut r = tops.clone();
        rng.shuffle(&mut r);
        let inner: Vec<u64> = f.nodes.iter().filter(|x| x.parent != 0).map(|x| x.label).collect();
        if (rng.below(2) == 0 || inner.is_empty()) && !r.is_empty() {
            let d = r[rng.below(r.len() as u64) as usize];
            let at = rng.below(r.len() as u64 + 1) as usize;
            r.insert(at, d);
            if r.len() == 2 && f.nodes.len() > 1 {
                // make sure at least two distinct roots are named beside the repetition when the DOM allows it
                if let Some(x) = inner.first() {
                    r.insert(rng.below(3) as usize, *x);
                }
            }
        } else if !inner.is_empty() {
            let d = inner[rng.below(inner.len() as u64) as usize];
            let at = rng.below(r.len() as u64 + 1) as usize;
            r.insert(at, d);
        }
        f.roots = r;
        f.opts.push(("rootdup".into(), "1".into()));
        hostile_used = true;
    }
    if hostile_used {
        f.opts.push(("hostile".into(), "1".into()));
    }
    // ---- shared string table
    let mut seen: BTreeSet<Vec<u8>> = BTreeSet::new();
    for nd in &f.nodes {
        for (_, v) in &nd.props {
            if let Variant::SharedString(s) = v {
                if seen.insert(s.data().to_vec()) {
                    f.sstr.push((s.data().to_vec(), s.hash().as_bytes().to_vec()));
                }
            }
        }
    }
    f
}

// ------------------------------------------------------------------------------------------ migrating pairs (C15)

#[derive(Clone, Debug)]
pub struct MigPair {
    /// class that declares the legacy property
    pub owner: String,
    /// a class to instantiate (the owner or a well-known subclass)
    pub class: String,
    pub legacy: String,
    pub new_name: String,
    /// None = Enum
    pub legacy_ty: Option<VariantType>,
    pub enum_name: Option<String>,
}

fn inherits(db: &ReflectionDatabase, class: &str, ancestor: &str) -> bool {
    let mut cur = db.classes.get(class);
    let mut guard = 0;
    while let Some(c) = cur {
        if c.name == ancestor {
            return true;
        }
        guard += 1;
        if guard > 64 {
            break;
        }
        cur = c.superclass.as_ref().and_then(|s| db.classes.get(s.as_ref()));
    }
    false
}

/// every property of the database whose serialization is Migrate, with a class to instantiate
pub fn migrate_pairs(cat: &Catalogue) -> Vec<MigPair> {
    let mut out = Vec::new();
    for cn in &cat.class_names {
        let c = &cat.db.classes[cn.as_str()];
        let mut names: Vec<&str> = c.properties.keys().map(|k| k.as_ref()).collect();
        names.sort();
        for pn in names {
            let p = &c.properties[pn];
            if let PropertyKind::Canonical { serialization: PropertySerialization::Migrate(m) } = &p.kind {
                let class = HOT_CLASSES
                    .iter()
                    .find(|h| inherits(cat.db, h, cn))
                    .map(|h| h.to_string())
                    .unwrap_or_else(|| cn.clone());
                let (legacy_ty, enum_name) = match &p.data_type {
                    DataType::Value(t) => (Some(*t), None),
                    DataType::Enum(e) => (None, Some(e.to_string())),
                    _ => continue,
                };
                out.push(MigPair { owner: cn.clone(), class, legacy: pn.to_string(), new_name: m.new_property_name.clone(), legacy_ty, enum_name });
            }
        }
    }
    out
}

/// all legacy values of a pair, in a fixed order (every item of the enum, every BrickColor number, ...)
pub fn legacy_values(cat: &Catalogue, p: &MigPair) -> Vec<Variant> {
    match (&p.legacy_ty, &p.enum_name) {
        (None, Some(e)) => {
            let mut v: Vec<u32> = cat.db.enums.get(e.as_str()).map(|d| d.items.values().copied().collect()).unwrap_or_default();
            v.sort();
            v.dedup();
            v.into_iter().map(|x| Variant::Enum(Enum::from_u32(x))).collect()
        }
        (Some(VariantType::BrickColor), _) => val::brick_numbers().into_iter().filter_map(BrickColor::from_number).map(Variant::BrickColor).collect(),
        (Some(VariantType::Bool), _) => vec![Variant::Bool(false), Variant::Bool(true)],
        (Some(VariantType::ContentId), _) => vec![
            Variant::ContentId(ContentId::new()),
            Variant::ContentId("rbxassetid://12345".into()),
            Variant::ContentId("a".into()),
            Variant::ContentId("日本語 \u{0} x".into()),
        ],
        (Some(t), _) => neutral_like(*t).into_iter().collect(),
        _ => Vec::new(),
    }
}

fn neutral_like(t: VariantType) -> Option<Variant> {
    let mut r = Rng::new(7);
    Some(val::gen_value(&mut r, t, 0))
}

/// same-class sets exercising one Migrate pair: each instance carries the legacy spelling only, the new
/// property only, both, or neither; `k` walks through all legacy values
pub fn gen_migrating(rng: &mut Rng, cat: &mut Catalogue, k: u64) -> Forest {
    let pairs = migrate_pairs(cat);
    let mut f = Forest::default();
    f.opts.push(("migrating".into(), "1".into()));
    if pairs.is_empty() {
        return f;
    }
    let pair = pairs[(k % pairs.len() as u64) as usize].clone();
    let values = legacy_values(cat, &pair);
    let specs = cat.props_of(&pair.class).clone();
    let new_spec = specs.iter().find(|s| s.name == pair.new_name).cloned();
    let n = rng.range(1, 3);
    for i in 1..=n {
        let mut props: Vec<(String, Variant)> = Vec::new();
        let mode = if i == 1 { (k / pairs.len() as u64) % 3 } else { rng.below(4) };
        let lv = if values.is_empty() { None } else { Some(values[((k / pairs.len() as u64 / 3 + i - 1) % values.len() as u64) as usize].clone()) };
        let nv = new_spec.as_ref().map(|s| match gen_prop_value(rng, s.ty, n) {
            Variant::EnumItem(e) => Variant::Enum(Enum::from_u32(e.value)), // not writable without a database
            v => v,
        });
        match mode {
            0 => {
                if let Some(v) = lv {
                    props.push((pair.legacy.clone(), v));
                }
            }
            1 => {
                if let Some(v) = nv {
                    props.push((pair.new_name.clone(), v));
                }
            }
            2 => {
                let (a, b) = (lv.map(|v| (pair.legacy.clone(), v)), nv.map(|v| (pair.new_name.clone(), v)));
                let mut both: Vec<(String, Variant)> = a.into_iter().chain(b.into_iter()).collect();
                if rng.chance(50) {
                    both.reverse();
                }
                props.extend(both);
            }
            _ => {}
        }
        if rng.chance(40) {
            props.push(("Archivable".to_string(), Variant::Bool(rng.chance(50))));
        }
        f.nodes.push(Node { label: i, parent: 0, class: pair.class.clone(), name: gen_name(rng), props });
    }
    f.roots = f.nodes.iter().map(|x| x.label).collect();
    if rng.chance(30) {
        f.roots.reverse();
    }
    f
}
