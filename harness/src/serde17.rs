//! serde17: property C17 — value types survive their serde / text encodings; the JSON form is the wire
//! contract with rbx_dom_lua.
//!
//! `serde17-gen --seed S --cases N --part values|text|exhaustive|fixture --out FILE`
//! `serde17-run CASES OBS ORACLE STATS`
//!
//! A case is a list of items, one per line.  MODELLED items (pure hand-written conversions of rbx_types; the
//! extracted Coq models print the same line through `modelrun serde17`) write one observation each:
//!   ref N                 `ref <hex Display> <FromStr of it>`          referent.rs Display / FromStr
//!   refp BYTES            `refp OK n | ERR empty|invalid|pos|neg`        Ref::from_str on any string
//!   uid I T R             `uid <hex Display> <FromStr of it>`           unique_id.rs
//!   uidp BYTES            `uidp OK i t r | ERR len|empty|invalid|pos|neg | PANIC`  (PANIC: only before /repo 680c0119)
//!   tags K BYTES*         `tags <hex encode> <decode of it>`            tags.rs
//!   tagsd BYTES           `tagsd OK k bytes* | ERR utf8`
//!   mc K (IDX R G B)*     `mc <hex encode> <decode of it>`              material_colors.rs
//!   mcd BYTES             `mcd OK k (idx r g b)* | ERR len`
//!   faces N / axes N      `faces SOME k names* <names read back> | NONE ERR bits`   faces.rs / axes.rs
//!   facesn K BYTES* / axesn    `facesn OK bits | ERR name`              the human-readable name-list reader
//!   brick N               `brick SOME name r g b <from_name(name)> | NONE`   brick_color.rs
//!   brickn BYTES          `brickn SOME n | NONE`
//!   fontw N / fonts N     `fontw SOME number name | NONE`               font.rs from_u16/as_u16, from_u8/as_u8
//! UNMODELLED items (serde_json, bincode, rmp-serde and derive-generated code are external) only feed oracles:
//!   v <value tokens>      the Variant through serde_json {to_string/from_str, to_vec/from_slice,
//!                         to_writer/from_reader, to_value/from_value}, bincode, rmp-serde (to_vec, to_vec_named):
//!                         decode(encode(v)) must equal v, floats compared by bit pattern.  JSON cannot
//!                         represent NaN/inf (serde_json writes `null`): values containing a non-finite
//!                         float are classified in the statistics and kept out of the JSON oracle.
//!   fixture BYTES         the named sample of /repo/rbx_dom_lua/src/allValues.json: decodes to its stated
//!                         type, re-encodes to the same JSON.
//! `ref`, `uid`, `tags`, `mc`, `faces`, `axes`, `brick` items also push their value through the serde sweep.
//!
//! Oracle lines: `<case> C17 <key> <message>`; keys are stable words (`uniqueid-negative-random`, `uniqueid-fromstr-panic`,
//! `sharedstring-reader`, `binarystring-value`, `faces-reader`, `tags-empty`, ...): `<type>-<entry point>` for
//! the sweep.  At most 40 lines per key are written; totals per key are in the statistics.
use crate::rng::Rng;
use crate::util::*;
use crate::val::{self, hex, RefCtx, Toks};
use rbx_types::*;
use std::collections::{BTreeMap, BTreeSet};
use std::io::Write;
use std::panic::{catch_unwind, AssertUnwindSafe};
use std::str::FromStr;

const FIXTURE: &str = "rbx_dom_lua/src/allValues.json";
const ENTRIES: [&str; 10] = ["str", "slice", "reader", "value", "bincode", "bincode-reader", "msgpack", "msgpack-reader", "msgpack-named", "after-fault"];

fn repo() -> String {
    std::env::var("VERIF_REPO").unwrap_or_else(|_| "/repo".to_string())
}

// ------------------------------------------------------------------------------------------ small helpers

fn ztok(v: i128) -> String {
    if v < 0 {
        format!("-{:x}", v.unsigned_abs())
    } else {
        format!("{v:x}")
    }
}

fn short(s: &str) -> String {
    if s.len() > 300 {
        let mut k = 300;
        while !s.is_char_boundary(k) {
            k -= 1;
        }
        format!("{}…({} bytes)", &s[..k], s.len())
    } else {
        s.to_string()
    }
}

/// a Ref from its u128 value without going through the text form under test (bincode: u128 little endian)
fn ref_of(n: u128) -> Ref {
    bincode::deserialize::<Ref>(&n.to_le_bytes()).expect("bincode Ref")
}
fn ref_value(r: Ref) -> u128 {
    let b = bincode::serialize(&r).expect("bincode Ref");
    u128::from_le_bytes(b[..16].try_into().unwrap())
}

fn pie_class(e: &std::num::ParseIntError) -> &'static str {
    use std::num::IntErrorKind::*;
    match e.kind() {
        Empty => "empty",
        InvalidDigit => "invalid",
        PosOverflow => "pos",
        NegOverflow => "neg",
        _ => "other",
    }
}

/// error class of `UniqueId::from_str` (the error type is opaque: classified by its Display text)
fn uid_err_class(msg: &str) -> &'static str {
    if msg.contains("expected string to contain 32 characters") {
        "len"
    } else if msg.contains("cannot parse integer from empty string") {
        "empty"
    } else if msg.contains("invalid digit found in string") {
        "invalid"
    } else if msg.contains("number too large to fit in target type") {
        "pos"
    } else if msg.contains("number too small to fit in target type") {
        "neg"
    } else {
        "other"
    }
}

fn uid_parse(s: &str) -> (String, Option<UniqueId>, String) {
    match catch_unwind(AssertUnwindSafe(|| UniqueId::from_str(s))) {
        Ok(Ok(u)) => (format!("OK {:x} {:x} {}", u.index(), u.time(), ztok(u.random() as i128)), Some(u), String::new()),
        Ok(Err(e)) => {
            let m = e.to_string();
            (format!("ERR {}", uid_err_class(&m)), None, m)
        }
        Err(p) => {
            let m = p.downcast_ref::<String>().cloned().or_else(|| p.downcast_ref::<&str>().map(|s| s.to_string())).unwrap_or_default();
            ("PANIC".to_string(), None, m)
        }
    }
}

fn tags_vec(t: &Tags) -> Vec<String> {
    t.iter().map(|s| s.to_string()).collect()
}
fn tags_tokens(ts: &[String]) -> String {
    let mut o = format!("{:x}", ts.len());
    for s in ts {
        o.push(' ');
        o.push_str(&hex(s.as_bytes()));
    }
    o
}

fn mc_tokens(m: &MaterialColors) -> String {
    let e = val::material_entries(m);
    let mut o = format!("{:x}", e.len());
    for (i, c) in e {
        o.push_str(&format!(" {:x} {:x} {:x} {:x}", i, c[0], c[1], c[2]));
    }
    o
}

// ------------------------------------------------------------------------------------------ the serde sweep

/// every f32/f64 contained in the value (as f64) — only used to know whether JSON can represent it
fn floats(v: &Variant, out: &mut Vec<f64>) {
    fn v3(a: &Vector3, out: &mut Vec<f64>) {
        out.extend([a.x as f64, a.y as f64, a.z as f64]);
    }
    fn cf(c: &CFrame, out: &mut Vec<f64>) {
        v3(&c.position, out);
        v3(&c.orientation.x, out);
        v3(&c.orientation.y, out);
        v3(&c.orientation.z, out);
    }
    match v {
        Variant::CFrame(c) => cf(c, out),
        Variant::OptionalCFrame(Some(c)) => cf(c, out),
        Variant::Color3(c) => out.extend([c.r as f64, c.g as f64, c.b as f64]),
        Variant::ColorSequence(s) => {
            for k in &s.keypoints {
                out.extend([k.time as f64, k.color.r as f64, k.color.g as f64, k.color.b as f64]);
            }
        }
        Variant::Float32(x) => out.push(*x as f64),
        Variant::Float64(x) => out.push(*x),
        Variant::NumberRange(r) => out.extend([r.min as f64, r.max as f64]),
        Variant::NumberSequence(s) => {
            for k in &s.keypoints {
                out.extend([k.time as f64, k.value as f64, k.envelope as f64]);
            }
        }
        Variant::PhysicalProperties(PhysicalProperties::Custom(c)) => {
            out.extend([c.density as f64, c.friction as f64, c.elasticity as f64, c.friction_weight as f64, c.elasticity_weight as f64])
        }
        Variant::Ray(r) => {
            v3(&r.origin, out);
            v3(&r.direction, out);
        }
        Variant::Rect(r) => out.extend([r.min.x as f64, r.min.y as f64, r.max.x as f64, r.max.y as f64]),
        Variant::Region3(r) => {
            v3(&r.min, out);
            v3(&r.max, out);
        }
        Variant::UDim(u) => out.push(u.scale as f64),
        Variant::UDim2(u) => out.extend([u.x.scale as f64, u.y.scale as f64]),
        Variant::Vector2(a) => out.extend([a.x as f64, a.y as f64]),
        Variant::Vector3(a) => v3(a, out),
        Variant::Attributes(a) => {
            for (_, x) in a.iter() {
                floats(x, out);
            }
        }
        _ => {}
    }
}

fn has_nonfinite(v: &Variant) -> bool {
    let mut f = Vec::new();
    floats(v, &mut f);
    f.iter().any(|x| !x.is_finite())
}

fn fin32(x: f32) -> f32 {
    if x.is_finite() {
        x
    } else {
        f32::from_bits(x.to_bits() & 0xBFFF_FFFF) // clear the top exponent bit: inf -> 1.0, NaN payloads -> [1, 2)
    }
}
fn fin64(x: f64) -> f64 {
    if x.is_finite() {
        x
    } else {
        f64::from_bits(x.to_bits() & 0xBFFF_FFFF_FFFF_FFFF)
    }
}

/// the same value with every non-finite float replaced by a finite one (so that the JSON entry points are
/// exercised on the composite float types as well; the unmodified value still goes through the binary encodings)
fn finitize(v: &Variant) -> Variant {
    fn v3(a: &Vector3) -> Vector3 {
        Vector3::new(fin32(a.x), fin32(a.y), fin32(a.z))
    }
    fn v2(a: &Vector2) -> Vector2 {
        Vector2::new(fin32(a.x), fin32(a.y))
    }
    fn cf(c: &CFrame) -> CFrame {
        CFrame::new(v3(&c.position), Matrix3::new(v3(&c.orientation.x), v3(&c.orientation.y), v3(&c.orientation.z)))
    }
    fn c3(c: &Color3) -> Color3 {
        Color3::new(fin32(c.r), fin32(c.g), fin32(c.b))
    }
    match v {
        Variant::CFrame(c) => Variant::CFrame(cf(c)),
        Variant::OptionalCFrame(Some(c)) => Variant::OptionalCFrame(Some(cf(c))),
        Variant::Color3(c) => Variant::Color3(c3(c)),
        Variant::ColorSequence(s) => Variant::ColorSequence(ColorSequence { keypoints: s.keypoints.iter().map(|k| ColorSequenceKeypoint::new(fin32(k.time), c3(&k.color))).collect() }),
        Variant::Float32(x) => Variant::Float32(fin32(*x)),
        Variant::Float64(x) => Variant::Float64(fin64(*x)),
        Variant::NumberRange(r) => Variant::NumberRange(NumberRange::new(fin32(r.min), fin32(r.max))),
        Variant::NumberSequence(s) => {
            Variant::NumberSequence(NumberSequence { keypoints: s.keypoints.iter().map(|k| NumberSequenceKeypoint::new(fin32(k.time), fin32(k.value), fin32(k.envelope))).collect() })
        }
        Variant::PhysicalProperties(PhysicalProperties::Custom(c)) => Variant::PhysicalProperties(PhysicalProperties::Custom(CustomPhysicalProperties {
            density: fin32(c.density),
            friction: fin32(c.friction),
            elasticity: fin32(c.elasticity),
            friction_weight: fin32(c.friction_weight),
            elasticity_weight: fin32(c.elasticity_weight),
        })),
        Variant::Ray(r) => Variant::Ray(Ray::new(v3(&r.origin), v3(&r.direction))),
        Variant::Rect(r) => Variant::Rect(Rect::new(v2(&r.min), v2(&r.max))),
        Variant::Region3(r) => Variant::Region3(Region3::new(v3(&r.min), v3(&r.max))),
        Variant::UDim(u) => Variant::UDim(UDim::new(fin32(u.scale), u.offset)),
        Variant::UDim2(u) => Variant::UDim2(UDim2::new(UDim::new(fin32(u.x.scale), u.x.offset), UDim::new(fin32(u.y.scale), u.y.offset))),
        Variant::Vector2(a) => Variant::Vector2(v2(a)),
        Variant::Vector3(a) => Variant::Vector3(v3(a)),
        Variant::Attributes(a) => {
            let mut o = Attributes::new();
            for (k, x) in a.iter() {
                o.insert(k.clone(), finitize(x));
            }
            Variant::Attributes(o)
        }
        other => other.clone(),
    }
}

/// decode(encode(v)) through one entry point
fn through(entry: &str, v: &Variant) -> Result<Variant, String> {
    let r = catch_unwind(AssertUnwindSafe(|| -> Result<Variant, String> {
        match entry {
            "str" => {
                let s = serde_json::to_string(v).map_err(|e| format!("encode: {e}"))?;
                serde_json::from_str::<Variant>(&s).map_err(|e| format!("decode: {e}"))
            }
            "slice" => {
                let s = serde_json::to_vec(v).map_err(|e| format!("encode: {e}"))?;
                serde_json::from_slice::<Variant>(&s).map_err(|e| format!("decode: {e}"))
            }
            "reader" => {
                let mut buf = Vec::new();
                serde_json::to_writer(&mut buf, v).map_err(|e| format!("encode: {e}"))?;
                serde_json::from_reader::<_, Variant>(&buf[..]).map_err(|e| format!("decode: {e}"))
            }
            "value" => {
                let j = serde_json::to_value(v).map_err(|e| format!("encode: {e}"))?;
                serde_json::from_value::<Variant>(j).map_err(|e| format!("decode: {e}"))
            }
            "bincode" => {
                let b = bincode::serialize(v).map_err(|e| format!("encode: {e}"))?;
                bincode::deserialize::<Variant>(&b).map_err(|e| format!("decode: {e}"))
            }
            // the compact encodings decoded from an io::Read (no borrowed input available)
            "bincode-reader" => {
                let b = bincode::serialize(v).map_err(|e| format!("encode: {e}"))?;
                bincode::deserialize_from::<_, Variant>(std::io::Cursor::new(b)).map_err(|e| format!("decode: {e}"))
            }
            "msgpack-reader" => {
                let b = rmp_serde::to_vec(v).map_err(|e| format!("encode: {e}"))?;
                rmp_serde::from_read::<_, Variant>(std::io::Cursor::new(b)).map_err(|e| format!("decode: {e}"))
            }
            "msgpack" => {
                let b = rmp_serde::to_vec(v).map_err(|e| format!("encode: {e}"))?;
                rmp_serde::from_slice::<Variant>(&b).map_err(|e| format!("decode: {e}"))
            }
            // the encodings are functions of the value: an attempt that FAILED (the sink gives out after 0, half and all but one
            // of the bytes, through each of the three serializers) must leave nothing behind on this thread that changes what
            // the next attempt writes
            "after-fault" => {
                let good = serde_json::to_vec(v).map_err(|e| format!("encode: {e}"))?;
                let goodb = bincode::serialize(v).map_err(|e| format!("encode: {e}"))?;
                let goodm = rmp_serde::to_vec(v).map_err(|e| format!("encode: {e}"))?;
                for lim in [0, good.len() / 2, good.len().saturating_sub(1)] {
                    let _ = serde_json::to_writer(FailingSink { left: lim }, v);
                    let _ = bincode::serialize_into(FailingSink { left: lim.min(goodb.len().saturating_sub(1)) }, v);
                    let _ = rmp_serde::encode::write(&mut FailingSink { left: lim.min(goodm.len().saturating_sub(1)) }, v);
                }
                let again = serde_json::to_vec(v).map_err(|e| format!("encode: {e}"))?;
                if again != good {
                    return Err(format!("encode: after failed attempts on this thread the same value is written differently ({} bytes, before {})", again.len(), good.len()));
                }
                if bincode::serialize(v).map_err(|e| format!("encode: {e}"))? != goodb || rmp_serde::to_vec(v).map_err(|e| format!("encode: {e}"))? != goodm {
                    return Err("encode: after failed attempts on this thread the compact encoding of the same value differs".to_string());
                }
                // decoding is the business of the other entry points
                Ok(v.clone())
            }
            "msgpack-named" => {
                let b = rmp_serde::to_vec_named(v).map_err(|e| format!("encode: {e}"))?;
                rmp_serde::from_slice::<Variant>(&b).map_err(|e| format!("decode: {e}"))
            }
            _ => unreachable!(),
        }
    }));
    match r {
        Ok(x) => x,
        Err(p) => {
            let m = p.downcast_ref::<String>().cloned().or_else(|| p.downcast_ref::<&str>().map(|s| s.to_string())).unwrap_or_default();
            Err(format!("PANIC: {m}"))
        }
    }
}

fn is_json(entry: &str) -> bool {
    matches!(entry, "str" | "slice" | "reader" | "value" | "after-fault")
}

/// an io::Write that accepts `left` bytes and then fails
struct FailingSink {
    left: usize,
}
impl std::io::Write for FailingSink {
    fn write(&mut self, buf: &[u8]) -> std::io::Result<usize> {
        if self.left == 0 {
            return Err(std::io::Error::new(std::io::ErrorKind::Other, "sink full"));
        }
        let n = buf.len().min(self.left);
        self.left -= n;
        Ok(n)
    }
    fn flush(&mut self) -> std::io::Result<()> {
        Ok(())
    }
}

/// None if the value survives the entry point; otherwise (keys, message).  A failing `Attributes` is attributed
/// to the entries that fail on their own (the root causes), and only to `attributes-<entry>` when none does.
fn check_entry(entry: &str, v: &Variant, ctx: &mut RefCtx) -> Option<(BTreeSet<String>, String)> {
    let want = val::value_string(v, ctx);
    let mut differs = false;
    let msg = match through(entry, v) {
        Ok(d) => {
            let got = val::value_string(&d, ctx);
            if got == want {
                return None;
            }
            differs = true;
            format!("decoded value differs: got `{}`", short(&got))
        }
        Err(e) => e,
    };
    let mut keys = BTreeSet::new();
    if let Variant::Attributes(a) = v {
        for (_, inner) in a.iter() {
            if let Some((k, _)) = check_entry(entry, inner, ctx) {
                keys.extend(k);
            }
        }
    }
    if keys.is_empty() {
        let ty = format!("{:?}", v.ty()).to_lowercase();
        let key = match v {
            Variant::UniqueId(u) if u.random() < 0 && is_json(entry) => "uniqueid-negative-random".to_string(),
            // the decimal text is right, serde_json's default (non-`float_roundtrip`) f64 parser is off by an ulp
            Variant::Float64(_) if differs && matches!(entry, "str" | "slice" | "reader") => "float64-json-inexact".to_string(),
            _ => format!("{ty}-{entry}"),
        };
        keys.insert(key);
    }
    Some((keys, format!("{:?} through {entry}: {msg}; value `{}`", v.ty(), short(&want))))
}

struct Out {
    obs: Vec<String>,
    oracle: Vec<(String, String)>, // (key, message)
}

struct Run {
    stats: BTreeMap<String, u64>,
    samples: BTreeMap<String, String>,
    fixture: Option<serde_json::Value>,
    fixture_types: BTreeSet<String>,
}

impl Run {
    fn bump(&mut self, k: &str) {
        *self.stats.entry(k.to_string()).or_insert(0) += 1;
    }

    fn sweep(&mut self, v: &Variant, ctx: &mut RefCtx, out: &mut Out) {
        self.bump(&format!("values_{:?}", v.ty()));
        let nonfinite = has_nonfinite(v);
        for entry in ENTRIES {
            if is_json(entry) && nonfinite {
                // NaN / inf: not representable in JSON and excluded by the property; classify what happens
                let class = match through(entry, v) {
                    Ok(d) => {
                        if val::value_string(&d, ctx) == val::value_string(v, ctx) {
                            "roundtrips"
                        } else {
                            "decodes_to_other_value"
                        }
                    }
                    Err(e) if e.starts_with("encode") => "encode_error",
                    Err(e) if e.contains("invalid type: null") => "written_as_null_then_decode_error",
                    Err(e) if e.starts_with("PANIC") => "panic",
                    Err(e) => {
                        self.samples.entry("json_nonfinite_other_decode_error".into()).or_insert_with(|| short(&format!("{:?} through {entry}: {e}", v.ty())));
                        "other_decode_error"
                    }
                };
                self.bump(&format!("json_nonfinite_{class}"));
                // ... and the finite twin of the value goes through the JSON entry point instead
                let twin = finitize(v);
                match check_entry(entry, &twin, ctx) {
                    None => self.bump(&format!("entry_ok_{entry}")),
                    Some((keys, msg)) => {
                        self.bump(&format!("entry_fail_{entry}"));
                        for k in keys {
                            out.oracle.push((k, msg.clone()));
                        }
                    }
                }
                continue;
            }
            match check_entry(entry, v, ctx) {
                None => self.bump(&format!("entry_ok_{entry}")),
                Some((keys, msg)) => {
                    self.bump(&format!("entry_fail_{entry}"));
                    for k in keys {
                        out.oracle.push((k, msg.clone()));
                    }
                }
            }
        }
    }
}

// ------------------------------------------------------------------------------------------ items

fn flag_names_json(j: &serde_json::Value) -> Vec<String> {
    j.as_array().map(|a| a.iter().map(|x| x.as_str().unwrap_or("?").to_string()).collect()).unwrap_or_default()
}

fn run_item(run: &mut Run, line: &str, out: &mut Out) -> Result<(), String> {
    let mut t = Toks::new(line);
    let kind = t.word()?;
    let mut ctx = RefCtx::new();
    run.bump(&format!("items_{kind}"));
    match kind {
        "ref" => {
            let n = t.u128()?;
            let r = ref_of(n);
            let d = r.to_string();
            let back = Ref::from_str(&d);
            let res = match &back {
                Ok(x) => format!("OK {:x}", ref_value(*x)),
                Err(e) => format!("ERR {}", pie_class(e)),
            };
            out.obs.push(format!("ref {} {res}", hex(d.as_bytes())));
            if back.as_ref().ok() != Some(&r) {
                out.oracle.push(("ref-text".into(), format!("Ref {n:x} displays as `{d}` which parses to {res}")));
            }
            if serde_json::to_string(&r).ok() != Some(format!("\"{d}\"")) {
                out.oracle.push(("ref-json-form".into(), format!("Ref {n:x}: JSON form is not its Display string")));
            }
            run.sweep(&Variant::Ref(r), &mut ctx, out);
            run.sweep(&Variant::Content(Content::from_referent(r)), &mut ctx, out);
        }
        "refp" => {
            let s = t.utf8()?;
            let res = match Ref::from_str(&s) {
                Ok(x) => format!("OK {:x}", ref_value(x)),
                Err(e) => format!("ERR {}", pie_class(&e)),
            };
            out.obs.push(format!("refp {res}"));
        }
        "uid" => {
            let (i, tm, r) = (t.u32()?, t.u32()?, t.i64()?);
            let u = UniqueId::new(i, tm, r);
            let d = u.to_string();
            let (res, back, msg) = uid_parse(&d);
            out.obs.push(format!("uid {} {res}", hex(d.as_bytes())));
            if back != Some(u) {
                let key = if r < 0 { "uniqueid-negative-random" } else { "uniqueid-text" };
                out.oracle.push((key.into(), format!("UniqueId::new({i:#x}, {tm:#x}, {r}) displays as `{d}`; UniqueId::from_str of that gives {res} ({msg})")));
            }
            run.sweep(&Variant::UniqueId(u), &mut ctx, out);
        }
        "uidp" => {
            let s = t.utf8()?;
            let (res, _, msg) = uid_parse(&s);
            if res == "PANIC" {
                // from_str returns a Result: a panic is a defect of its own (the char-boundary slice before /repo 680c0119)
                run.bump("uid_from_str_panics");
                out.oracle.push(("uniqueid-fromstr-panic".into(), format!("UniqueId::from_str({s:?}) ({} bytes) panics: {msg}", s.len())));
            }
            out.obs.push(format!("uidp {res}"));
        }
        "tags" => {
            let k = t.usize()?;
            let mut ts = Vec::new();
            for _ in 0..k {
                ts.push(t.utf8()?);
            }
            let tags = Tags::from(ts.clone());
            let enc = tags.encode();
            let dec = Tags::decode(&enc);
            let res = match &dec {
                Ok(d) => format!("OK {}", tags_tokens(&tags_vec(d))),
                Err(_) => "ERR utf8".to_string(),
            };
            out.obs.push(format!("tags {} {res}", hex(&enc)));
            if dec.as_ref().ok() != Some(&tags) {
                let key = if ts.iter().any(|s| s.is_empty()) {
                    "tags-empty"
                } else if ts.iter().any(|s| s.contains('\0')) {
                    "tags-nul"
                } else {
                    "tags-blob"
                };
                out.oracle.push((key.into(), format!("Tags {ts:?} encode to {:?}, which decodes to {}", String::from_utf8_lossy(&enc), match &dec { Ok(d) => format!("{:?}", tags_vec(d)), Err(e) => format!("Err({e})") })));
            }
            run.sweep(&Variant::Tags(tags), &mut ctx, out);
        }
        "tagsd" => {
            let b = t.bytes()?;
            match Tags::decode(&b) {
                Ok(d) => {
                    out.obs.push(format!("tagsd OK {}", tags_tokens(&tags_vec(&d))));
                    let re = d.encode();
                    if re != b {
                        let key = if b.split(|x| *x == 0).any(|p| p.is_empty()) { "tags-blob-empty-piece" } else { "tags-blob" };
                        out.oracle.push((key.into(), format!("Tags blob {} decodes to {:?}, which encodes to the different blob {}", hex(&b), tags_vec(&d), hex(&re))));
                    }
                }
                Err(_) => out.obs.push("tagsd ERR utf8".to_string()),
            }
        }
        "mc" => {
            let k = t.usize()?;
            let mut m = MaterialColors::new();
            for _ in 0..k {
                let (i, r, g, b) = (t.u8()?, t.u8()?, t.u8()?, t.u8()?);
                let mat = *val::TERRAIN_MATERIALS.get(i as usize).ok_or("material index")?;
                m.set_color(mat, Color3uint8::new(r, g, b));
            }
            let enc = m.encode();
            let dec = MaterialColors::decode(&enc);
            let res = match &dec {
                Ok(d) => format!("OK {}", mc_tokens(d)),
                Err(_) => "ERR len".to_string(),
            };
            out.obs.push(format!("mc {} {res}", hex(&enc)));
            if enc.len() != 69 {
                out.oracle.push(("materialcolors-length".into(), format!("MaterialColors {} encodes to {} bytes", mc_tokens(&m), enc.len())));
            }
            match &dec {
                Ok(d) => {
                    let same = val::TERRAIN_MATERIALS.iter().all(|x| d.get_color(*x) == m.get_color(*x)) && d.encode() == enc;
                    if !same {
                        out.oracle.push(("materialcolors-roundtrip".into(), format!("MaterialColors {} does not survive encode/decode observationally", mc_tokens(&m))));
                    }
                    if *d != m {
                        run.bump("materialcolors_decoded_structurally_different");
                    }
                }
                Err(e) => out.oracle.push(("materialcolors-decode".into(), format!("MaterialColors {}: decode of its own blob fails: {e}", mc_tokens(&m)))),
            }
            run.sweep(&Variant::MaterialColors(m), &mut ctx, out);
        }
        "mcd" => {
            let b = t.bytes()?;
            match MaterialColors::decode(&b) {
                Ok(d) => {
                    out.obs.push(format!("mcd OK {}", mc_tokens(&d)));
                    let re = d.encode();
                    if re != b {
                        let key = if re.len() == b.len() && re[6..] == b[6..] { "materialcolors-reserved-bytes" } else { "materialcolors-blob" };
                        out.oracle.push((key.into(), format!("MaterialColors blob {} decodes and re-encodes to {}", hex(&b), hex(&re))));
                    }
                }
                Err(e) => {
                    out.obs.push("mcd ERR len".to_string());
                    if b.len() == 69 {
                        out.oracle.push(("materialcolors-decode".into(), format!("69-byte blob rejected: {e}")));
                    }
                }
            }
        }
        "faces" | "axes" => {
            let n = t.u8()?;
            let is_faces = kind == "faces";
            // (value as Variant, human-readable names, names read back)
            let some: Option<(Variant, serde_json::Value, Result<u8, String>)> = if is_faces {
                Faces::from_bits(n).map(|f| {
                    let j = serde_json::to_value(f).unwrap();
                    let back = serde_json::from_str::<Faces>(&serde_json::to_string(&f).unwrap()).map(|x| x.bits()).map_err(|e| e.to_string());
                    (Variant::Faces(f), j, back)
                })
            } else {
                Axes::from_bits(n).map(|f| {
                    let j = serde_json::to_value(f).unwrap();
                    let back = serde_json::from_str::<Axes>(&serde_json::to_string(&f).unwrap()).map(|x| x.bits()).map_err(|e| e.to_string());
                    (Variant::Axes(f), j, back)
                })
            };
            // the byte form of an invalid set must be rejected
            let byte_err = if is_faces { bincode::deserialize::<Faces>(&[n]).map(|_| ()).map_err(|e| e.to_string()) } else { bincode::deserialize::<Axes>(&[n]).map(|_| ()).map_err(|e| e.to_string()) };
            match some {
                Some((v, j, back)) => {
                    let names = flag_names_json(&j);
                    let res = match &back {
                        Ok(b) => format!("OK {b:x}"),
                        Err(e) if e.contains("invalid face") || e.contains("invalid axis") => "ERR name".to_string(),
                        Err(e) => format!("ERR other {e}"),
                    };
                    out.obs.push(format!("{kind} SOME {} {res}", tags_tokens(&names)));
                    if byte_err.is_err() {
                        out.oracle.push((format!("{kind}-bincode"), format!("{kind} bits {n:#x}: the byte form is rejected: {byte_err:?}")));
                    }
                    run.sweep(&v, &mut ctx, out);
                }
                None => {
                    let res = match &byte_err {
                        Ok(()) => "OK".to_string(),
                        Err(e) if e.contains("value must a u8 bitmask") => "ERR bits".to_string(),
                        Err(e) => format!("ERR other {e}"),
                    };
                    out.obs.push(format!("{kind} NONE {res}"));
                }
            }
        }
        "facesn" | "axesn" => {
            let k = t.usize()?;
            let mut names = Vec::new();
            for _ in 0..k {
                names.push(t.utf8()?);
            }
            let json = serde_json::to_string(&names).unwrap();
            let r = if kind == "facesn" { serde_json::from_str::<Faces>(&json).map(|f| f.bits()) } else { serde_json::from_str::<Axes>(&json).map(|f| f.bits()) };
            let res = match r {
                Ok(b) => format!("OK {b:x}"),
                Err(e) => {
                    let m = e.to_string();
                    if m.contains("invalid face") || m.contains("invalid axis") {
                        "ERR name".to_string()
                    } else {
                        format!("ERR other {m}")
                    }
                }
            };
            out.obs.push(format!("{kind} {res}"));
        }
        "brick" => {
            let n = t.u16()?;
            match BrickColor::from_number(n) {
                Some(bc) => {
                    let name = bc.to_string();
                    let c = bc.to_color3uint8();
                    let back = BrickColor::from_name(&name);
                    let bt = match back {
                        Some(b) => format!("{:x}", b as u16),
                        None => "NONE".to_string(),
                    };
                    out.obs.push(format!("brick SOME {} {:x} {:x} {:x} {bt}", hex(name.as_bytes()), c.r, c.g, c.b));
                    if bc as u16 != n {
                        out.oracle.push(("brickcolor-number".into(), format!("from_number({n}) has number {}", bc as u16)));
                    }
                    if back != Some(bc) {
                        out.oracle.push(("brickcolor-name-collision".into(), format!("BrickColor {n} displays as `{name}`; from_name of that gives {:?} (number {bt})", back)));
                    }
                    run.sweep(&Variant::BrickColor(bc), &mut ctx, out);
                }
                None => {
                    out.obs.push("brick NONE".to_string());
                    if serde_json::from_str::<BrickColor>(&n.to_string()).is_ok() || bincode::deserialize::<BrickColor>(&n.to_le_bytes()).is_ok() {
                        out.oracle.push(("brickcolor-invalid-accepted".into(), format!("number {n} is not a BrickColor but deserialises")));
                    }
                }
            }
        }
        "brickn" => {
            let s = t.utf8()?;
            out.obs.push(match BrickColor::from_name(&s) {
                Some(b) => format!("brickn SOME {:x}", b as u16),
                None => "brickn NONE".to_string(),
            });
        }
        "fontw" => {
            let n = t.u16()?;
            out.obs.push(match FontWeight::from_u16(n) {
                Some(w) => format!("fontw SOME {:x} {}", w.as_u16(), hex(format!("{w:?}").as_bytes())),
                None => "fontw NONE".to_string(),
            });
        }
        "fonts" => {
            let n = t.u8()?;
            out.obs.push(match FontStyle::from_u8(n) {
                Some(w) => format!("fonts SOME {:x} {}", w.as_u8(), hex(format!("{w:?}").as_bytes())),
                None => "fonts NONE".to_string(),
            });
        }
        "v" => {
            let v = val::parse(&mut t, &mut ctx)?;
            if !t.at_end() {
                return Err("tokens left over after the value".into());
            }
            run.sweep(&v, &mut ctx, out);
        }
        "fixture" => {
            let name = t.utf8()?;
            fixture_item(run, &name, &mut ctx, out)?;
        }
        other => return Err(format!("unknown item kind `{other}`")),
    }
    Ok(())
}

fn load_fixture() -> Result<serde_json::Value, String> {
    let p = format!("{}/{}", repo(), FIXTURE);
    let text = std::fs::read_to_string(&p).map_err(|e| format!("cannot read {p}: {e}"))?;
    serde_json::from_str(&text).map_err(|e| format!("{p} is not JSON: {e}"))
}

/// one sample of allValues.json: { "value": <Variant JSON>, "ty": "<VariantType>" }
fn fixture_item(run: &mut Run, name: &str, ctx: &mut RefCtx, out: &mut Out) -> Result<(), String> {
    if run.fixture.is_none() {
        run.fixture = Some(load_fixture()?);
    }
    let fx = run.fixture.clone().unwrap();
    let entry = match fx.get(name) {
        Some(e) => e.clone(),
        None => {
            out.oracle.push(("fixture-missing".into(), format!("sample `{name}` is not in {FIXTURE}")));
            return Ok(());
        }
    };
    let (value, ty) = match (entry.get("value"), entry.get("ty").and_then(|x| x.as_str())) {
        (Some(v), Some(t)) => (v.clone(), t.to_string()),
        _ => {
            out.oracle.push(("fixture-shape".into(), format!("sample `{name}` is not {{value, ty}}")));
            return Ok(());
        }
    };
    run.bump("fixture_samples");
    run.fixture_types.insert(ty.clone());
    // the wire form is text: decode it the way a consumer of the text does
    let text = serde_json::to_string(&value).unwrap();
    let v = match serde_json::from_str::<Variant>(&text) {
        Ok(v) => v,
        Err(e) => {
            out.oracle.push(("fixture-decode".into(), format!("sample `{name}` ({ty}) does not decode: {e}; JSON {}", short(&text))));
            return Ok(());
        }
    };
    if format!("{:?}", v.ty()) != ty {
        out.oracle.push(("fixture-type".into(), format!("sample `{name}` states type {ty} but decodes to {:?}", v.ty())));
    }
    // re-encode to text and compare as JSON documents (f32 fields print their shortest f32 decimal, which is what
    // the fixture contains; `to_value` would widen them to f64 first)
    match serde_json::to_string(&v).map_err(|e| e.to_string()).and_then(|s| serde_json::from_str::<serde_json::Value>(&s).map_err(|e| e.to_string())) {
        Ok(j) => {
            if j != value {
                out.oracle.push(("fixture-reencode".into(), format!("sample `{name}` ({ty}) re-encodes to {} instead of {}", short(&j.to_string()), short(&text))));
            }
        }
        Err(e) => out.oracle.push(("fixture-reencode".into(), format!("sample `{name}` ({ty}) does not re-encode: {e}"))),
    }
    // the pretty-printed form (the file's own layout) must decode to the same value
    let pretty = serde_json::to_string_pretty(&value).unwrap();
    match serde_json::from_str::<Variant>(&pretty) {
        Ok(v2) => {
            if val::value_string(&v2, ctx) != val::value_string(&v, ctx) {
                out.oracle.push(("fixture-decode".into(), format!("sample `{name}`: pretty and compact JSON decode differently")));
            }
        }
        Err(e) => out.oracle.push(("fixture-decode".into(), format!("sample `{name}`: pretty JSON does not decode: {e}"))),
    }
    // and the decoded sample goes through every entry point like any other value
    run.sweep(&v, ctx, out);
    Ok(())
}

// ------------------------------------------------------------------------------------------ generation

fn gen_u128(rng: &mut Rng) -> u128 {
    match rng.below(10) {
        0 => 0,
        1 => 1,
        2 => u128::MAX,
        3 => 1u128 << 127,
        4 => (1u128 << 64) - rng.below(2) as u128,
        5 => rng.below(300) as u128,
        6 => 1u128 << rng.below(128),
        7 => (1u128 << rng.below(128)).wrapping_sub(1),
        _ => ((rng.next() as u128) << 64) | rng.next() as u128,
    }
}

const REF_STRINGS: [&str; 30] = [
    "", "+", "-", "+1f", "-1", "-0", "0x10", "g", " 1", "1 ", "FFFF", "DeadBeef", "0", "00", "+0", "++1", "+-1", "1+", "é", "１",
    "ffffffffffffffffffffffffffffffff", "100000000000000000000000000000000", "+ffffffffffffffffffffffffffffffff",
    "0000000000000000000000000000000000000000001", "fffffffffffffffffffffffffffffffff", "ffffffffffffffffffffffffffffffffg",
    "gffffffffffffffffffffffffffffffffffff", "1_0", "0.5", "\u{0}",
];

fn gen_hexish(rng: &mut Rng, len: usize) -> String {
    (0..len)
        .map(|_| match rng.below(40) {
            0 => *rng.pick(&['g', '+', '-', ' ', 'x', 'G', '_', 'é', '\u{0}', '/', ':', '@', '`']),
            1..=6 => *rng.pick(&['A', 'B', 'C', 'D', 'E', 'F']),
            _ => *rng.pick(&['0', '1', '2', '3', '4', '5', '6', '7', '8', '9', 'a', 'b', 'c', 'd', 'e', 'f']),
        })
        .collect()
}

fn gen_ref_string(rng: &mut Rng) -> String {
    match rng.below(6) {
        0..=1 => rng.pick(&REF_STRINGS).to_string(),
        2 => format!("{:x}", gen_u128(rng)),
        3 => format!("{:032X}", gen_u128(rng)),
        4 => format!("+{:x}", gen_u128(rng)),
        _ => {
            let len = rng.below(42) as usize;
            gen_hexish(rng, len)
        }
    }
}

const UID_STRINGS: [&str; 22] = [
    "",
    "0badf00dc0ffee4200133700deadbeef",
    "0BADF00DC0FFEE4200133700DEADBEEF",
    "0badf00dc0ffee4200133700deadbee",
    "0badf00dc0ffee4200133700deadbeef0",
    "7fffffffffffffffffffffffffffffff",
    "8000000000000000ffffffffffffffff",
    "ffffffffffffffff0000000000000000",
    "-80000000000000000000000ffffffff",
    "-fffffffffffffff0000000100000002",
    "-0000000000000010000000000000000",
    "+7ffffffffffffff+fffffff+fffffff",
    "+fffffffffffffff0000000000000000",
    "0000000000000000-000000100000001",
    "000000000000000000000000-0000001",
    "000000000000000g0000000000000000",
    "0000000000000000000000000000000g",
    "000000000000000é000000000000000",   // 32 bytes, é straddles the random/time boundary (panicked before /repo 680c0119)
    "00000000000000000000000é0000000",   // é straddles the time/index boundary
    "00000000é0000000000000000000000",   // é inside the random field
    "00000000000000000000000000000é",     // 31 bytes: a length error
    "                                ",
];

fn gen_uid_string(rng: &mut Rng) -> String {
    match rng.below(8) {
        0..=1 => rng.pick(&UID_STRINGS).to_string(),
        2 => UniqueId::new(val::gen_u32(rng), val::gen_u32(rng), val::gen_i64(rng)).to_string(),
        3 => UniqueId::new(val::gen_u32(rng), val::gen_u32(rng), val::gen_i64(rng)).to_string().to_uppercase(),
        4 => {
            // a valid form with one character replaced
            let mut s: Vec<char> = UniqueId::new(val::gen_u32(rng), val::gen_u32(rng), val::gen_i64(rng).checked_abs().unwrap_or(0)).to_string().chars().collect();
            if s.len() == 32 {
                let at = *rng.pick(&[0usize, 1, 15, 16, 17, 23, 24, 25, 31]);
                s[at] = *rng.pick(&['+', '-', 'g', ' ', 'F', '0']);
            }
            s.into_iter().collect()
        }
        5 => {
            // 32 BYTES containing one two-byte character at a chosen byte offset
            let at = *rng.pick(&[0usize, 7, 14, 15, 16, 22, 23, 24, 30]);
            let mut s = String::new();
            while s.len() < at {
                s.push(*rng.pick(&['0', '1', 'a', 'f']));
            }
            s.push('é');
            while s.len() < 32 {
                s.push(*rng.pick(&['0', '1', 'a', 'f']));
            }
            s
        }
        6 => {
            let len = *rng.pick(&[0usize, 1, 16, 31, 32, 32, 32, 33, 64]);
            gen_hexish(rng, len)
        }
        _ => {
            let (a, b, c) = (rng.below(18) as usize, rng.below(10) as usize, rng.below(10) as usize);
            format!("{}{}{}", gen_hexish(rng, a), gen_hexish(rng, b), gen_hexish(rng, c))
        }
    }
}

const TAG_POOL: [&str; 12] = ["", "a", "Tag", "ez", "pz", "a\u{0}b", "\u{0}", "héllo", "日本", "grandma's", " ", "x\u{0}"];

fn gen_tag_list(rng: &mut Rng) -> Vec<String> {
    let k = match rng.below(8) {
        0 => 0,
        1 => 1,
        _ => rng.range(2, 6),
    };
    (0..k)
        .map(|_| match rng.below(4) {
            0..=1 => rng.pick(&TAG_POOL).to_string(),
            2 => val::gen_utf8(rng).chars().take(40).collect(),
            _ => ((b'a' + rng.below(26) as u8) as char).to_string().repeat(rng.range(1, 5) as usize),
        })
        .collect()
}

fn gen_tag_blob(rng: &mut Rng) -> Vec<u8> {
    match rng.below(5) {
        0 => {
            let ts = gen_tag_list(rng);
            ts.join("\0").into_bytes()
        }
        1 => {
            let k = rng.below(12) as usize;
            (0..k).map(|_| *rng.pick(&[0u8, 0, b'a', b'b', 0xc3, 0xa9, 0xff, 0x80])).collect()
        }
        2 => {
            let mut b = gen_tag_list(rng).join("\0").into_bytes();
            let at = rng.below(b.len() as u64 + 1) as usize;
            b.insert(at, *rng.pick(&[0u8, 0xff, 0xc0, 0x80, 0xe2]));
            b
        }
        3 => vec![0u8; rng.below(4) as usize],
        _ => val::gen_bytes(rng).into_iter().take(60).collect(),
    }
}

const FACE_NAMES: [&str; 14] = ["Right", "Top", "Back", "Left", "Bottom", "Front", "right", "Rightx", "", "Fron", "TopTop", "X", "Frönt", " Top"];
const AXIS_NAMES: [&str; 9] = ["X", "Y", "Z", "x", "XY", "", "W", "Top", " X"];

fn push_case(f: &mut impl Write, id: String, lines: Vec<String>) {
    write_case(f, &id, &lines);
}

fn gen_values(seed: u64, n: u64, f: &mut impl Write) {
    let mut rng = Rng::new(seed ^ 0x17_0001);
    let mut ctx = RefCtx::new();
    // deterministic pools first
    let mut pool = Vec::new();
    for b in val::F32_POOL {
        pool.push(format!("v {}", val::value_string(&Variant::Float32(f32::from_bits(b)), &mut ctx)));
    }
    for b in val::F64_POOL {
        pool.push(format!("v {}", val::value_string(&Variant::Float64(f64::from_bits(b)), &mut ctx)));
    }
    for x in [i64::MIN, i64::MAX, -1, 0, 1, (1 << 53) + 1, -(1 << 53) - 1] {
        pool.push(format!("v {}", val::value_string(&Variant::Int64(x), &mut ctx)));
    }
    for x in [i32::MIN, i32::MAX, -1, 0] {
        pool.push(format!("v {}", val::value_string(&Variant::Int32(x), &mut ctx)));
    }
    for x in [0u64, 1, u64::MAX, 1 << 63, (1 << 53) + 1] {
        pool.push(format!("v {}", val::value_string(&Variant::SecurityCapabilities(SecurityCapabilities::from_bits(x)), &mut ctx)));
    }
    for x in [0u32, u32::MAX] {
        pool.push(format!("v {}", val::value_string(&Variant::Enum(Enum::from_u32(x)), &mut ctx)));
    }
    for s in ["", "\u{0}", "\"\\/\u{8}\u{c}\n\r\t", "\u{7f}\u{80}\u{7ff}\u{800}\u{ffff}\u{10000}\u{10ffff}", "\u{2028}\u{2029}", "\u{1f}"] {
        pool.push(format!("v {}", val::value_string(&Variant::String(s.to_string()), &mut ctx)));
        pool.push(format!("v {}", val::value_string(&Variant::ContentId(s.into()), &mut ctx)));
    }
    for b in [&b""[..], &b"\0"[..], &b"\xff\xfe"[..], &b"Hello!"[..], &[0u8; 3][..], &[0xffu8; 4][..]] {
        pool.push(format!("v {}", val::value_string(&Variant::BinaryString(b.to_vec().into()), &mut ctx)));
        pool.push(format!("v {}", val::value_string(&Variant::SharedString(SharedString::new(b.to_vec())), &mut ctx)));
    }
    pool.push(format!("v {}", val::value_string(&Variant::OptionalCFrame(None), &mut ctx)));
    pool.push(format!("v {}", val::value_string(&Variant::PhysicalProperties(PhysicalProperties::Default), &mut ctx)));
    pool.push(format!("v {}", val::value_string(&Variant::Content(Content::none()), &mut ctx)));
    pool.push(format!("v {}", val::value_string(&Variant::Attributes(Attributes::new()), &mut ctx)));
    pool.push(format!("v {}", val::value_string(&Variant::Font(Font::default()), &mut ctx)));
    for (k, chunk) in pool.chunks(16).enumerate() {
        push_case(f, format!("vp{k}"), chunk.to_vec());
    }
    for c in 0..n {
        let mut lines = Vec::new();
        for j in 0..8u64 {
            let ty = val::VARIANT_TYPES[((c * 8 + j) % 40) as usize];
            let v = val::gen_value(&mut rng, ty, 2);
            let mut ctx = RefCtx::new();
            // refs inside generated values are the synthetic refs of labels 0..=8: bind them so that the tokens round-trip
            for l in 1..=8u64 {
                ctx.bind(l, val::synthetic_ref(l));
            }
            lines.push(format!("v {}", val::value_string(&v, &mut ctx)));
        }
        push_case(f, format!("v{c}"), lines);
    }
}

fn gen_text(seed: u64, n: u64, f: &mut impl Write) {
    let mut rng = Rng::new(seed ^ 0x17_0002);
    // pools, deterministic
    push_case(f, "tp-ref".into(), [0u128, 1, 30, u128::MAX, 1 << 127, (1 << 64) - 1, 1 << 64, 0x3000_00e0_0f00_0000_0000_0001].iter().map(|n| format!("ref {n:x}")).collect());
    push_case(f, "tp-refp".into(), REF_STRINGS.iter().map(|s| format!("refp {}", hex(s.as_bytes()))).collect());
    push_case(
        f,
        "tp-uid".into(),
        [(0u32, 0u32, 0i64), (0xdead_beef, 0x0013_3700, 0x0bad_f00d_c0ff_ee42), (u32::MAX, u32::MAX, i64::MAX), (0, 0, -1), (1, 2, i64::MIN), (7, 9, -0x1234_5678), (0, 0, 1 << 62)]
            .iter()
            .map(|(i, t, r)| format!("uid {i:x} {t:x} {}", ztok(*r as i128)))
            .collect(),
    );
    push_case(f, "tp-uidp".into(), UID_STRINGS.iter().map(|s| format!("uidp {}", hex(s.as_bytes()))).collect());
    push_case(
        f,
        "tp-tags".into(),
        vec![
            "tags 0".to_string(),
            format!("tags 1 {}", hex(b"")),
            format!("tags 2 {} {}", hex(b"ez"), hex(b"pz")),
            format!("tags 3 {} {} {}", hex(b"a"), hex(b""), hex(b"b")),
            format!("tags 1 {}", hex(b"a\0b")),
            format!("tags 2 {} {}", hex(b""), hex(b"")),
            format!("tagsd {}", hex(b"")),
            format!("tagsd {}", hex(b"ez\0pz")),
            format!("tagsd {}", hex(b"a\0\0b")),
            format!("tagsd {}", hex(b"\0a")),
            format!("tagsd {}", hex(b"a\0")),
            format!("tagsd {}", hex(b"a\0\xff")),
            format!("tagsd {}", hex(b"\0")),
        ],
    );
    let seq: Vec<u8> = (0..69u32).map(|k| if k < 6 { 0 } else { (k - 5) as u8 }).collect();
    let mut seq_hdr = seq.clone();
    seq_hdr[0] = 1;
    seq_hdr[5] = 0xff;
    push_case(
        f,
        "tp-mc".into(),
        vec![
            "mc 0".to_string(),
            "mc 2 0 a 14 1e a ff 0 7f".to_string(),
            format!("mc 15 {}", (0..21).map(|i| format!("{i:x} {:x} {:x} {:x}", i * 3 + 1, i * 3 + 2, i * 3 + 3)).collect::<Vec<_>>().join(" ")),
            format!("mcd {}", hex(&seq)),
            format!("mcd {}", hex(&seq_hdr)),
            format!("mcd {}", hex(&seq[..68])),
            format!("mcd {}", hex(&[&seq[..], &[0u8][..]].concat())),
            format!("mcd {}", hex(b"")),
            format!("mcd {}", hex(&[0u8; 6])),
        ],
    );
    push_case(
        f,
        "tp-names".into(),
        vec![
            "facesn 0".to_string(),
            format!("facesn 4 {0} {0} {0} {0}", hex(b"Right")),
            format!("facesn 6 {} {} {} {} {} {}", hex(b"Front"), hex(b"Bottom"), hex(b"Left"), hex(b"Back"), hex(b"Top"), hex(b"Right")),
            format!("facesn 1 {}", hex(b"calzone")),
            format!("facesn 2 {} {}", hex(b"Top"), hex(b"top")),
            "axesn 0".to_string(),
            format!("axesn 4 {0} {0} {0} {0}", hex(b"X")),
            format!("axesn 3 {} {} {}", hex(b"Z"), hex(b"Y"), hex(b"X")),
            format!("axesn 1 {}", hex(b"pizza")),
            format!("brickn {}", hex(b"Pastel brown")),
            format!("brickn {}", hex(b"Gold")),
            format!("brickn {}", hex(b"Lilac")),
            format!("brickn {}", hex(b"Rust")),
            format!("brickn {}", hex(b"Deep orange")),
            format!("brickn {}", hex(b"gold")),
            format!("brickn {}", hex(b"")),
        ],
    );
    let bricks = val::brick_numbers();
    for c in 0..n {
        let mut lines = Vec::new();
        lines.push(format!("ref {:x}", gen_u128(&mut rng)));
        lines.push(format!("refp {}", hex(gen_ref_string(&mut rng).as_bytes())));
        lines.push(format!("refp {}", hex(gen_ref_string(&mut rng).as_bytes())));
        lines.push(format!("uid {:x} {:x} {}", val::gen_u32(&mut rng), val::gen_u32(&mut rng), ztok(val::gen_i64(&mut rng) as i128)));
        lines.push(format!("uidp {}", hex(gen_uid_string(&mut rng).as_bytes())));
        lines.push(format!("uidp {}", hex(gen_uid_string(&mut rng).as_bytes())));
        let ts = gen_tag_list(&mut rng);
        lines.push(format!("tags {}", tags_tokens(&ts)));
        lines.push(format!("tagsd {}", hex(&gen_tag_blob(&mut rng))));
        let k = rng.below(7);
        let mut mc = format!("mc {k:x}");
        for _ in 0..k {
            mc.push_str(&format!(" {:x} {:x} {:x} {:x}", rng.below(21), rng.next() as u8, rng.next() as u8, rng.next() as u8));
        }
        lines.push(mc);
        let blob: Vec<u8> = match rng.below(6) {
            0 => (0..rng.below(140)).map(|_| rng.next() as u8).collect(),
            1 => (0..69).map(|_| rng.next() as u8).collect(),
            _ => (0..69).map(|k| if k < 6 { 0 } else { rng.next() as u8 }).collect(),
        };
        lines.push(format!("mcd {}", hex(&blob)));
        let k = rng.below(6) as usize;
        let names: Vec<String> = (0..k).map(|_| if rng.chance(85) { FACE_NAMES[rng.below(6) as usize] } else { *rng.pick(&FACE_NAMES) }.to_string()).collect();
        lines.push(format!("facesn {}", tags_tokens(&names)));
        let k = rng.below(5) as usize;
        let names: Vec<String> = (0..k).map(|_| if rng.chance(85) { AXIS_NAMES[rng.below(3) as usize] } else { *rng.pick(&AXIS_NAMES) }.to_string()).collect();
        lines.push(format!("axesn {}", tags_tokens(&names)));
        let name = BrickColor::from_number(*rng.pick(&bricks)).unwrap().to_string();
        let name = match rng.below(4) {
            0 => name.to_lowercase(),
            1 => format!("{name} "),
            _ => name,
        };
        lines.push(format!("brickn {}", hex(name.as_bytes())));
        push_case(f, format!("t{c}"), lines);
    }
}

fn gen_exhaustive(f: &mut impl Write) {
    for blk in 0..256u32 {
        push_case(f, format!("xb{blk}"), (0..256u32).map(|k| format!("brick {:x}", blk * 256 + k)).collect());
    }
    push_case(f, "xfaces".into(), (0..256u32).map(|k| format!("faces {k:x}")).collect());
    push_case(f, "xaxes".into(), (0..256u32).map(|k| format!("axes {k:x}")).collect());
    for blk in 0..64u32 {
        push_case(f, format!("xfw{blk}"), (0..1024u32).map(|k| format!("fontw {:x}", blk * 1024 + k)).collect());
    }
    push_case(f, "xfs".into(), (0..256u32).map(|k| format!("fonts {k:x}")).collect());
}

fn gen_fixture(f: &mut impl Write) {
    let fx = load_fixture().expect("fixture");
    let obj = fx.as_object().expect("allValues.json is an object");
    for name in obj.keys() {
        push_case(f, format!("fx-{name}"), vec![format!("fixture {}", hex(name.as_bytes()))]);
    }
}

// ------------------------------------------------------------------------------------------ CLI

pub fn cli(args: &[String]) -> bool {
    let cmd = args.get(1).map(|s| s.as_str()).unwrap_or("");
    match cmd {
        "serde17-gen" => {
            let seed = arg_num(args, "--seed", 1);
            let n = arg_num(args, "--cases", 200);
            let part = arg_val(args, "--part").unwrap_or_else(|| "values".to_string());
            let out = arg_val(args, "--out").expect("--out");
            let mut f = std::io::BufWriter::new(std::fs::File::create(out).unwrap());
            match part.as_str() {
                "values" => gen_values(seed, n, &mut f),
                "text" => gen_text(seed, n, &mut f),
                "exhaustive" => gen_exhaustive(&mut f),
                "fixture" => gen_fixture(&mut f),
                other => panic!("serde17-gen: unknown part {other}"),
            }
            f.flush().unwrap();
        }
        "serde17-run" => {
            let cases = read_cases(&args[2]);
            let mut obs = std::io::BufWriter::new(std::fs::File::create(&args[3]).unwrap());
            let mut orc = std::io::BufWriter::new(std::fs::File::create(&args[4]).unwrap());
            let mut run = Run { stats: BTreeMap::new(), samples: BTreeMap::new(), fixture: None, fixture_types: BTreeSet::new() };
            let mut per_key: BTreeMap<String, u64> = BTreeMap::new();
            let mut distinct = BTreeSet::new();
            for (id, lines) in &cases {
                let mut out = Out { obs: Vec::new(), oracle: Vec::new() };
                for line in lines {
                    if distinct.insert(line.clone()) {
                        run.bump("distinct_nontrivial");
                    }
                    if let Err(e) = run_item(&mut run, line, &mut out) {
                        out.obs.push(format!("BADCASE {e}"));
                    }
                }
                write_case(&mut obs, id, &out.obs);
                for (key, msg) in out.oracle {
                    let c = per_key.entry(key.clone()).or_insert(0);
                    *c += 1;
                    if *c <= 40 {
                        writeln!(orc, "{id} C17 {key} {}", msg.replace('\n', " ")).unwrap();
                    }
                }
            }
            let mut st = serde_json::Map::new();
            for (k, v) in &run.stats {
                st.insert(k.clone(), serde_json::json!(v));
            }
            st.insert("oracle_failures_by_key".into(), serde_json::json!(per_key));
            st.insert("samples".into(), serde_json::json!(run.samples));
            if run.fixture.is_some() {
                let missing: Vec<String> = val::VARIANT_TYPES.iter().map(|t| format!("{t:?}")).filter(|t| !run.fixture_types.contains(t)).collect();
                st.insert("fixture_types_without_sample".into(), serde_json::json!(missing));
            }
            std::fs::write(&args[5], serde_json::to_string_pretty(&serde_json::Value::Object(st)).unwrap()).unwrap();
            obs.flush().unwrap();
            orc.flush().unwrap();
        }
        _ => return false,
    }
    true
}
