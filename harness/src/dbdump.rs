//! dbdump: the TRANSLATOR for the reflection database.  Writes Coq source (`Gen/Database.v`) for the
//! database the crates really load (`rbx_reflection_database::get()`), in the vocabulary of
//! `Model/Db.v` and `Model/Value.v`.  Everything is sorted by name so the output is a function of the
//! database contents only.  Fails closed: anything the model cannot express (a new enum variant of a
//! `#[non_exhaustive]` type, a map key that differs from the descriptor's own name, a non-ASCII
//! identifier) aborts with a non-zero exit instead of being dropped.
//!
//! Sub-commands handled here (the other two live in the sub-modules):
//!   dbdump --out FILE          Coq source of the database
//!   dbdump --stats             one line of counts (classes / properties / defaults / enums / items)
#[path = "dbdefaults.rs"]
pub mod dbdefaults;
#[path = "lookup.rs"]
pub mod lookup;

use rbx_reflection::{
    ClassDescriptor, ClassTag, DataType, PropertyKind, PropertySerialization, ReflectionDatabase,
};
use rbx_types::{ContentType, PhysicalProperties, Variant, VariantType};
use std::fmt::Write as _;

/// VariantType as the number used by `Value.vtype` (position in `make_variant!`).
pub fn vt_num(t: VariantType) -> u32 {
    match t {
        VariantType::Axes => 0,
        VariantType::BinaryString => 1,
        VariantType::Bool => 2,
        VariantType::BrickColor => 3,
        VariantType::CFrame => 4,
        VariantType::Color3 => 5,
        VariantType::Color3uint8 => 6,
        VariantType::ColorSequence => 7,
        VariantType::ContentId => 8,
        VariantType::Enum => 9,
        VariantType::Faces => 10,
        VariantType::Float32 => 11,
        VariantType::Float64 => 12,
        VariantType::Int32 => 13,
        VariantType::Int64 => 14,
        VariantType::NumberRange => 15,
        VariantType::NumberSequence => 16,
        VariantType::PhysicalProperties => 17,
        VariantType::Ray => 18,
        VariantType::Rect => 19,
        VariantType::Ref => 20,
        VariantType::Region3 => 21,
        VariantType::Region3int16 => 22,
        VariantType::SharedString => 23,
        VariantType::String => 24,
        VariantType::UDim => 25,
        VariantType::UDim2 => 26,
        VariantType::Vector2 => 27,
        VariantType::Vector2int16 => 28,
        VariantType::Vector3 => 29,
        VariantType::Vector3int16 => 30,
        VariantType::OptionalCFrame => 31,
        VariantType::Tags => 32,
        VariantType::Attributes => 33,
        VariantType::Font => 34,
        VariantType::UniqueId => 35,
        VariantType::MaterialColors => 36,
        VariantType::SecurityCapabilities => 37,
        VariantType::EnumItem => 38,
        VariantType::Content => 39,
        other => fail(&format!("VariantType {:?} is not known to the Coq value model", other)),
    }
}

/// in strict mode (the translator) a value the model cannot express aborts; the round-trip comparison
/// switches it off and only uses the printed terms as a bit-exact structural key
pub static STRICT: std::sync::atomic::AtomicBool = std::sync::atomic::AtomicBool::new(true);

pub fn fail(msg: &str) -> ! {
    eprintln!("dbdump: {msg}");
    std::process::exit(3)
}

fn printable(b: u8) -> bool {
    (0x20..0x7f).contains(&b) && b != b'"' && b != b'\\'
}

/// a Coq `string` term: a literal for printable ASCII (`"` doubled, which is Coq's only escape), else
/// the explicit byte list
pub fn coq_string(s: &str) -> String {
    // words the proof audit greps for in the development (tools/vlib.py FORBIDDEN): a database identifier that
    // contains one is spelled as bytes, so that data can never trip (or hide in) the audit
    const AUDIT_WORDS: [&str; 12] = [
        "Admitted", "admit", "Axiom", "Parameter", "Conjecture", "Admit Obligations", "Unset ", "bypass_check",
        "type-in-type", "impredicative-set", "native_compute", "(*",
    ];
    let plain = s.bytes().all(|b| (0x20..0x7f).contains(&b)) && !AUDIT_WORDS.iter().any(|w| s.contains(w));
    if plain {
        format!("\"{}\"", s.replace('"', "\"\""))
    } else {
        let items: Vec<String> = s.bytes().map(|c| c.to_string()).collect();
        format!("(string_of_bytes [{}])", items.join(";"))
    }
}

/// a Coq `bytes` term
pub fn coq_bytes(b: &[u8]) -> String {
    if b.is_empty() {
        "[]".to_string()
    } else if b.iter().all(|c| printable(*c)) {
        format!("(B \"{}\")", std::str::from_utf8(b).unwrap())
    } else {
        let items: Vec<String> = b.iter().map(|c| c.to_string()).collect();
        format!("[{}]", items.join(";"))
    }
}

fn z(v: i64) -> String {
    if v < 0 {
        format!("({})%Z", v)
    } else {
        format!("{}%Z", v)
    }
}
fn f32b(x: f32) -> String {
    x.to_bits().to_string()
}
fn v3(v: &rbx_types::Vector3) -> String {
    format!("(mkV3 {} {} {})", f32b(v.x), f32b(v.y), f32b(v.z))
}
fn v2(v: &rbx_types::Vector2) -> String {
    format!("(mkV2 {} {})", f32b(v.x), f32b(v.y))
}
fn cf(c: &rbx_types::CFrame) -> String {
    format!(
        "(mkCF {} (mkM3 {} {} {}))",
        v3(&c.position),
        v3(&c.orientation.x),
        v3(&c.orientation.y),
        v3(&c.orientation.z)
    )
}
fn udim(u: &rbx_types::UDim) -> String {
    format!("(mkUDim {} {})", f32b(u.scale), z(u.offset as i64))
}
fn opt_bytes(o: &Option<String>) -> String {
    match o {
        None => "None".to_string(),
        Some(s) => format!("(Some {})", coq_bytes(s.as_bytes())),
    }
}
fn list(items: Vec<String>) -> String {
    format!("[{}]", items.join(";"))
}

/// A `Variant` as a term of the Coq type `value` (Model/Value.v).  Floats are bit patterns, Refs are 0
/// (a default can only be the null referent; anything else aborts), blobs are byte lists.
pub fn coq_value(v: &Variant) -> String {
    match v {
        Variant::Axes(a) => format!("VAxes {}", a.bits()),
        Variant::BinaryString(b) => format!("VBinaryString {}", coq_bytes(b.as_ref())),
        Variant::Bool(b) => format!("VBool {}", b),
        Variant::BrickColor(c) => format!("VBrickColor {}", *c as u16),
        Variant::CFrame(c) => format!("VCFrame {}", cf(c)),
        Variant::Color3(c) => format!("VColor3 {} {} {}", f32b(c.r), f32b(c.g), f32b(c.b)),
        Variant::Color3uint8(c) => format!("VColor3uint8 {} {} {}", c.r, c.g, c.b),
        Variant::ColorSequence(s) => format!(
            "VColorSequence {}",
            list(
                s.keypoints
                    .iter()
                    .map(|k| format!("({},({},{},{}))", f32b(k.time), f32b(k.color.r), f32b(k.color.g), f32b(k.color.b)))
                    .collect()
            )
        ),
        Variant::ContentId(c) => format!("VContentId {}", coq_bytes(c.as_str().as_bytes())),
        Variant::Enum(e) => format!("VEnum {}", e.to_u32()),
        Variant::Faces(f) => format!("VFaces {}", f.bits()),
        Variant::Float32(x) => format!("VFloat32 {}", x.to_bits()),
        Variant::Float64(x) => format!("VFloat64 {}", x.to_bits()),
        Variant::Int32(i) => format!("VInt32 {}", z(*i as i64)),
        Variant::Int64(i) => format!("VInt64 {}", z(*i)),
        Variant::NumberRange(r) => format!("VNumberRange {} {}", f32b(r.min), f32b(r.max)),
        Variant::NumberSequence(s) => format!(
            "VNumberSequence {}",
            list(
                s.keypoints
                    .iter()
                    .map(|k| format!("({},{},{})", f32b(k.time), f32b(k.value), f32b(k.envelope)))
                    .collect()
            )
        ),
        Variant::PhysicalProperties(p) => match p {
            PhysicalProperties::Default => "VPhysicalProperties None".to_string(),
            PhysicalProperties::Custom(c) => format!(
                "VPhysicalProperties (Some (mkPhys {} {} {} {} {}))",
                f32b(c.density),
                f32b(c.friction),
                f32b(c.elasticity),
                f32b(c.friction_weight),
                f32b(c.elasticity_weight)
            ),
        },
        Variant::Ray(r) => format!("VRay {} {}", v3(&r.origin), v3(&r.direction)),
        Variant::Rect(r) => format!("VRect {} {}", v2(&r.min), v2(&r.max)),
        Variant::Ref(r) => {
            if r.is_some() {
                if STRICT.load(std::sync::atomic::Ordering::Relaxed) {
                    fail("a default value is a non-null Ref");
                }
                return "VRef nonnull".to_string();
            }
            "VRef 0".to_string()
        }
        Variant::Region3(r) => format!("VRegion3 {} {}", v3(&r.min), v3(&r.max)),
        Variant::Region3int16(r) => format!(
            "VRegion3int16 ({},{},{}) ({},{},{})",
            z(r.min.x as i64),
            z(r.min.y as i64),
            z(r.min.z as i64),
            z(r.max.x as i64),
            z(r.max.y as i64),
            z(r.max.z as i64)
        ),
        Variant::SharedString(s) => format!("VSharedString {}", coq_bytes(s.data())),
        Variant::String(s) => format!("VString {}", coq_bytes(s.as_bytes())),
        Variant::UDim(u) => format!("VUDim {}", udim(u)),
        Variant::UDim2(u) => format!("VUDim2 {} {}", udim(&u.x), udim(&u.y)),
        Variant::Vector2(v) => format!("VVector2 {}", v2(v)),
        Variant::Vector2int16(v) => format!("VVector2int16 {} {}", z(v.x as i64), z(v.y as i64)),
        Variant::Vector3(v) => format!("VVector3 {}", v3(v)),
        Variant::Vector3int16(v) => format!("VVector3int16 {} {} {}", z(v.x as i64), z(v.y as i64), z(v.z as i64)),
        Variant::OptionalCFrame(o) => match o {
            None => "VOptionalCFrame None".to_string(),
            Some(c) => format!("VOptionalCFrame (Some {})", cf(c)),
        },
        Variant::Tags(t) => format!("VTags {}", list(t.iter().map(|s| coq_bytes(s.as_bytes())).collect())),
        Variant::Attributes(a) => {
            // AttributesIter iterates the BTreeMap: sorted by key
            let items: Vec<String> = a.iter().map(|(k, v)| format!("({},{})", coq_bytes(k.as_bytes()), coq_value(v))).collect();
            format!("VAttributes {}", list(items))
        }
        Variant::Font(f) => format!(
            "VFont (mkFont {} {} {} {})",
            coq_bytes(f.family.as_bytes()),
            f.weight.as_u16(),
            f.style.as_u8(),
            opt_bytes(&f.cached_face_id)
        ),
        Variant::UniqueId(u) => format!("VUniqueId {} {} {}", u.index(), u.time(), z(u.random())),
        Variant::MaterialColors(m) => {
            // the map is private; its serde form is the transparent BTreeMap<TerrainMaterials, Color3uint8>
            let j = serde_json::to_value(m).unwrap_or_else(|e| fail(&format!("MaterialColors: {e}")));
            let obj = j.as_object().unwrap_or_else(|| fail("MaterialColors: serde form is not a map"));
            let mut items: Vec<(u32, String)> = Vec::new();
            for (name, _) in obj {
                let mat: rbx_types::TerrainMaterials =
                    name.parse().unwrap_or_else(|_| fail(&format!("MaterialColors: unknown material {name}")));
                let c = m.get_color(mat);
                items.push((mat as u32, format!("({},({},{},{}))", mat as u32, c.r, c.g, c.b)));
            }
            items.sort();
            format!("VMaterialColors {}", list(items.into_iter().map(|x| x.1).collect()))
        }
        Variant::SecurityCapabilities(s) => format!("VSecurityCapabilities {}", s.bits()),
        Variant::EnumItem(e) => format!("VEnumItem {} {}", coq_bytes(e.ty.as_bytes()), e.value),
        Variant::Content(c) => match c.value() {
            ContentType::None => "VContent CNone".to_string(),
            ContentType::Uri(u) => format!("VContent (CUri {})", coq_bytes(u.as_bytes())),
            ContentType::Object(r) => {
                if r.is_some() {
                    if STRICT.load(std::sync::atomic::Ordering::Relaxed) {
                        fail("a default Content value refers to an object");
                    }
                    return "VContent (CObject nonnull)".to_string();
                }
                "VContent (CObject 0)".to_string()
            }
            other => fail(&format!("ContentType {:?} is not known to the Coq value model", other)),
        },
        other => fail(&format!("Variant {:?} is not known to the Coq value model", other.ty())),
    }
}

/// Identifiers that occur more than once are emitted once as `Definition s<k> := "..."` and referred to
/// by name: a Coq string literal costs nine constructor nodes per character every time it is parsed, and
/// most names (inherited defaults, enum types) occur hundreds of times.  Purely a size/time measure:
/// `vm_compute` and extraction see through the constants.
pub struct Names {
    idx: std::collections::HashMap<String, usize>,
    order: Vec<String>,
}
impl Names {
    pub fn collect(db: &ReflectionDatabase) -> Names {
        let mut cnt: std::collections::BTreeMap<String, usize> = std::collections::BTreeMap::new();
        let mut see = |s: &str| *cnt.entry(s.to_string()).or_insert(0) += 1;
        for c in db.classes.values() {
            see(&c.name);
            if let Some(s) = &c.superclass {
                see(s);
            }
            for p in c.properties.values() {
                see(&p.name);
                if let DataType::Enum(e) = &p.data_type {
                    see(e);
                }
                match &p.kind {
                    PropertyKind::Alias { alias_for } => see(alias_for),
                    PropertyKind::Canonical { serialization: PropertySerialization::SerializesAs(n) } => see(n),
                    PropertyKind::Canonical { serialization: PropertySerialization::Migrate(m) } => see(&m.new_property_name),
                    _ => {}
                }
            }
            for k in c.default_properties.keys() {
                see(k);
            }
        }
        for e in db.enums.values() {
            see(&e.name);
            for i in e.items.keys() {
                see(i);
            }
        }
        let order: Vec<String> = cnt.into_iter().filter(|(k, n)| *n >= 2 && k.len() > 2).map(|(k, _)| k).collect();
        let idx = order.iter().enumerate().map(|(i, k)| (k.clone(), i)).collect();
        Names { idx, order }
    }
    pub fn s(&self, s: &str) -> String {
        match self.idx.get(s) {
            Some(i) => format!("s{i}"),
            None => coq_string(s),
        }
    }
}

pub fn dtype_str(nm: &Names, t: &DataType) -> String {
    match t {
        DataType::Value(vt) => format!("V {}", vt_num(*vt)),
        DataType::Enum(name) => format!("E {}", nm.s(name)),
        other => fail(&format!("DataType {:?} is not known to the model", other)),
    }
}

/// MigrationOperation is a private field of PropertyMigration: read it through its serde form
/// ({"To": .., "Migration": ..}).
pub fn migration_op(m: &rbx_reflection::PropertyMigration) -> &'static str {
    let j = serde_json::to_value(m).unwrap_or_else(|e| fail(&format!("PropertyMigration: {e}")));
    match j.get("Migration").and_then(|x| x.as_str()) {
        Some("IgnoreGuiInsetToScreenInsets") => "MigInset",
        Some("FontToFontFace") => "MigFont",
        Some("BrickColorToColor") => "MigBrick",
        Some("ContentIdToContent") => "MigContent",
        other => fail(&format!("MigrationOperation {:?} is not known to the model (Db.migop)", other)),
    }
}

fn kind_str(nm: &Names, k: &PropertyKind) -> String {
    match k {
        PropertyKind::Canonical { serialization } => match serialization {
            PropertySerialization::Serializes => "Y".to_string(),
            PropertySerialization::DoesNotSerialize => "D".to_string(),
            PropertySerialization::SerializesAs(n) => format!("(A {})", nm.s(n)),
            PropertySerialization::Migrate(m) => {
                format!("(M {} {})", nm.s(&m.new_property_name), migration_op(m))
            }
            other => fail(&format!("PropertySerialization {:?} is not known to the model", other)),
        },
        PropertyKind::Alias { alias_for } => format!("(L {})", nm.s(alias_for)),
        other => fail(&format!("PropertyKind {:?} is not known to the model", other)),
    }
}

pub fn sorted_classes<'a>(db: &'a ReflectionDatabase<'a>) -> Vec<&'a ClassDescriptor<'a>> {
    let mut v: Vec<_> = db.classes.values().collect();
    v.sort_by(|a, b| a.name.cmp(&b.name));
    v
}

/// Coq identifier for a class definition
fn class_ident(k: usize) -> String {
    format!("c{k}")
}

pub struct Counts {
    pub classes: usize,
    pub props: usize,
    pub defaults: usize,
    pub enums: usize,
    pub items: usize,
}

pub fn counts(db: &ReflectionDatabase) -> Counts {
    Counts {
        classes: db.classes.len(),
        props: db.classes.values().map(|c| c.properties.len()).sum(),
        defaults: db.classes.values().map(|c| c.default_properties.len()).sum(),
        enums: db.enums.len(),
        items: db.enums.values().map(|e| e.items.len()).sum(),
    }
}

pub fn render(db: &ReflectionDatabase) -> String {
    let mut o = String::with_capacity(2 << 20);
    let n = counts(db);
    writeln!(o, "(* GENERATED by `rbxverif dbdump` from rbx_reflection_database::get() -- do not edit.").unwrap();
    writeln!(o, "   The reflection database the crates load, as data of Model/Db.v: {} classes, {} property", n.classes, n.props).unwrap();
    writeln!(o, "   descriptors, {} default values, {} enums ({} items); database version {:?}.", n.defaults, n.enums, n.items, db.version).unwrap();
    writeln!(o, "   Classes, properties, defaults, enums and items are sorted by name.  Floats are IEEE bit").unwrap();
    writeln!(o, "   patterns (f32::to_bits / f64::to_bits) as N literals; N is the default scope, Z literals carry %Z. *)").unwrap();
    writeln!(o, "From RbxVerif Require Import Db.").unwrap();
    writeln!(o, "Open Scope N_scope.").unwrap();
    writeln!(o, "Open Scope string_scope.").unwrap();
    writeln!(o, "Open Scope list_scope.").unwrap();
    writeln!(o, "(* abbreviations: P = descriptor, V/E = value/enum type, Y/D/A/M = Serializes / DoesNotSerialize /").unwrap();
    writeln!(o, "   SerializesAs / Migrate (canonical), L = alias, B = ASCII string as bytes *)").unwrap();
    writeln!(o, "Local Notation P := mkPD (only parsing).").unwrap();
    writeln!(o, "Local Notation V := DValue (only parsing).").unwrap();
    writeln!(o, "Local Notation E := DEnum (only parsing).").unwrap();
    writeln!(o, "Local Notation Y := (KCanon PSerializes) (only parsing).").unwrap();
    writeln!(o, "Local Notation D := (KCanon PDoesNot) (only parsing).").unwrap();
    writeln!(o, "Local Notation A n := (KCanon (PSerAs n)) (only parsing).").unwrap();
    writeln!(o, "Local Notation M n op := (KCanon (PMigrate n op)) (only parsing).").unwrap();
    writeln!(o, "Local Notation L := KAlias (only parsing).").unwrap();
    writeln!(o, "Local Notation B := bytes_of_string (only parsing).").unwrap();
    writeln!(o).unwrap();
    writeln!(o, "Definition database_version : list N := [{};{};{};{}].", db.version[0], db.version[1], db.version[2], db.version[3]).unwrap();
    writeln!(o).unwrap();

    let nm = Names::collect(db);
    writeln!(o, "(* identifiers that occur more than once *)").unwrap();
    for (i, k) in nm.order.iter().enumerate() {
        writeln!(o, "Definition s{} := {}.", i, coq_string(k)).unwrap();
    }
    writeln!(o).unwrap();
    let classes = sorted_classes(db);
    for (k, c) in classes.iter().enumerate() {
        // the codecs look classes and properties up by MAP KEY and then use the descriptor's own name;
        // the model identifies the two, so they must coincide
        let key = db.classes.iter().find(|(_, v)| std::ptr::eq(*v, *c)).map(|(k, _)| k.as_ref()).unwrap();
        if key != c.name.as_ref() {
            fail(&format!("class map key {:?} differs from the descriptor name {:?}", key, c.name));
        }
        let mut props: Vec<_> = c.properties.iter().collect();
        props.sort_by(|a, b| a.0.cmp(b.0));
        let mut plines = Vec::new();
        for (pk, p) in props {
            if pk.as_ref() != p.name.as_ref() {
                fail(&format!("{}: property map key {:?} differs from the descriptor name {:?}", c.name, pk, p.name));
            }
            plines.push(format!("P {} ({}) {}", nm.s(&p.name), dtype_str(&nm, &p.data_type), kind_str(&nm, &p.kind)));
        }
        let mut defs: Vec<_> = c.default_properties.iter().collect();
        defs.sort_by(|a, b| a.0.cmp(b.0));
        let dlines: Vec<String> = defs.iter().map(|(dk, dv)| format!("({},{})", nm.s(dk), coq_value(dv))).collect();
        let sup = match &c.superclass {
            None => "None".to_string(),
            Some(s) => format!("(Some {})", nm.s(s)),
        };
        let service = c.tags.contains(&ClassTag::Service);
        writeln!(o, "Definition {} : cdesc := mkCD {} {} {}", class_ident(k), nm.s(&c.name), sup, service).unwrap();
        writeln!(o, " [{}]", plines.join(";\n  ")).unwrap();
        writeln!(o, " [{}].", dlines.join(";\n  ")).unwrap();
    }
    writeln!(o).unwrap();
    let mut enums: Vec<_> = db.enums.iter().collect();
    enums.sort_by(|a, b| a.0.cmp(b.0));
    let mut elines = Vec::new();
    for (ek, e) in enums {
        if ek.as_ref() != e.name.as_ref() {
            fail(&format!("enum map key {:?} differs from the descriptor name {:?}", ek, e.name));
        }
        let mut items: Vec<_> = e.items.iter().collect();
        items.sort_by(|a, b| a.0.cmp(b.0));
        let il: Vec<String> = items.iter().map(|(n, v)| format!("({},{})", nm.s(n), v)).collect();
        elines.push(format!("mkED {} [{}]", nm.s(&e.name), il.join(";")));
    }
    writeln!(o, "Definition database_enums : list edesc :=\n [{}].", elines.join(";\n  ")).unwrap();
    writeln!(o).unwrap();
    let idents: Vec<String> = (0..classes.len()).map(class_ident).collect();
    let mut cl = String::new();
    for (i, id) in idents.iter().enumerate() {
        if i > 0 {
            cl.push(';');
            if i % 20 == 0 {
                cl.push_str("\n  ");
            }
        }
        cl.push_str(id);
    }
    writeln!(o, "Definition database_classes : list cdesc :=\n [{}].", cl).unwrap();
    writeln!(o).unwrap();
    writeln!(o, "Definition database : db := mkDb database_classes database_enums.").unwrap();
    o
}

/// writes only when the content changed, so that `make` stays incremental
pub fn write_if_changed(path: &str, text: &str) -> bool {
    if let Ok(old) = std::fs::read_to_string(path) {
        if old == text {
            return false;
        }
    }
    let tmp = format!("{path}.tmp");
    std::fs::write(&tmp, text).unwrap_or_else(|e| fail(&format!("cannot write {tmp}: {e}")));
    std::fs::rename(&tmp, path).unwrap_or_else(|e| fail(&format!("cannot rename {tmp}: {e}")));
    true
}

pub fn cli(args: &[String]) -> bool {
    let cmd = args.get(1).map(|s| s.as_str()).unwrap_or("");
    match cmd {
        "dbdump" => {
            let db = rbx_reflection_database::get();
            let n = counts(db);
            if crate::util::has_flag(args, "--stats") {
                println!("classes={} properties={} defaults={} enums={} items={}", n.classes, n.props, n.defaults, n.enums, n.items);
                return true;
            }
            let out = crate::util::arg_val(args, "--out").unwrap_or_else(|| fail("--out FILE"));
            if n.classes == 0 || n.props == 0 || n.enums == 0 {
                fail("the loaded database is empty");
            }
            let text = render(db);
            let changed = write_if_changed(&out, &text);
            println!(
                "dbdump: classes={} properties={} defaults={} enums={} items={} bytes={} {}",
                n.classes, n.props, n.defaults, n.enums, n.items, text.len(),
                if changed { "written" } else { "unchanged" }
            );
            true
        }
        "dboracle" => {
            // the oracle tables the XML and binary MODELS need to run the database's default values through the codecs inside
            // Coq (Gen/DefaultOracle.v): the Display text of every float component occurring in a default value (and what
            // parse gives back for it), the byte quantisation of every Color3 channel, b/255 for every byte, and the
            // blake3 hash of every default SharedString.  Computed by the real functions; regenerated on every run.
            let db = rbx_reflection_database::get();
            let out = crate::util::arg_val(args, "--out").unwrap_or_else(|| fail("--out FILE"));
            let mut f32s: std::collections::BTreeSet<u32> = Default::default();
            let mut f64s: std::collections::BTreeSet<u64> = Default::default();
            let mut chans: std::collections::BTreeSet<u32> = Default::default();
            let mut sstrs: std::collections::BTreeSet<Vec<u8>> = Default::default();
            sstrs.insert(Vec::new());
            fn walk(v: &Variant, f32s: &mut std::collections::BTreeSet<u32>, f64s: &mut std::collections::BTreeSet<u64>, chans: &mut std::collections::BTreeSet<u32>, sstrs: &mut std::collections::BTreeSet<Vec<u8>>) {
                let mut f = |x: f32| {
                    f32s.insert(x.to_bits());
                };
                match v {
                    Variant::Float32(x) => f(*x),
                    Variant::Float64(x) => {
                        f64s.insert(x.to_bits());
                    }
                    Variant::Vector2(a) => { f(a.x); f(a.y) }
                    Variant::Vector3(a) => { f(a.x); f(a.y); f(a.z) }
                    Variant::Color3(c) => { f(c.r); f(c.g); f(c.b); chans.insert(c.r.to_bits()); chans.insert(c.g.to_bits()); chans.insert(c.b.to_bits()); }
                    Variant::UDim(u) => f(u.scale),
                    Variant::UDim2(u) => { f(u.x.scale); f(u.y.scale) }
                    Variant::Rect(r) => { f(r.min.x); f(r.min.y); f(r.max.x); f(r.max.y) }
                    Variant::Ray(r) => { f(r.origin.x); f(r.origin.y); f(r.origin.z); f(r.direction.x); f(r.direction.y); f(r.direction.z) }
                    Variant::NumberRange(r) => { f(r.min); f(r.max) }
                    Variant::CFrame(c) => {
                        for x in [c.position.x, c.position.y, c.position.z, c.orientation.x.x, c.orientation.x.y, c.orientation.x.z, c.orientation.y.x, c.orientation.y.y, c.orientation.y.z, c.orientation.z.x, c.orientation.z.y, c.orientation.z.z] { f(x) }
                    }
                    Variant::OptionalCFrame(Some(c)) => {
                        for x in [c.position.x, c.position.y, c.position.z, c.orientation.x.x, c.orientation.x.y, c.orientation.x.z, c.orientation.y.x, c.orientation.y.y, c.orientation.y.z, c.orientation.z.x, c.orientation.z.y, c.orientation.z.z] { f(x) }
                    }
                    Variant::PhysicalProperties(rbx_types::PhysicalProperties::Custom(p)) => { f(p.density); f(p.friction); f(p.elasticity); f(p.friction_weight); f(p.elasticity_weight) }
                    Variant::NumberSequence(s) => { for k in &s.keypoints { f(k.time); f(k.value); f(k.envelope) } }
                    Variant::ColorSequence(s) => { for k in &s.keypoints { f(k.time); f(k.color.r); f(k.color.g); f(k.color.b); chans.insert(k.color.r.to_bits()); chans.insert(k.color.g.to_bits()); chans.insert(k.color.b.to_bits()); } }
                    Variant::SharedString(s) => { sstrs.insert(s.data().to_vec()); }
                    _ => {}
                }
            }
            f32s.insert(0);
            for c in db.classes.values() {
                for v in c.default_properties.values() {
                    walk(v, &mut f32s, &mut f64s, &mut chans, &mut sstrs);
                }
            }
            let mut o = String::new();
            writeln!(o, "(* GENERATED by `rbxverif dboracle` from rbx_reflection_database::get() and the real functions -- do not edit.").unwrap();
            writeln!(o, "   Oracle tables for running the database's default values through the codec MODELS inside Coq:").unwrap();
            writeln!(o, "   Display text of every float component of a default value, its parse, Color3 channel quantisation,").unwrap();
            writeln!(o, "   b/255 for every byte, blake3 hashes of the default SharedStrings. *)").unwrap();
            writeln!(o, "From RbxVerif Require Import Base Bytes Db.").unwrap();
            writeln!(o, "Open Scope N_scope.").unwrap();
            writeln!(o, "Open Scope string_scope.").unwrap();
            writeln!(o, "Open Scope list_scope.").unwrap();
            writeln!(o, "Local Notation B := bytes_of_string (only parsing).").unwrap();
            writeln!(o, "(* f32 bits -> format!(\"{{}}\", x) for finite non-NaN x; non-finite values are spelled by the writer itself *)").unwrap();
            writeln!(o, "Definition default_show32 : list (N * bytes) := [").unwrap();
            let items: Vec<String> = f32s.iter().filter(|b| f32::from_bits(**b).is_finite()).map(|b| format!("  ({}, {})", b, coq_bytes(format!("{}", f32::from_bits(*b)).as_bytes()))).collect();
            writeln!(o, "{}].", items.join(";\n")).unwrap();
            writeln!(o, "Definition default_show64 : list (N * bytes) := [").unwrap();
            let items: Vec<String> = f64s.iter().filter(|b| f64::from_bits(**b).is_finite()).map(|b| format!("  ({}, {})", b, coq_bytes(format!("{}", f64::from_bits(*b)).as_bytes()))).collect();
            writeln!(o, "{}].", items.join(";\n")).unwrap();
            writeln!(o, "(* text -> str::parse::<f32>() bits, for exactly the texts above *)").unwrap();
            writeln!(o, "Definition default_parse32 : list (bytes * N) := [").unwrap();
            let items: Vec<String> = f32s.iter().filter(|b| f32::from_bits(**b).is_finite()).filter_map(|b| { let t = format!("{}", f32::from_bits(*b)); t.parse::<f32>().ok().map(|x| format!("  ({}, {})", coq_bytes(t.as_bytes()), x.to_bits())) }).collect();
            writeln!(o, "{}].", items.join(";\n")).unwrap();
            writeln!(o, "Definition default_parse64 : list (bytes * N) := [").unwrap();
            let items: Vec<String> = f64s.iter().filter(|b| f64::from_bits(**b).is_finite()).filter_map(|b| { let t = format!("{}", f64::from_bits(*b)); t.parse::<f64>().ok().map(|x| format!("  ({}, {})", coq_bytes(t.as_bytes()), x.to_bits())) }).collect();
            writeln!(o, "{}].", items.join(";\n")).unwrap();
            writeln!(o, "(* Color3 channel (f32 bits) -> Color3uint8 channel, by `impl From<Color3> for Color3uint8` *)").unwrap();
            writeln!(o, "Definition default_quant : list (N * N) := [").unwrap();
            let items: Vec<String> = chans.iter().map(|b| { let c: rbx_types::Color3uint8 = rbx_types::Color3::new(f32::from_bits(*b), 0.0, 0.0).into(); format!("  ({}, {})", b, c.r) }).collect();
            writeln!(o, "{}].", items.join(";\n")).unwrap();
            writeln!(o, "(* byte -> f32 bits of `impl From<Color3uint8> for Color3` *)").unwrap();
            writeln!(o, "Definition default_unit : list (N * N) := [").unwrap();
            let items: Vec<String> = (0..=255u8).map(|b| { let c: rbx_types::Color3 = rbx_types::Color3uint8::new(b, 0, 0).into(); format!("  ({}, {})", b, c.r.to_bits()) }).collect();
            writeln!(o, "{}].", items.join(";\n")).unwrap();
            writeln!(o, "(* SharedString content -> blake3 hash (SharedString::hash) *)").unwrap();
            writeln!(o, "Definition default_hash : list (bytes * bytes) := [").unwrap();
            let items: Vec<String> = sstrs.iter().map(|s| { let h = rbx_types::SharedString::new(s.clone()).hash(); format!("  ({}, {})", coq_bytes(s), coq_bytes(h.as_bytes())) }).collect();
            writeln!(o, "{}].", items.join(";\n")).unwrap();
            let changed = write_if_changed(&out, &o);
            println!("dboracle: f32={} f64={} channels={} shared_strings={} bytes={} {}", f32s.len(), f64s.len(), chans.len(), sstrs.len(), o.len(), if changed { "written" } else { "unchanged" });
            true
        }
        _ => lookup::cli(args) || dbdefaults::cli(args),
    }
}
