//! rbxverif: implementation-side harness of the /verif correspondence checks.
//! Subcommands write line-oriented text files; the Python driver `check` diffs them against the
//! output of the extracted Coq models (`ocaml/modelrun`).
mod domops;
mod rng;

use std::collections::BTreeMap;
use std::io::Write;

fn arg_val(args: &[String], name: &str) -> Option<String> {
    args.iter().position(|a| a == name).and_then(|i| args.get(i + 1).cloned())
}
fn arg_num(args: &[String], name: &str, default: u64) -> u64 {
    arg_val(args, name).map(|s| s.parse().expect("numeric argument")).unwrap_or(default)
}

pub fn read_cases(path: &str) -> Vec<(String, Vec<String>)> {
    let text = std::fs::read_to_string(path).expect("read cases");
    let mut out = Vec::new();
    let mut cur: Option<(String, Vec<String>)> = None;
    for line in text.lines() {
        if let Some(id) = line.strip_prefix("case ") {
            cur = Some((id.to_string(), Vec::new()));
        } else if line == "end" {
            if let Some(c) = cur.take() {
                out.push(c);
            }
        } else if let Some(c) = cur.as_mut() {
            if !line.trim().is_empty() {
                c.1.push(line.to_string());
            }
        }
    }
    out
}

fn main() {
    std::panic::set_hook(Box::new(|_| {}));
    let args: Vec<String> = std::env::args().collect();
    let cmd = args.get(1).map(|s| s.as_str()).unwrap_or("");
    match cmd {
        "domops-gen" => {
            let seed = arg_num(&args, "--seed", 1);
            let n = arg_num(&args, "--cases", 100);
            let cfg = domops::GenCfg {
                max_ops: arg_num(&args, "--max-ops", 30) as usize,
                max_doms: arg_num(&args, "--max-doms", 3) as usize,
                malformed_percent: arg_num(&args, "--malformed", 10),
                cycle_probe: args.iter().any(|a| a == "--cycle-probe"),
            };
            let out = arg_val(&args, "--out").expect("--out");
            let prefix = arg_val(&args, "--prefix").unwrap_or_else(|| "g".into());
            let mut f = std::io::BufWriter::new(std::fs::File::create(out).unwrap());
            let mut rng = rng::Rng::new(seed);
            for k in 0..n {
                let mut crng = rng.fork();
                let lines = domops::gen_case(&mut crng, &cfg);
                writeln!(f, "case {prefix}{seed}-{k}").unwrap();
                for l in lines {
                    writeln!(f, "{l}").unwrap();
                }
                writeln!(f, "end").unwrap();
            }
        }
        "domops-run" => {
            let cases = read_cases(&args[2]);
            let mut obs = std::io::BufWriter::new(std::fs::File::create(&args[3]).unwrap());
            let mut orc = std::io::BufWriter::new(std::fs::File::create(&args[4]).unwrap());
            let mut stats: BTreeMap<String, u64> = BTreeMap::new();
            let mut nontrivial = 0u64;
            let mut distinct = std::collections::BTreeSet::new();
            for (id, lines) in &cases {
                let r = domops::run_case(lines);
                writeln!(obs, "case {id}").unwrap();
                for o in &r.obs {
                    writeln!(obs, "{o}").unwrap();
                }
                writeln!(obs, "end").unwrap();
                for o in &r.oracle {
                    writeln!(orc, "{id} {o}").unwrap();
                }
                for (k, v) in r.stats {
                    *stats.entry(k).or_insert(0) += v;
                }
                if r.nontrivial && distinct.insert(lines.join("\n")) {
                    nontrivial += 1;
                }
            }
            stats.insert("cases".into(), cases.len() as u64);
            stats.insert("distinct_nontrivial".into(), nontrivial);
            let mut sf = std::fs::File::create(&args[5]).unwrap();
            writeln!(sf, "{}", serde_json::to_string(&stats).unwrap()).unwrap();
        }
        _ => {
            eprintln!("usage: rbxverif <domops-gen|domops-run> ...");
            std::process::exit(2);
        }
    }
}
