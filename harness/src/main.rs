//! rbxverif: implementation-side harness of the /verif correspondence checks.
//! Subcommands write line-oriented text files; the Python driver `check` diffs them against the
//! output of the extracted Coq models (`ocaml/modelrun`).  One module per case kind; each exports
//! `cli(args) -> bool`.
mod attr;
mod binbytes;
mod binfile;
mod binoracle;
mod binspec;
mod forest;
mod dbdump;
mod extreme;
mod domops;
mod fault;
mod rng;
mod sched;
mod serde17;
mod serdetok;
mod uidgen;
mod util;
mod val;
mod xmlchannel;
mod xmlfile;
mod xmlgen;
mod xmlbin;
mod xmlmig;
mod migcustom;
mod xmloracle;
mod xmlspecgen;

fn main() {
    std::panic::set_hook(Box::new(|_| {}));
    let args: Vec<String> = std::env::args().collect();
    let handled = migcustom::cli(&args) || serdetok::cli(&args) || extreme::cli(&args) || binbytes::cli(&args) || binspec::cli(&args) || serde17::cli(&args) || xmlfile::cli(&args) || binfile::cli(&args) || fault::cli(&args) || xmlchannel::cli(&args) || uidgen::cli(&args) || dbdump::cli(&args) || domops::cli(&args) || sched::cli(&args) || attr::cli(&args);
    if !handled {
        eprintln!("usage: rbxverif <kind>-<gen|run> ...");
        std::process::exit(2);
    }
}
