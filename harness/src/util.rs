//! shared helpers: argument parsing, case files
pub fn arg_val(args: &[String], name: &str) -> Option<String> {
    args.iter().position(|a| a == name).and_then(|i| args.get(i + 1).cloned())
}
pub fn arg_num(args: &[String], name: &str, default: u64) -> u64 {
    arg_val(args, name).map(|s| s.parse().expect("numeric argument")).unwrap_or(default)
}
pub fn has_flag(args: &[String], name: &str) -> bool {
    args.iter().any(|a| a == name)
}

pub fn read_cases(path: &str) -> Vec<(String, Vec<String>)> {
    let text = std::fs::read_to_string(path).expect("read cases");
    let mut out = Vec::new();
    let mut cur: Option<(String, Vec<String>)> = None;
    for line in text.lines() {
        if let Some(id) = line.strip_prefix("case ") {
            cur = Some((id.to_string(), Vec::new()));
        } else if line == "end" {
            if let Some(c) = cur.take() {
                out.push(c);
            }
        } else if let Some(c) = cur.as_mut() {
            if !line.trim().is_empty() {
                c.1.push(line.to_string());
            }
        }
    }
    out
}

pub fn write_case(f: &mut impl std::io::Write, id: &str, lines: &[String]) {
    writeln!(f, "case {id}").unwrap();
    for l in lines {
        writeln!(f, "{l}").unwrap();
    }
    writeln!(f, "end").unwrap();
}
