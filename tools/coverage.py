#!/usr/bin/env python3
"""coverage.py [--tier quick] [C01 C02 ...]
Diagnostic for the correspondence (not a registered check): builds the harness with -C instrument-coverage, runs the
given checks (default: all claimed) in coverage mode, merges the raw profiles of every harness process and reports, for
the Rust source files the Coq models mirror, which lines the differential runs and oracles never reached.  The strength
of the model-to-code tie is bounded by the generator; this shows where it is thin.  Output: notes/coverage.md (summary
table + uncovered line ranges per modelled file) and .cache/cov/lines.json."""
import glob, json, os, subprocess, sys

V = os.path.dirname(os.path.dirname(os.path.abspath(__file__)))
CACHE = os.path.join(V, ".cache")
TOOLS = glob.glob(os.path.expanduser("~/.rustup/toolchains/nightly-x86_64-unknown-linux-gnu/lib/rustlib/*/bin"))
MODELLED = [
    "rbx_dom_weak/src/dom.rs", "rbx_dom_weak/src/instance.rs",
    "rbx_types/src/shared_string.rs", "rbx_types/src/unique_id.rs", "rbx_types/src/referent.rs",
    "rbx_types/src/attributes/reader.rs", "rbx_types/src/attributes/writer.rs", "rbx_types/src/attributes/mod.rs",
    "rbx_types/src/basic_types.rs", "rbx_types/src/brick_color.rs", "rbx_types/src/tags.rs", "rbx_types/src/material_colors.rs",
    "rbx_types/src/faces.rs", "rbx_types/src/axes.rs", "rbx_types/src/font.rs", "rbx_types/src/content.rs",
    "rbx_binary/src/core.rs", "rbx_binary/src/chunk.rs", "rbx_binary/src/types.rs",
    "rbx_binary/src/serializer/state.rs", "rbx_binary/src/serializer/mod.rs",
    "rbx_binary/src/deserializer/state.rs", "rbx_binary/src/deserializer/mod.rs", "rbx_binary/src/deserializer/header.rs",
    "rbx_xml/src/core.rs", "rbx_xml/src/conversion.rs", "rbx_xml/src/serializer.rs", "rbx_xml/src/deserializer.rs",
    "rbx_xml/src/serializer_core.rs", "rbx_xml/src/deserializer_core.rs",
    "rbx_reflection/src/migration.rs", "rbx_reflection/src/database.rs", "rbx_reflection/src/class_tag.rs",
    "rbx_reflection_database/src/lib.rs",
]
MODELLED_DIRS = ["rbx_xml/src/types/"]


def sh(cmd, **kw):
    return subprocess.run(cmd, shell=isinstance(cmd, str), stdout=subprocess.PIPE, stderr=subprocess.STDOUT, text=True, **kw)


def ranges(nums):
    out, start, prev = [], None, None
    for n in nums:
        if start is None:
            start = prev = n
        elif n == prev + 1:
            prev = n
        else:
            out.append((start, prev)); start = prev = n
    if start is not None:
        out.append((start, prev))
    return out


def main():
    args = [a for a in sys.argv[1:] if not a.startswith("--")]
    tier = "quick"
    if "--tier" in sys.argv:
        tier = sys.argv[sys.argv.index("--tier") + 1]
        args = [a for a in args if a != tier]
    if not TOOLS:
        sys.exit("no llvm-tools (llvm-profdata / llvm-cov) found in the nightly toolchain")
    profdata, llvmcov = os.path.join(TOOLS[0], "llvm-profdata"), os.path.join(TOOLS[0], "llvm-cov")
    claimed = [c["property_id"] for c in json.load(open(os.path.join(V, "MANIFEST.json")))["checks"]]
    pids = args or claimed
    covdir = os.path.join(CACHE, "cov")
    os.makedirs(covdir, exist_ok=True)
    if "--keep" not in sys.argv:
        for f in glob.glob(os.path.join(covdir, "*.profraw")):
            os.remove(f)
    env = dict(os.environ, VERIF_COVERAGE="1")
    for p in pids:
        r = sh([os.path.join(V, "check"), p, "--tier", tier], cwd=V, env=env)
        tail = [l for l in r.stdout.split("\n") if l.startswith("VIOLATION")]
        print("%s exit=%d %s" % (p, r.returncode, " ".join(tail)[:200]), flush=True)
    raws = glob.glob(os.path.join(covdir, "*.profraw"))
    if not raws:
        sys.exit("no profiles written")
    listing = os.path.join(covdir, "raws.txt")
    open(listing, "w").write("\n".join(raws) + "\n")
    merged = os.path.join(covdir, "merged.profdata")
    r = sh([profdata, "merge", "-sparse", "-f", listing, "-o", merged])
    if r.returncode != 0:
        sys.exit("llvm-profdata failed:\n" + r.stdout[-2000:])
    binary = os.path.join(CACHE, "target-cov", "debug", "rbxverif")
    r = subprocess.run([llvmcov, "export", "-format=text", "-instr-profile=" + merged, binary], stdout=subprocess.PIPE, stderr=subprocess.PIPE, text=True)
    if r.returncode != 0:
        sys.exit("llvm-cov failed:\n" + r.stderr[-2000:])
    data = json.loads(r.stdout)
    result = {}
    for f in data["data"][0]["files"]:
        name = f["filename"]
        if "/repo/" not in name:
            continue
        rel = name.split("/repo/", 1)[1]
        if not (rel in MODELLED or any(rel.startswith(d) for d in MODELLED_DIRS)):
            continue
        # segments: [line, col, count, hasCount, isRegionEntry, isGap]; per-line coverage = max count of regions starting on / covering it
        lines = {}
        segs = f["segments"]
        for i, s in enumerate(segs):
            line, col, count, has, entry, gap = s[:6]
            if not has or gap:
                continue
            end = segs[i + 1][0] if i + 1 < len(segs) else line
            endcol = segs[i + 1][1] if i + 1 < len(segs) else col
            last = end if endcol > 1 else end - 1
            for ln in range(line, max(line, last) + 1):
                lines[ln] = max(lines.get(ln, 0), count)
        src = open(name).read().split("\n")
        # ignore test modules and lines without code
        cut = len(src)
        for k, t in enumerate(src):
            if t.strip().startswith("#[cfg(test)]"):
                cut = k; break
        unc = sorted(ln for ln, c in lines.items() if c == 0 and ln <= cut and src[ln - 1].strip() not in ("", "}", "{", "})", "});", ")", "};"))
        tot = len([ln for ln in lines if ln <= cut])
        result[rel] = {"instrumented_lines": tot, "uncovered": unc}
    json.dump(result, open(os.path.join(covdir, "lines.json"), "w"), indent=0)
    out = ["# Which lines of the modelled Rust code the correspondence runs reach",
           "",
           "Written by `tools/coverage.py` (checks: %s, tier %s). Diagnostic for generator quality only: a line not reached" % (" ".join(pids), tier),
           "by any harness process is a line on which model and implementation were never compared by the differential run.",
           "",
           "| file | instrumented lines | never reached | reached |", "|---|---|---|---|"]
    for rel in sorted(result):
        t, u = result[rel]["instrumented_lines"], len(result[rel]["uncovered"])
        out.append("| %s | %d | %d | %.1f%% |" % (rel, t, u, 100.0 * (t - u) / t if t else 100.0))
    out.append("")
    for rel in sorted(result):
        if not result[rel]["uncovered"]:
            continue
        out.append("## " + rel)
        src = open(os.path.join("/repo", rel)).read().split("\n")
        for a, b in ranges(result[rel]["uncovered"]):
            out.append("* %s: `%s`" % ("%d" % a if a == b else "%d-%d" % (a, b), src[a - 1].strip()[:110].replace("`", "'")))
        out.append("")
    open(os.path.join(V, "notes", "coverage.md"), "w").write("\n".join(out) + "\n")
    print("written notes/coverage.md")


if __name__ == "__main__":
    main()
