#!/usr/bin/env python3
"""fingerprint.py [--update]
Records (tools/source_fingerprints.json) a content hash of every library source file of /repo the models mirror, taken
on the tree the models were last validated against.  ./check compares the current working tree with it: when a file
of a crate relevant to the property differs, the modelled code has changed since the tie was last established, and
the correspondence and oracle stages are repeated under further seeds (more cases, same generators) before the
property is reported as holding.  A changed file is never by itself a violation and raises no alarm; it only buys
more search.  Run with --update after committing a change to /repo (fix: / hook commits)."""
import hashlib, json, os, re, sys

V = os.path.dirname(os.path.dirname(os.path.abspath(__file__)))
FILE = os.path.join(V, "tools", "source_fingerprints.json")
CRATES = ["rbx_dom_weak", "rbx_types", "rbx_binary", "rbx_xml", "rbx_reflection", "rbx_reflection_database", "rbx_util"]
RELEVANT = {
    "C09": ["rbx_dom_weak"], "C10": ["rbx_dom_weak"], "C11": ["rbx_dom_weak"],
    "C12": ["rbx_dom_weak", "rbx_types", "rbx_xml", "rbx_binary"],
    "C18": ["rbx_types"], "C14": ["rbx_types"], "C17": ["rbx_types"],
    "C01": ["rbx_binary", "rbx_types", "rbx_dom_weak", "rbx_reflection", "rbx_reflection_database"],
    "C03": ["rbx_binary", "rbx_types", "rbx_dom_weak", "rbx_reflection", "rbx_reflection_database"],
    "C04": ["rbx_binary", "rbx_types", "rbx_dom_weak", "rbx_reflection", "rbx_reflection_database"],
    "C08": ["rbx_binary", "rbx_types", "rbx_dom_weak", "rbx_reflection", "rbx_reflection_database"],
    "C02": ["rbx_xml", "rbx_types", "rbx_dom_weak", "rbx_reflection", "rbx_reflection_database"],
    "C05": ["rbx_xml", "rbx_types", "rbx_dom_weak", "rbx_reflection", "rbx_reflection_database"],
    "C16": ["rbx_reflection", "rbx_reflection_database", "rbx_binary", "rbx_xml"],
}


def norm(text):
    """comments and whitespace do not count"""
    text = re.sub(r"/\*.*?\*/", "", text, flags=re.S)
    text = re.sub(r"//[^\n]*", "", text)
    return re.sub(r"\s+", " ", text).strip()


def current(repo):
    out = {}
    for c in CRATES:
        for root, dirs, files in os.walk(os.path.join(repo, c)):
            dirs[:] = [d for d in dirs if d not in ("target", "tests", "benches", "examples", "snapshots")]
            for f in files:
                p = os.path.join(root, f)
                rel = os.path.relpath(p, repo)
                if f.endswith(".rs"):
                    out[rel] = hashlib.sha256(norm(open(p, errors="replace").read()).encode()).hexdigest()[:20]
                elif f.endswith(".msgpack"):
                    out[rel] = hashlib.sha256(open(p, "rb").read()).hexdigest()[:20]
    return out


def changed(pid, repo):
    """files of the crates relevant to `pid` whose content differs from the recorded tree (added/removed included)"""
    if not os.path.exists(FILE):
        return []
    rec = json.load(open(FILE))["files"]
    cur = current(repo)
    crates = RELEVANT.get(pid, CRATES)
    diff = sorted(k for k in set(rec) | set(cur) if rec.get(k) != cur.get(k) and k.split("/")[0] in crates)
    return diff


if __name__ == "__main__":
    if "--update" in sys.argv:
        import subprocess
        head = subprocess.run(["git", "-C", "/repo", "rev-parse", "--short", "HEAD"], capture_output=True, text=True).stdout.strip()
        json.dump({"repo_head": head, "files": current("/repo")}, open(FILE, "w"), indent=0, sort_keys=True)
        print("recorded", len(current("/repo")), "files at", head)
    else:
        for p in sorted(RELEVANT):
            print(p, changed(p, os.environ.get("VERIF_REPO", "/repo")))
