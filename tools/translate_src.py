"""TRANSLATOR (second part): regenerates /verif/coq/Gen/SourceTables.v from the source text of /repo:

  src_attr_type_ids     the type_ids! table of rbx_types/src/attributes/type_id.rs      (VariantType name, id), source order
  src_rotation_table    the match arms of Matrix3::from_basic_rotation_id               (id, nine entries in {-1,0,1})
  src_xml_tags          `const XML_TAG_NAME` of every `impl XmlType for T` in rbx_xml/src/types/*.rs, the module-level
                        `pub const XML_TAG_NAME` (keyed by file stem) and the invocations of float_type!/int_type!/impl_vector!
  src_bin_constants     FILE_MAGIC_HEADER, FILE_SIGNATURE, FILE_VERSION (core.rs), FILE_FOOTER (serializer/state.rs),
                        ZSTD_MAGIC_NUMBER (chunk.rs) as byte lists
  src_chunk_names_writer / src_chunk_names_reader   the chunk names the serializer emits / the deserializer dispatches on

Proofs/SourceTablesFacts.v proves that the tables the models use are these.  FAILS CLOSED like translate.py."""
import os, re, sys
sys.path.insert(0, os.path.dirname(os.path.abspath(__file__)))
import vlib
from translate import need, src, write_if_changed, coq_str, block_after, strip_line_comments, GEN, TranslateError


def rust_bytes(lit):
    """b"..." literal body -> list of ints"""
    out, i = [], 0
    while i < len(lit):
        c = lit[i]
        if c == "\\":
            n = lit[i + 1]
            if n == "x":
                out.append(int(lit[i + 2:i + 4], 16)); i += 4
            elif n == "0":
                out.append(0); i += 2
            elif n == "n":
                out.append(10); i += 2
            elif n == "r":
                out.append(13); i += 2
            elif n == "\\":
                out.append(92); i += 2
            elif n == '"':
                out.append(34); i += 2
            else:
                raise TranslateError("translator: byte string escape \\%s" % n)
        else:
            need(ord(c) < 128, "non-ASCII byte string literal")
            out.append(ord(c)); i += 1
    return out


def nlist(l):
    return "[" + "; ".join(str(x) for x in l) + "]"


def attr_type_ids():
    t = src("rbx_types/src/attributes/type_id.rs")
    m = re.search(r"^type_ids!\s*\{", t, re.M)
    need(m, "type_ids! invocation not found")
    body = strip_line_comments(block_after(t[m.start():], r"type_ids!\s*\{", "type_ids!"))
    pairs = re.findall(r"(\w+)\s*=>\s*(0x[0-9A-Fa-f]+|\d+)\s*,", body)
    need(len(pairs) >= 10, "type_ids!: too few entries")
    # the extra arm of from_variant_type
    m2 = re.search(r"VariantType::String\s*=>\s*Some\((0x[0-9A-Fa-f]+|\d+)\)", t)
    need(m2, "from_variant_type: the String arm not found")
    return [(k, int(v, 0)) for k, v in pairs], int(m2.group(1), 0)


def rotation_table():
    t = src("rbx_types/src/basic_types.rs")
    body = block_after(t, r"pub fn from_basic_rotation_id\s*\(\s*id\s*:\s*u8\s*\)\s*->\s*Result<Matrix3,\s*Error>\s*\{", "from_basic_rotation_id")
    arms = re.findall(r"(0x[0-9A-Fa-f]+)\s*=>\s*Ok\(\s*(Matrix3::identity\(\)\s*\)|Matrix3::new\((.*?)\)\s*\))\s*,", body, re.S)
    need(len(arms) >= 20, "from_basic_rotation_id: %d arms found" % len(arms))
    out = []
    for idlit, whole, inner in arms:
        if whole.startswith("Matrix3::identity"):
            ent = [1, 0, 0, 0, 1, 0, 0, 0, 1]
        else:
            nums = re.findall(r"(-?\d+)\.0", inner)
            need(len(nums) == 9, "rotation %s: %d numbers" % (idlit, len(nums)))
            ent = [int(x) for x in nums]
            need(all(x in (-1, 0, 1) for x in ent), "rotation %s: entry outside {-1,0,1}" % idlit)
        out.append((int(idlit, 16), ent))
    return out


def xml_tags():
    d = os.path.join(vlib.REPO, "rbx_xml", "src", "types")
    need(os.path.isdir(d), "rbx_xml/src/types not found")
    out = []
    for fn in sorted(os.listdir(d)):
        if not fn.endswith(".rs") or fn == "mod.rs":
            continue
        t = open(os.path.join(d, fn), encoding="utf8").read()
        for m in re.finditer(r"impl\s+XmlType\s+for\s+(\w+)\s*\{", t):
            body = block_after(t[m.start():], r"impl\s+XmlType\s+for\s+\w+\s*\{", "impl XmlType for " + m.group(1))
            c = re.search(r'const\s+XML_TAG_NAME\s*:\s*&\'static\s+str\s*=\s*"([^"]*)"\s*;', body)
            need(c, "XML_TAG_NAME of %s not found" % m.group(1))
            out.append((m.group(1), c.group(1)))
        c = re.search(r'^pub const XML_TAG_NAME\s*:\s*&str\s*=\s*"([^"]*)"\s*;', t, re.M)
        if c:
            out.append(("mod:" + fn[:-3], c.group(1)))
        for m in re.finditer(r'^(?:float_type|int_type)!\(\s*(\w+)\s*,\s*"([^"]*)"\s*\)\s*;', t, re.M):
            out.append((m.group(1), m.group(2)))
        for m in re.finditer(r'^impl_vector!\(\s*(\w+)\s*,', t, re.M):
            out.append((m.group(1), m.group(1)))          # XML_TAG_NAME = stringify!($vector)
    need(len(out) >= 30, "XML tag names: only %d found" % len(out))
    names = [k for k, _ in out]
    need(len(set(names)) == len(names), "XML tag names: duplicate key")
    return out


def bin_constants():
    core = src("rbx_binary/src/core.rs")
    ser = src("rbx_binary/src/serializer/state.rs")
    chunk = src("rbx_binary/src/chunk.rs")
    de = src("rbx_binary/src/deserializer/mod.rs")
    res = {}
    for name, text in (("FILE_MAGIC_HEADER", core), ("FILE_SIGNATURE", core), ("FILE_FOOTER", ser)):
        m = re.search(r'static\s+%s\s*:\s*&\[u8\]\s*=\s*b"((?:[^"\\]|\\.)*)"\s*;' % name, text)
        need(m, name + " not found")
        res[name] = rust_bytes(m.group(1))
    m = re.search(r"const\s+FILE_VERSION\s*:\s*u16\s*=\s*(\d+)\s*;", core)
    need(m, "FILE_VERSION not found")
    res["FILE_VERSION"] = int(m.group(1))
    m = re.search(r"const\s+ZSTD_MAGIC_NUMBER\s*:\s*&\[u8\]\s*=\s*&\[([^\]]*)\]\s*;", chunk)
    need(m, "ZSTD_MAGIC_NUMBER not found")
    res["ZSTD_MAGIC_NUMBER"] = [int(x.strip(), 0) for x in m.group(1).split(",") if x.strip()]
    w = [rust_bytes(x) for x in re.findall(r'ChunkBuilder::new\(\s*b"((?:[^"\\]|\\.)*)"', ser)]
    need(len(w) >= 5, "serializer chunk names: %d found" % len(w))
    body = block_after(de, r"match\s+&chunk\.name\s*\{", "deserializer chunk dispatch")
    r = [rust_bytes(x) for x in re.findall(r'b"((?:[^"\\]|\\.)*)"\s*=>', body)]
    need(len(r) >= 6, "deserializer chunk names: %d found" % len(r))
    return res, w, r


def render():
    ids, string_id = attr_type_ids()
    rot = rotation_table()
    tags = xml_tags()
    consts, wnames, rnames = bin_constants()
    o = []
    o.append("(* GENERATED by tools/translate_src.py from the source text of /repo -- do not edit.\n"
             "   attributes/type_id.rs, basic_types.rs (from_basic_rotation_id), rbx_xml/src/types/*.rs (XML_TAG_NAME),\n"
             "   rbx_binary core.rs / chunk.rs / serializer/state.rs / deserializer/mod.rs (constants and chunk names). *)")
    o.append("From Coq Require Import List NArith ZArith String.\nImport ListNotations.\nOpen Scope N_scope.\nOpen Scope string_scope.\n")
    o.append("Definition src_attr_type_ids : list (string * N) :=\n  [ " + "\n  ; ".join("(%s, %d)" % (coq_str(k), v) for k, v in ids) + " ].")
    o.append("Definition src_attr_string_id : N := %d.\n" % string_id)
    o.append("Definition src_rotation_table : list (N * list Z) :=\n  [ " + "\n  ; ".join("(%d, [%s]%%Z)" % (k, "; ".join("(%d)" % x if x < 0 else str(x) for x in e)) for k, e in rot) + " ].\n")
    o.append("Definition src_xml_tags : list (string * string) :=\n  [ " + "\n  ; ".join("(%s, %s)" % (coq_str(k), coq_str(v)) for k, v in tags) + " ].\n")
    for k in ("FILE_MAGIC_HEADER", "FILE_SIGNATURE", "FILE_FOOTER", "ZSTD_MAGIC_NUMBER"):
        o.append("Definition src_%s : list N := %s." % (k, nlist(consts[k])))
    o.append("Definition src_FILE_VERSION : N := %d." % consts["FILE_VERSION"])
    o.append("Definition src_chunk_names_writer : list (list N) := [%s]." % "; ".join(nlist(x) for x in wnames))
    o.append("Definition src_chunk_names_reader : list (list N) := [%s]." % "; ".join(nlist(x) for x in rnames))
    return "\n".join(o) + "\n"


def regenerate():
    return {"SourceTables.v": write_if_changed(os.path.join(GEN, "SourceTables.v"), render())}


if __name__ == "__main__":
    print(regenerate())
