#!/usr/bin/env python3
"""mkprops.py <Cxx> <ProofsModule> name1 name2 ... [--imports "A B C"]
Prints `Theorem Cxx_<name> : <statement as Coq prints it>. Proof. exact <name>. Qed.` for each lemma, for pasting into
coq/Properties/Cxx.v (the statement text is then pinned there)."""
import subprocess, sys, re, os
COQ = os.path.join(os.path.dirname(os.path.dirname(os.path.abspath(__file__))), "coq")
def main():
    a = sys.argv[1:]
    imports = ""
    if "--imports" in a:
        k = a.index("--imports"); imports = a[k + 1]; a = a[:k] + a[k + 2:]
    pid, mod, names = a[0], a[1], a[2:]
    script = "From RbxVerif Require Import %s %s.\nOpen Scope N_scope.\nSet Printing Width 110.\nSet Printing Depth 100000.\n" % (imports, mod)
    for n in names:
        script += 'Check %s.\n' % n
    p = subprocess.run(["coqtop", "-Q", COQ, "RbxVerif", "-quiet"], input=script, capture_output=True, text=True, cwd=COQ)
    out = p.stdout
    # split on "name\n     : type"
    for n in names:
        m = re.search(r"^%s\s*\n?\s*:\s(.*?)(?=^\S|\Z)" % re.escape(n), out, re.M | re.S)
        if not m:
            print("(* could not find %s *)" % n); continue
        ty = m.group(1).rstrip()
        ty = re.sub(r"\n\s*\n.*", "", ty, flags=re.S)
        evs = []
        for m2 in re.finditer(r"\?([A-Za-z_][A-Za-z0-9_]*)", ty):
            if m2.group(1) not in evs:
                evs.append(m2.group(1))
        if evs:
            # implicit (maximally inserted) type arguments are printed as ?A: quantify them explicitly
            for e in evs:
                ty = re.sub(r"\?%s\b" % e, e, ty)
            ty = "forall %s,\n  %s" % (" ".join("(%s : Type)" % e for e in evs), ty)
            print("Theorem %s_%s :\n  %s.\nProof. intros %s. exact (@%s %s). Qed.\n" % (pid, n.replace(".", "_"), ty, " ".join(evs), n, " ".join(evs)))
        else:
            print("Theorem %s_%s :\n  %s.\nProof. exact %s. Qed.\n" % (pid, n.replace(".", "_"), ty, n))
main()
